"""C08 — gsort: generated Less is the lexicographic strict weak order."""
import json
import os

import gsort_lib
import vlib

META = {
    "property_id": "C08",
    "level": "proof",
    "technique": "Coq theorems over an executable model of the gsort generator (tag parsing, tag grouping, Validate, PriorityTree, CompareLine rendering, the template's PriorityBlock recursion; the rendered text is linked to its meaning by a parser + evaluator of the emitted Go statements, proved to compute the model's Less, and the same parser/evaluator gives the text the real template writes a meaning that is compared with the specification on every case) for any number of fields/priorities/key kinds, plus a generic strict-weak-order sorting library (any sorted permutation agrees with the stable reference sort up to ties, equals it when stable); tied to the source by a generator farm: random struct definitions run through the real gsort CLI, compiled, Less observed on all pairs over all slices of <=4 elements, sort.Sort/sort.Stable observed on random slices <=200, every observation judged inside Coq against model and specification",
    "design_ref": "DESIGN.md §4 C08",
    "level_text": "Proof: GSortProofs.v shows for every struct definition (any number of tagged fields, any distinct priorities, ordered and bool keys, accessors, value and pointer form, any number of sorters) that the Less the generator emits is exactly lexicographic comparison of the tagged fields in ascending priority with false < true (C08_lex, C08_keys_*), hence a strict weak order (C08_irrefl/_asym/_trans/_equiv_trans); Base/SortU.v shows the reference insertion sort yields a sorted stable permutation and that ANY sorted permutation agrees with it up to ties and equals it when stable (C08_any_sort, C08_any_stable_sort). Props/C08.v is closed under the global context. The pinned rendering of a last bool key (`return s[j].X`) is kept as less_orig with C08_irrefl_orig_refuted. The model is tied to the current source by the farm run of every check.",
    "level_note": "Trusted: Coq 8.16.1 kernel + vm_compute; the hand-written model's fidelity is checked (not proved) by the farm correspondence; that Go's sort.Sort / sort.Stable return a sorted (resp. sorted and stable) permutation for a strict weak order is trusted and exercised on every run; Go compiler/runtime semantics of ==, <, !, && on the field types; the harness (definition generator, rank computation with Go's own comparison, driver). No axioms.",
}

TRUSTED = [
    "Coq 8.16.1 kernel and VM (vm_compute); no native_compute; no axioms",
    "hand-written model coq/theories/GSortModel.v of gsort/gen/sorter_desc.go + gsort.gotmpl, tied by the farm correspondence only",
    "Go's sort.Sort / sort.Stable are correct sorts for a strict weak order (trusted; their results are judged on every run)",
    "Go semantics of ==, <, !, && on strings, integers, floats (NaN excluded), bools; go/types, packages.Load, text/template, gofmt as used by the real CLI",
    "harness/cmd/c08 (definition generator, ranks computed with Go's native comparison, farm driver), Go 1.23 toolchain",
]

HEADER = ("From Coq Require Import NArith ZArith List Bool String.\nImport ListNotations.\n"
          "From GT Require Import Base.Verdict.\nFrom GT Require Import GSortModel GSortTagModel GSortJudge Base.SortU.\n")


GO_WITNESS = """From Coq Require Import List String Bool ZArith.
From GT Require Import GSortModel GSortGoModel.
From GTgen Require Import GsortGoGen.
Import ListNotations.
Set Printing Width 200. Set Printing Depth 1000.
Definition R_go_bad := Eval vm_compute in
  (List.length (filter (fun fs => negb (go_agrees_on gen_prog fs)) go_family),
   map (fun fs => (fs, run_generator gen_prog "T" fs, model_result "T" fs))
       (firstn 2 (filter (fun fs => negb (go_agrees_on gen_prog fs)) go_family))).
Print R_go_bad.
Definition R_tags_bad := Eval vm_compute in
  (List.length (filter (fun tl => negb (tags_agree_on gen_prog tl)) tag_family),
   map (fun tl => (tl, run_tagparser gen_prog tl, model_tags tl))
       (firstn 3 (filter (fun tl => negb (tags_agree_on gen_prog tl)) tag_family))).
Print R_tags_bad.
"""

# ------------------------------------------------------------------ python-side helpers
# (used only to LOCATE the offending observation for the replay file; verdicts come from Coq)

def chain(d, sorter):
    """[(priority, tagged slot, isbool, field, read through the accessor)] of the sorter in
    ascending priority; which view of the field a key reads is decided by its own tag"""
    ks, slot = [], 0
    for f in d["fields"]:
        tags = f.get("tags") or []
        if not tags:
            continue
        for t in tags:
            if t["sorter"] == sorter:
                ks.append((t["prio"], slot, f["gotype"] == "bool", f, bool(t.get("acc"))))
        slot += 1
    ks.sort(key=lambda k: k[0])
    return ks


def key_ranks(f, acc):
    return (f.get("acc_ranks") or f["ranks"]) if acc else f["ranks"]


def lex_less(ks, a, b):
    for _, slot, _, f, acc in ks:
        r = key_ranks(f, acc)
        ra, rb = r[a[slot]], r[b[slot]]
        if ra != rb:
            return ra < rb
    return False


def go_elem(d, tup):
    out, slot = {}, 0
    for f in d["fields"]:
        if f.get("tags"):
            out[f["name"]] = f["values"][tup[slot]]
            slot += 1
    return out


def locate(j):
    """first observation of the case that departs from the lexicographic order"""
    d, s = j["def"], j["sorter"]
    if not j["gen_ok"]:
        return {"what": "generation or compilation failed", "log": j.get("gen_log", "")[-1200:]}
    ks = chain(d, s)
    univ = j["univ"]
    if j.get("lenswap_bad"):
        return {"call": "Len/Swap", "observed": j["lenswap_bad"]}
    for a, ta in enumerate(univ):
        st, sf = int(j["seen_t"][a], 16), int(j["seen_f"][a], 16)
        for b, tb in enumerate(univ):
            exp = lex_less(ks, ta, tb)
            if (st >> b) & 1 and not exp or (sf >> b) & 1 and exp:
                if a == b:
                    return {"slice": [go_elem(d, ta)], "call": "Less(0, 0)", "expected": exp, "observed": not exp}
                return {"slice": [go_elem(d, ta), go_elem(d, tb)], "call": "Less(0, 1)",
                        "expected": exp, "observed": not exp}
    for r_in, r_sort, r_stable in j.get("runs") or []:
        elems = [univ[i] for i in r_in]
        for name, o in (("sort.Sort", r_sort), ("sort.Stable", r_stable)):
            bad = sorted(o) != list(range(len(r_in)))
            for x, y in zip(o, o[1:]):
                if not bad and lex_less(ks, elems[y], elems[x]):
                    bad = True
                if not bad and name == "sort.Stable" and not lex_less(ks, elems[x], elems[y]) and x > y:
                    bad = True
            if bad:
                return {"call": name, "input": [go_elem(d, univ[i]) for i in r_in[:12]],
                        "input_len": len(r_in), "observed_ids": o[:12]}
    return {"what": "no departure of the compiled behaviour from the specification located: a model-only difference, "
                    "or the generated TEXT, as read and evaluated in Coq (GSortJudge.text_sem), does not denote the "
                    "specification although the compiled code behaves"}


def shape(j):
    d, s = j["def"], j["sorter"]
    ks = chain(d, s)
    return {
        "kind": j["kind"].split("/")[0],
        "keys": len(ks),
        "last_key_bool": bool(ks and ks[-1][2]),
        "pointer": s.startswith("*"),
        # some key's field carries further gsort tags (other sorters) that read it another way
        "field_views_differ": any(len({bool(t.get("acc")) for t in k[3]["tags"]}) > 1 for k in ks),
    }


def reduced_defs(j):
    """candidates for minimisation: the sorter alone over a suffix of its key chain; then the
    same suffixes with the fields keeping ALL their tags (a failure may need the other tags of
    a field, e.g. parser state carried from one tag to the next)"""
    d, s = j["def"], j["sorter"]
    ks = chain(d, s)
    out = []
    for m in list(range(1, len(ks) + 1)) + [-x for x in range(1, len(ks) + 1)]:
        alltags, m = m < 0, abs(m)
        keep = ks[len(ks) - m:]
        fields = []
        for prio, _, _, f, acc in keep:
            g = dict(f)
            if alltags:
                g["tags"] = [dict(t) for t in f["tags"]]
                if any(u["name"] == g["name"] for u in fields):
                    continue
            else:
                g["tags"] = [{"sorter": s, "prio": prio,
                              "acc": [t["acc"] for t in f["tags"] if t["sorter"] == s and t["prio"] == prio][0]}]
            fields.append(g)
        # keep declaration order
        names = [f["name"] for f in d["fields"]]
        fields.sort(key=lambda g: names.index(g["name"]))
        uniq = []
        for g in fields:
            if any(u["name"] == g["name"] for u in uniq):
                [u for u in uniq if u["name"] == g["name"]][0]["tags"] += g["tags"]
            else:
                uniq.append(g)
        out.append({"kind": j["kind"] + "/minimised", "pkg": "m%d%s" % (m, "t" if alltags else ""), "type": d["type"], "fields": uniq})
    return out


class Farm:
    def __init__(self, ctx, binp, gsort):
        self.ctx, self.binp, self.gsort, self.k = ctx, binp, gsort, 0

    def run(self, tag, args, timeout=1500):
        self.k += 1
        work = os.path.join(self.ctx.scratch, "farm%d" % self.k)
        runs = [(tag, ["-gsort", self.gsort, "-work", work] + args)]
        env = vlib.go_env()
        old = dict(os.environ)
        os.environ.update(env)
        try:
            return vlib.harness_cases(self.ctx, self.binp, runs, timeout=timeout)
        finally:
            os.environ.clear()
            os.environ.update(old)

    def judge(self, terms, tag, judge="gs_judge", nontrivial=None):
        return self.ctx.judge_cases(HEADER, "gs_case", judge, terms, shard=6, tag=tag,
                                    nontrivial=nontrivial, timeout=1200)


def minimise(farm, j):
    cands = reduced_defs(j)
    if not cands:
        return j
    p = os.path.join(farm.ctx.scratch, "min_defs_%d.json" % farm.k)
    with open(p, "w") as f:
        json.dump(cands, f)
    terms, jsons, err = farm.run("min%d" % farm.k, ["-mode", "defs", "-defs", p, "-runs", "4", "-maxlen", "12"])
    if err:
        return j
    bad, _, err = farm.judge(terms, "min%d" % farm.k)
    if err or not bad:
        return j
    codes = dict(bad)
    for i, c in enumerate(jsons):       # smallest candidate first
        if codes.get(i) == 1:
            return c
    return j


def view(j):
    """what goes into replay files / evidence samples (matrices and long runs dropped)"""
    return {"kind": j["kind"], "definition": j["source"], "def": j["def"], "sorter": j["sorter"],
            "generated": j.get("text"), "values_per_field": {f["name"]: f["values"] for f in j["def"]["fields"] if f.get("tags")},
            "element_space": j.get("nv"), "exhaustive_upto4": j.get("exhaustive"),
            "slices": j.get("slices"), "less_calls": j.get("less_calls")}


def run(ctx):
    ctx.trusted = TRUSTED
    ctx.assumptions = ["field types are ordered Go types (strings, integers, floats without NaN), bool, or named types read through String(); elements are non-nil",
                       "every sorter's priorities are pairwise distinct (the property's quantifier; otherwise the generator refuses, which is compared with the model but never gates)",
                       "the accessor of the quantifier is String(): an element has two views per field (read plainly, read through the accessor); which one a key reads is decided per tag"]
    ctx.obligations_or_violation()
    ok, log = ctx.coq_build(["theories/GSortJudge.vo"])
    if not ok:
        ctx.report({"unchecked": "judge build (GSortJudge.v)", "detail": log[-3000:]}, {"kind": "coq_build"}, failing_input=False)
        return
    binp, log = ctx.build_harness("c08")
    if not binp:
        ctx.report({"unchecked": "harness build", "detail": log[-3000:]}, {"kind": "build"}, failing_input=False)
        return
    gsort, log = gsort_lib.build_cli(ctx, "gsort", "gsort")
    if not gsort:
        ctx.report({"unchecked": "gsort CLI build from the current tree", "detail": log[-3000:]},
                   {"kind": "build"}, failing_input=False)
        return
    quick = ctx.tier == "quick"
    # (T) the template's recursive block, regenerated from gsort.gotmpl, executed in Coq on all
    # chains of 1..4 compare lines: same words as the model's render_block (coq/ties/Tie_C08.v).
    # A broken tie is reported after the farm (which looks for a failing input) has run.
    tie_ok, tie_detail = ctx.translator_tie("xlate_gsort_tmpl", ["-repo", ctx.copy_repo()], "GsortTmplGen", "Tie_C08")
    ctx.log("template tie:", "OK" if tie_ok else "BROKEN", "-", tie_detail.splitlines()[0])
    # (T) the Go code of the generator (createSorterDesc, Validate, PriorityTree, CompareLine.String
    # and what they reach), translated by go/ast + go/types into the mini-Go of GSortGoModel.v and
    # run in the kernel on a family of definitions: same result as the Coq model
    # (coq/ties/Tie_C08_go.v)
    ctx.coq_build(["theories/GSortGoModel.vo"])
    go_ok, go_detail = ctx.translator_tie("xlate_gsort_go", ["-repo", ctx.copy_repo()], "GsortGoGen", "Tie_C08_go")
    ctx.log("generator-code tie:", "OK" if go_ok else "BROKEN", "-", go_detail.splitlines()[0])
    go_witness = None
    if not go_ok:
        rc, out = ctx.coq_eval("C08GoWitness", GO_WITNESS, timeout=300)
        go_witness = out[-4000:] if rc == 0 else None
    farm = Farm(ctx, binp, gsort)
    args = ["-mode", "all", "-n", 24 if quick else 300, "-limit", 5600000 if quick else 30000000,
            "-runs", 6 if quick else 16]
    cdir = os.path.join(vlib.VERIF, "corpus", "C08")
    cfiles = sorted(os.path.join(cdir, n) for n in os.listdir(cdir) if n.endswith(".json")) if os.path.isdir(cdir) else []
    if cfiles:
        args += ["-extra", ",".join(cfiles)]
    terms, jsons, err = farm.run("all", args, timeout=3000)
    if err:
        ctx.report({"unchecked": "farm run", "detail": err[-3000:]}, {"kind": "harness"}, failing_input=False)
        return
    ctx.log("farm: %d sorters of %d definitions generated, compiled and observed" % (
        len(jsons), len({j["def"]["pkg"] for j in jsons})))
    bad, text_ok, err = farm.judge(terms, "farm", nontrivial="gs_text_parsed")
    if err:
        ctx.report({"unchecked": "in-kernel evaluation of the correspondence", "detail": err},
                   {"kind": "coq_eval"}, failing_input=False)
        return
    # a difference from the model alone (code 2) is not yet a failing input: before it is reported
    # as `no-failing-input-found`, a widened farm (other seed, three times the definitions)
    # searches for an observation that contradicts the specification itself
    indom_bad = [(i, c) for i, c in bad if not jsons[i]["kind"].startswith("out-of-domain")]
    # ... and so does a broken tie.  The widened farm goes beyond the regular sizes and shapes
    # (6-9 tagged fields, 4-6 sorters per struct, long / non-ASCII identifiers, sort runs on slices of
    # up to 300 (thorough: 1000) elements) and is capped: a fixed number of definitions, a budget of slices per
    # sorter, a watchdog per sorter and for the whole farm.
    if (indom_bad or not tie_ok or not go_ok) and not any(c == 1 for _, c in indom_bad):
        ctx.log("no failing input yet (model-level difference / broken tie): widened search")
        wargs = ["-seed", ctx.seed + 7919, "-mode", "random", "-n", 40 if quick else 300, "-wide",
                 "-maxlen", 300 if quick else 1000,      # judged by an O(n^2) reference sort inside Coq
                 "-limit", 2000000 if quick else 30000000, "-runs", 4 if quick else 6, "-watchdog", 120]
        wt, wj, werr = farm.run("wide", wargs, timeout=3000)
        if not werr:
            wbad, _, werr = farm.judge(wt, "wide")
            if not werr:
                for j in wj:
                    j["kind"] = "widened/" + j["kind"]
                bad += [(len(jsons) + i, c) for i, c in wbad]
                jsons += wj
                ctx.cov["widened_search"] = {"sorters": len(wj), "failing_inputs_found": sum(1 for _, c in wbad if c == 1)}
    informational, groups = [], {}
    for i, code in bad:
        j = jsons[i]
        if j["kind"].startswith("out-of-domain"):
            informational.append({"def": j["source"], "sorter": j["sorter"], "code": code})
            continue
        sh = shape(j)
        groups.setdefault((code, sh["last_key_bool"], j["gen_ok"]), []).append(j)
    # one replay per group of like failures: the member with the fewest keys, minimised by
    # re-running reduced definitions (the sorter alone over suffixes of its key chain).
    # Failing inputs (code 1) are reported first and take the replay slots; when there is one,
    # the model-only differences (code 2) are attached to the evidence instead of being reported
    # as `no-failing-input-found`.
    have_failing = any(code == 1 for (code, _, _) in groups)
    if have_failing:
        ctx.cov["model_only_differences_beside_failing_inputs"] = sum(
            len(m) for (code, _, _), m in groups.items() if code == 2)
        groups = {k: m for k, m in groups.items() if k[0] == 1}
    for (code, _, _), members in sorted(groups.items(), key=lambda kv: kv[0][0]):
        members.sort(key=lambda j: (len(chain(j["def"], j["sorter"])), len(j["def"]["fields"])))
        j = members[0]
        if code == 1 and j["gen_ok"] and ctx.nreplay < 3:
            j = minimise(farm, j)
        rep = {"case": view(j), "failing_observation": locate(j),
               "verdict": {1: "observation violates the lexicographic strict-weak-order specification",
                           2: "observation satisfies the specification but differs from the Coq model"}[code],
               "like_failures_in_this_run": [{"type": m["def"]["type"], "sorter": m["sorter"], "source": m["source"]}
                                             for m in members[:8]],
               "like_failures_count": len(members),
               "replay_cmd": "./check C08 --replay <this file>"}
        if ctx.report(rep, shape(j), failing_input=(code == 1)) == "violation":
            ctx.violations += ["(like the replay above)"] * (len(members) - 1)
    if not go_ok:
        ctx.cov["generator_code_tie"] = {"status": "BROKEN", "detail": go_detail[-800:]}
        if not any(code == 1 for (code, _, _) in groups):
            ctx.report({"unchecked": "tie Tie_C08_go: the translated Go code of the generator (createSorterDesc / Validate / "
                                     "PriorityTree / CompareLine.String), run in Coq on the family of definitions, computes "
                                     "what the Coq model computes",
                        "detail": go_detail[-2000:],
                        "definitions_on_which_they_differ (translated code, model)": go_witness,
                        "note": "the farm of this run found no input on which the generated Less departs from the specification"},
                       {"kind": "translator_tie_go"}, failing_input=False)
        elif go_witness:
            ctx.cov["generator_code_tie"]["definitions_on_which_they_differ"] = go_witness[-1500:]
    if not tie_ok:
        ctx.cov["translator_tie"] = {"status": "BROKEN", "detail": tie_detail[-800:]}
        if not any(code == 1 for (code, _, _) in groups):
            genf = os.path.join(ctx.gen, "GsortTmplGen.v")
            ctx.report({"unchecked": "tie Tie_C08: the recursive block of gsort.gotmpl, executed on all chains of 1..4 compare "
                                     "lines, writes the words of the model's render_block",
                        "detail": tie_detail[-2500:],
                        "regenerated_block": open(genf).read()[-2500:] if os.path.isfile(genf) else None,
                        "note": "the farm of this run (compiled behaviour and the generated text, parsed and evaluated in Coq) "
                                "found no input on which the generated Less departs from the specification"},
                       {"kind": "translator_tie"}, failing_input=False)
    gen = [j for j in jsons if j["gen_ok"]]
    nt = [j for j in gen if len(chain(j["def"], j["sorter"])) >= 2 or shape(j)["last_key_bool"]]
    ctx.cov.update({
        "evaluations": len(jsons),
        "definitions": len({j["def"]["pkg"] for j in jsons}),
        "less_calls_observed": sum(j.get("less_calls", 0) for j in gen),
        "slices_enumerated": sum(j.get("slices", 0) for j in gen),
        "sort_runs": sum(len(j.get("runs") or []) for j in gen),
        "distinct_nontrivial": vlib.distinct_count(
            [[[(f["gotype"] if f["kind"] != "named" else "named", f.get("tags")) for f in j["def"]["fields"]], j["sorter"]] for j in nt]),
        "rule": "case = one sorter of one generated struct definition, observed through the real gsort CLI + go build: "
                "Less on every ordered pair of element values over all slices of <=4 elements, sort.Sort and sort.Stable "
                "on random slices <=200; non-trivial = the sorter has >= 2 keys or a bool last key; distinct by "
                "(field types, tags, sorter)",
        "exhaustive": all(j.get("exhaustive") for j in gen),
        "exhaustive_note": "%d of %d sorters: every slice of <= 4 elements over the full value space enumerated; the others "
                           "(value space too large for the tier's budget): all slices of <= 2 elements exhaustively (every ordered pair, "
                           "both positions) + random slices of 3-4" % (sum(1 for j in gen if j.get("exhaustive")), len(gen)),
        "generated_text_parsed_and_evaluated_in_coq": "%d of %d sorters (the Less body the real template wrote, read by "
                                                      "GSortTextModel.parse_lines and run by eval_stmts on every pair of the "
                                                      "universe; it must equal the lexicographic specification)" % (text_ok, len(jsons)),
        "len_swap_probes": sum(j.get("lenswaps", 0) for j in gen),
        "by_kind": gsort_lib.hist(j["kind"] for j in jsons),
        "keys_per_sorter": gsort_lib.hist(len(chain(j["def"], j["sorter"])) for j in jsons),
        "key_kinds": gsort_lib.hist(k[3]["kind"] + ("(" + k[3].get("under", "") + ")" if k[3]["kind"] == "named" else "")
                                    + ("+String()" if k[4] else "")
                                    for j in jsons for k in chain(j["def"], j["sorter"])),
        "fields_read_both_ways": sum(
            1 for d in {j["def"]["pkg"]: j["def"] for j in jsons}.values() for f in d["fields"]
            if len({bool(t.get("acc")) for t in (f.get("tags") or [])}) > 1),
        "fields_with_several_tags": gsort_lib.hist(
            len(f.get("tags") or []) for d in {j["def"]["pkg"]: j["def"] for j in jsons}.values() for f in d["fields"]),
        "bool_position": gsort_lib.hist(
            ("last" if shape(j)["last_key_bool"] else "not-last" if any(k[2] for k in chain(j["def"], j["sorter"])) else "none")
            for j in jsons),
        "element_form": gsort_lib.hist("pointer" if j["sorter"].startswith("*") else "value" for j in jsons),
        "sorters_per_struct": gsort_lib.hist(
            len({t["sorter"] for f in d["fields"] for t in (f.get("tags") or [])})
            for d in {j["def"]["pkg"]: j["def"] for j in jsons}.values()),
        "element_space_sizes": gsort_lib.hist(j.get("nv") for j in gen),
        "out_of_domain_informational": informational[:5],
        "samples": [view(j) for j in jsons[:2] + jsons[len(jsons) // 2: len(jsons) // 2 + 2]],
        "disagreements": len([b for b in bad if not jsons[b[0]]["kind"].startswith("out-of-domain")]),
    })
    if text_ok != len(jsons):
        ctx.log("note: the generated Less text was parsed and given a meaning in Coq for %d of %d sorters; the others are "
                "judged by their compiled behaviour only (a re-spelled template is not an alarm)" % (text_ok, len(jsons)))
    ctx.log("correspondence: %d sorters, %d Less calls over %d slices, %d sort runs, %d disagreement(s)" % (
        len(jsons), ctx.cov["less_calls_observed"], ctx.cov["slices_enumerated"], ctx.cov["sort_runs"],
        ctx.cov["disagreements"]))


def replay(ctx, path):
    """re-run the replay file's definition through the real CLI of the current tree and judge it"""
    rep = json.load(open(path))
    case = rep.get("case") or {}
    d = case.get("def")
    if not d:
        print(json.dumps(rep, indent=1))
        return 0
    binp, log = ctx.build_harness("c08")
    gsort, log2 = gsort_lib.build_cli(ctx, "gsort", "gsort")
    if not binp or not gsort:
        print((log or "") + (log2 or ""))
        return 2
    farm = Farm(ctx, binp, gsort)
    p = os.path.join(ctx.scratch, "replay_defs.json")
    d = dict(d)
    d["pkg"] = "r0"
    with open(p, "w") as f:
        json.dump([d], f)
    terms, jsons, err = farm.run("replay", ["-mode", "defs", "-defs", p])
    if err:
        print(err)
        return 2
    bad, _, err = farm.judge(terms, "replay")
    if err:
        print(err)
        return 2
    codes = dict(bad)
    rc = 0
    for i, j in enumerate(jsons):
        print(j["source"])
        print("sorter %s: generated\n  %s" % (j["sorter"], "\n  ".join(j.get("text") or ["(nothing)"])))
        if codes.get(i):
            rc = 1
            print("STILL FAILING (code %d): %s" % (codes[i], json.dumps(locate(j))))
        else:
            print("ok: Less agrees with the lexicographic order on all %s slices; sorts ok" % j.get("slices"))
    return rc
