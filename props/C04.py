"""C04 — genum: generated Values/IsValid/String/Parse agree with the definition."""
import json

import genum_lib as gl
import vlib

META = {
    "property_id": "C04",
    "level": "proof",
    "technique": "Coq theorems over a two-layer executable model of the genum generator (constant collection -> u64/Signed representation -> Value.Less -> any sorted permutation -> ValueDeduplicatedSet -> tables) and of the emitted code (Values, IsValid linear/binary search, String, StringValues, Parse/ParseString/ParseGeneric), for all definitions with pairwise distinct names; tied to the source by a generator farm: random definition files run through the real CLI, compiled, observed, and judged inside Coq against both the specification and the model; translator tie: the control skeletons of the value table, Values, StringValues, String, IsValid (threshold and both branches) and Parse<T> (switches, -caseInsensitive fallback, ParseString/ParseGeneric delegation) are regenerated from enumTemplate.gotmpl on each run, shown well-formed by computation (coq/ties/Tie_GEnumSkel.v) and evaluated by the judge",
    "design_ref": "DESIGN.md §4 C04",
    "level_text": "Proof: GEnumProofs.v shows for every definition (any number of constants, blocks and duplicates; pairwise distinct names; values representable in the underlying type; any outcome of Go's unstable sort) that the tables the generator emits make Values() the ascending list of distinct values, IsValid exact (linear and slices.BinarySearch variants), String() the primary name (least non-deprecated name, else least name) or Undefined<T>:<n>, StringValues = String over Values, and Parse* map every name (every case variant with -caseInsensitive) to its value and reject all other strings that are not parsable trait values (Props/C04.v, closed under the global context). The model is tied to the current source by the generator farm: 1-4 enum types per file over every integer underlying type, 1-40 constants (emphasis 14-18), iota/explicit/negative/gap/extreme values, duplicates with and without Deprecated markers, run through the genum CLI built from the current tree, compiled once per batch and observed exhaustively for 8-bit enums.",
    "level_note": "Trusted: Coq 8.16.1 kernel + vm_compute; the hand-written model's fidelity is checked (not proved) by the farm correspondence; go/types constant evaluation (cross-checked against intended values); Go harness; fmt %d; ASCII names only. No axioms.",
}

CASE_TYPE, JUDGE = "c04_case", "judge_c04"


def features(j):
    f = {"kind": (j.get("kind") or "").split("/")[0], "outcome": j.get("outcome")}
    for s in j.get("shape") or []:
        f[s] = True
    return f


def py_spec(e):
    """values / primary names computed independently, for the human-readable explanation only"""
    groups = {}
    for c in e["consts"]:
        groups.setdefault(int(c["val"]), []).append(c)
    prim = {}
    for v, g in groups.items():
        live = sorted(c["name"] for c in g if not c["dep"])
        prim[v] = live[0] if live else sorted(c["name"] for c in g)[0]
    return sorted(groups), prim


def explain(j):
    e = j["file"]["enums"][j["enum"]]
    if j["outcome"] != "built":
        return {"expected": "generation and compilation succeed", "observed": j["outcome"],
                "log": j.get("gen_log") or j.get("build_log")}
    vals, prim = py_spec(e)
    obs = j["obs"]
    out = []
    if [int(x) for x in obs.get("values") or []] != vals:
        out.append({"observable": "Values()", "expected": vals, "observed": obs.get("values")})
    exp_sv = [prim[v] for v in vals]
    if (obs.get("strvalues") or []) != exp_sv:
        out.append({"observable": "StringValues()", "expected": exp_sv, "observed": obs.get("strvalues")})
    for p in obs.get("probes") or []:
        v = int(p["e"])
        exp = prim.get(v, "Undefined%s:%d" % (e["type"], v))
        if p["str"] != exp or p["valid"] != (v in prim):
            out.append({"observable": "IsValid/String of %d" % v, "expected": [v in prim, exp],
                        "observed": [p["valid"], p["str"]]})
            if len(out) > 6:
                break
    names = {c["name"]: int(c["val"]) for c in e["consts"]}
    lnames = {c["name"].lower(): int(c["val"]) for c in e["consts"]}
    for p in obs.get("parses") or []:
        s = p["s"]
        exp = None
        if s in names:
            exp = "ok:%d" % names[s]
        elif j["file"]["opts"]["ci"] and s.lower() in lnames:
            exp = "ok:%d" % lnames[s.lower()]
        else:
            exp = "err"
        if not (p["p"] == p["ps"] == p["pg"] == exp):
            out.append({"observable": "Parse(%r)" % s, "expected": exp, "observed": [p["p"], p["ps"], p["pg"]]})
            if len(out) > 10:
                break
    return out


def run(ctx):
    ctx.trusted = gl.TRUSTED_COMMON
    ctx.assumptions = [
        "definitions in the documented shape: constants of one enum type in one file, pairwise distinct names (distinct after lower-casing when -caseInsensitive), values representable in the underlying type",
        "names are ASCII identifiers; input strings range over ASCII, the Latin-1 Supplement and U+0130, U+0178, U+1E9E, U+212A (KELVIN SIGN), U+212B: the model's to_lower is strings.ToLower on this alphabet (code points outside it are assumed unchanged by ToLower, which is false e.g. for Greek or Cyrillic capitals) — under -caseInsensitive `\u212a` is a case variant of the name `K`",
        "constants named like identifiers the template binds (e, input; text, ok with -caseInsensitive) are refused by the generator (expected outcome: error); trait cells bound to such identifiers are outside the modelled space",
        "int and uint are 64 bits wide (conversion model conv_int)",
    ]
    ctx.obligations_or_violation()
    if not gl.build_judge(ctx):
        return
    gl.use_skeletons(ctx)
    quick = ctx.tier == "quick"
    terms, jsons, err = gl.run_batches(ctx, "c04", 40, 10, 150)
    if err:
        ctx.report({"unchecked": "generator farm run against the current tree", "detail": err},
                   {"kind": "harness"}, failing_input=False)
        return
    bad, nt, err = ctx.judge_cases(gl.header_of(ctx), CASE_TYPE, gl.judge_of(ctx, JUDGE), terms, shard=12 if quick else 40,
                                   nontrivial="c04_nontrivial")
    if err:
        ctx.report({"unchecked": "in-kernel evaluation of the correspondence", "detail": err},
                   {"kind": "coq_eval"}, failing_input=False)
        return
    bad = gl.split_codes(ctx, jsons, bad)
    gl.report_all(ctx, "c04", CASE_TYPE, JUDGE, jsons, bad, features, explain, widen_n=80, shard=12, maxlist=40)
    ntj = [j for j in jsons if nontrivial(j)]
    ctx.cov.update({
        "evaluations": len(jsons),
        "definition_files": len({(j["pkg"], hash(j["file"].get("source"))) for j in jsons}),
        "observations_compared": sum(len(j["obs"].get("probes") or []) + len(j["obs"].get("parses") or []) * 3 + 2
                                     for j in jsons),
        "distinct_nontrivial": vlib.distinct_count([[j["file"]["enums"][j["enum"]]["consts"], j["file"]["opts"]] for j in ntj]),
        "nontrivial_in_coq": nt,
        "rule": "case = one enum type of one generated definition file; non-trivial = the definition has duplicated "
                "values or more than 15 constants (binary-search IsValid); distinct by (constants, options)",
        "exhaustive": False,
        "exhaustive_note": "IsValid/String are observed for all 256 values of every 8-bit enum; other widths: "
                           "boundaries, neighbours of every defined value and random values",
        "by_kind": gl.hist(j["kind"] for j in jsons),
        "by_outcome": gl.hist(j["outcome"] for j in jsons),
        "underlying_histogram": gl.hist(j["file"]["enums"][j["enum"]]["under"] for j in jsons),
        "constants_histogram": gl.hist(gl.size_bucket(j["nconsts"]) for j in jsons),
        "threshold_histogram": gl.hist(j["nconsts"] for j in jsons if 13 <= j["nconsts"] <= 18),
        "shape_histogram": gl.hist(s for j in jsons for s in (j.get("shape") or [])),
        "case_insensitive": sum(1 for j in jsons if j["file"]["opts"]["ci"]),
        "samples": [gl.slim(j, maxlist=6) for j in jsons[:2] + jsons[5:6]],
        "disagreements": len(bad),
    })
    ctx.log("correspondence: %d enums from %d files, %d disagreement(s)" % (
        len(jsons), ctx.cov["definition_files"], len(bad)))


def known(ctx, j):
    f = features(j)
    for k in ctx.findings:
        if k.get("property") == ctx.pid and k.get("status") == "open":
            mt = k.get("match", {})
            if mt and all(f.get(a) == b for a, b in mt.items()):
                return True
    return False


def nontrivial(j):
    e = j["file"]["enums"][j["enum"]]
    return len({c["val"] for c in e["consts"]}) != len(e["consts"]) or len(e["consts"]) > 15


def replay(ctx, path):
    return gl.replay_file(ctx, path, "c04", CASE_TYPE, JUDGE, lambda j: json.dumps(explain(j), indent=1))
