"""helpers of the C18 check (package log): Gallina headers, sequence minimisation, shape
classification of failing cases, instrumentation of the scratch copy for schedule replay."""
import json
import os
import re

import vlib

HEADER = ("From Coq Require Import ZArith NArith List Bool.\nImport ListNotations.\n"
          "From GT Require Import Base.Verdict Base.LogConc LogCtxModel LogCtxJudge.\n")

# verification-only file added to the scratch copy of package log: the hook through which the
# instrumented WithFields / SetLevel hand control to the replay scheduler before every atomic
# operation on the shared holder.  Never part of /repo.
SCHED_HOOK = '''//go:build verif

package log

import "runtime"

// VerifYield is called before every atomic operation of the instrumented functions.
var VerifYield func()

func verifBefore[T any](x T) T {
	if f := VerifYield; f != nil {
		f()
	}
	return x
}

// verifCall0 replaces x.Load(): the hook, then the call of the method value x.Load.
func verifCall0[T any](f func() T) T {
	if y := VerifYield; y != nil {
		y()
	}
	return f()
}

// verifLock replaces mu.Lock(): a yield, then a yield-spin on TryLock.  A goroutine that waits
// for the lock never blocks the baton-passing scheduler, it just burns steps.
func verifLock(try func() bool) {
	f := VerifYield
	if f == nil {
		for !try() {
			runtime.Gosched()
		}
		return
	}
	f()
	for !try() {
		f()
	}
}

// verifUnlock replaces mu.Unlock(): a yield, then the unlock.
func verifUnlock(unlock func()) {
	if f := VerifYield; f != nil {
		f()
	}
	unlock()
}
'''


def run_harness(ctx, binp, tag, args, timeout=900):
    terms, jsons, err = vlib.harness_cases(ctx, binp, [(tag, args)], timeout=timeout)
    return terms, jsons, err


def replay_seq(ctx, binp, cases, tag):
    """run the given {glob, ops} cases on the current tree; returns (terms, jsons, err).  Cases
    with "sparse": true are observed only at the points of their "plan" and at the end."""
    p = os.path.join(ctx.scratch, "in_%s.jsonl" % tag)
    with open(p, "w") as f:
        for c in cases:
            d = {"kind": c.get("kind", "replay"), "glob": c["glob"], "ops": c["ops"]}
            if c.get("sparse"):
                d.update({"sparse": True, "plan": c.get("plan") or []})
            f.write(json.dumps(d) + "\n")
    return run_harness(ctx, binp, tag, ["-mode", "replay", "-in", p])


def judge_sparse(ctx, terms, tag, shard=40):
    return ctx.judge_cases(HEADER, "lp_case", "lp_judge", terms, shard=shard, tag=tag)


def minimise_sparse(ctx, binp, j, max_rounds=10):
    """sparse cases: shortest failing prefix probed only at its end, then greedy removal of
    single operations; falls back to the case as generated when the end-only form passes"""
    cur = {"kind": j["kind"], "glob": j["glob"], "ops": j["ops"], "sparse": True, "plan": []}
    best = j
    cands = [dict(cur, ops=cur["ops"][:k]) for k in range(1, len(cur["ops"]) + 1)]
    for rnd in range(max_rounds):
        if not cands:
            break
        terms, jsons, err = replay_seq(ctx, binp, cands, "smin%d" % rnd)
        if err:
            break
        bad, _, err = judge_sparse(ctx, terms, "smin%d" % rnd, shard=max(8, len(terms) // 8 + 1))
        if err or not bad:
            break
        codes = dict(bad)
        k = sorted(codes, key=lambda k: (codes[k] != 1, len(jsons[k]["ops"]), k))[0]
        best = jsons[k]
        best["kind"] = j["kind"] + "/minimised"
        cur = dict(cur, glob=best["glob"], ops=best["ops"])
        if len(cur["ops"]) <= 1:
            break
        cands = [dict(cur, ops=drop_op(cur["ops"], i)) for i in range(len(cur["ops"]))]
    return best


def drop_op(ops, i):
    """remove operation i (it created context i+1): later references to that context go to the
    context the removed operation was applied to, higher context numbers shift down"""
    parent = ops[i]["ctx"]
    out = []
    for k, o in enumerate(ops):
        if k == i:
            continue
        o = dict(o)
        if k > i:
            if o["ctx"] == i + 1:
                o["ctx"] = parent
            elif o["ctx"] > i + 1:
                o["ctx"] -= 1
        out.append(o)
    return out


def judge_seq(ctx, terms, tag, shard=40):
    return ctx.judge_cases(HEADER, "lc_case", "lc_judge", terms, shard=shard, tag=tag)


def minimise_seq(ctx, binp, j, max_rounds=10):
    """shortest failing prefix, then greedy removal of single operations; every candidate is
    re-run on the real code and judged again inside Coq (one harness run + one coqc per round)"""
    cur = {"kind": j["kind"], "glob": j["glob"], "ops": j["ops"]}
    best = j
    cands = [dict(cur, ops=cur["ops"][:k]) for k in range(1, len(cur["ops"]) + 1)]
    for rnd in range(max_rounds):
        if not cands:
            break
        terms, jsons, err = replay_seq(ctx, binp, cands, "min%d" % rnd)
        if err:
            break
        bad, _, err = judge_seq(ctx, terms, "min%d" % rnd, shard=max(8, len(terms) // 8 + 1))
        if err or not bad:
            break
        codes = dict(bad)
        # prefer spec violations (code 1), shortest first
        order = sorted(codes, key=lambda k: (codes[k] != 1, len(jsons[k]["ops"]), k))
        k = order[0]
        best = jsons[k]
        best["kind"] = j["kind"] + "/minimised"
        cur = {"kind": j["kind"], "glob": best["glob"], "ops": best["ops"]}
        if len(cur["ops"]) <= 1:
            break
        cands = [dict(cur, ops=drop_op(cur["ops"], i)) for i in range(len(cur["ops"]))]
    return best


def seq_shape(j):
    """shape of a failing sequence, used to match known findings"""
    return "fields_added_after_level_set" if seq_nontrivial(j) else "other"


def seq_nontrivial(j):
    """a field-adding operation after some level was set, or an operation on the holder-less root"""
    lvl = j["glob"].get("wrap") is not None
    for o in j["ops"]:
        if o["op"] in ("SetLevel", "EnableDebug"):
            lvl = True
        elif o["op"] in ("With", "Child") and o.get("fields") and lvl:
            return True
    return False


def hist(it):
    h = {}
    for x in it:
        h[str(x)] = h.get(str(x), 0) + 1
    return h


def view(j, maxlen=30):
    """JSON view of a case for replay files / samples"""
    return j


def spec_table(ctx, term_glob, term_ops, tag):
    """the table the specification prescribes for a case (printed Coq term), for replay files"""
    v = HEADER + "Set Printing Width 200.\nSet Printing Depth 100000.\n"
    v += "Definition EXPECT := Eval vm_compute in (srun_obs (sinit (abs %s%%N)) %s%%N).\nPrint EXPECT.\n" % (
        term_glob, term_ops)
    rc, out = ctx.coq_eval("expect_%s" % tag, v, timeout=120)
    if rc != 0:
        return None
    m = re.search(r"EXPECT\s*=\s*(.*?)\s*:\s*list", out, re.S)
    return re.sub(r"\s+", " ", m.group(1)).replace("%N", "") if m else None


def spec_final(ctx, term_glob, term_ops, tag):
    """what the specification prescribes for every context after the whole history: per context
    the entries captured at Debug, Info, Warn, Error (printed Coq term)"""
    v = HEADER + "Set Printing Width 200.\nSet Printing Depth 100000.\n"
    v += "Definition EXPECT := Eval vm_compute in (last (srun_obs (sinit (abs %s%%N)) %s%%N) []).\nPrint EXPECT.\n" % (
        term_glob, term_ops)
    rc, out = ctx.coq_eval("expectf_%s" % tag, v, timeout=120)
    if rc != 0:
        return None
    m = re.search(r"EXPECT\s*=\s*(.*?)\s*:\s*(?:list|table)", out, re.S)
    return re.sub(r"\s+", " ", m.group(1)).replace("%N", "") if m else None


def report_capped(ctx, rep, feats, failing, cap):
    """ctx.report, but at most `cap` replay files in total so far (later parts of the check keep
    room for theirs); cases matching an open known finding are always passed on"""
    known = any(f.get("property") == ctx.pid and f.get("status") == "open" and f.get("match") and
                all(feats.get(k) == v for k, v in f["match"].items()) for f in ctx.findings)
    if failing and not known:
        ctx.c18_failing = True                 # a concrete failing input has been reported in this run
    if ctx.nreplay >= cap and not known:
        ctx.violations.append("(not written)")
        return "violation"
    return ctx.report(rep, feats, failing_input=failing)
