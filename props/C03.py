"""C03 — gconfig: dimension resolution selects exactly the active branch."""
import json

import gconf_lib as gl
import vlib

META = {
    "property_id": "C03",
    "level": "proof",
    "technique": "Coq theorems over an executable model of reduceAny/switchDimension/extract/FromBytes (all documents of any depth, any list of dimensions, any selection), an independent inductive resolution relation (Resolves/Fails) proved equivalent to the model on well-formed documents, + semantic translator tie (Go source of reduceAny, extract, lookupEnv, Builder.FromBytes and all helpers regenerated as Gallina; proved for all arguments to compute the model, whatever helpers/loop forms the source uses; the recursion equation of reduceAny proved to determine the function) + in-kernel correspondence of model, resolution spec, the generator's by-construction expectation and the real gconfig on generated dimensioned YAML documents x selections through builder default, environment and flag",
    "design_ref": "DESIGN.md §4 C03",
    "level_text": "Proof: GConfProofs.v shows for every list of dimensions, every selection and every well-formed document (WF = the property's quantifier; unbounded depth and width) that the model of builder.go's reduceAny equals resolve_spec, the structural resolution that replaces each dimension switch by its active entry (selected value, else default, else failure) and keeps other maps and lists with children resolved; that the active entry of a well-formed switch is unique (so Go's map iteration order cannot matter); that Get reads exactly the subtree at the dotted path; that loading fails iff a switch on the selected path has no active entry; and that entries of switches other than the active one never influence the result (Props/C03.v, closed under the global context). Resolution is also shown independent of the order in which Go ranges over each map (teq). The pinned code is kept as reduce_any_orig with three machine-checked counterexamples. The resolution is also characterised by an inductive relation written from the property text (GConfRelSpec.Resolves / Fails, sharing no classifying helper with the model) and proved equivalent to the model on well-formed documents, composed with Get-at-path and with the failure conditions of loading (C03_resolves_iff, C03_load_get, C03_load_error_iff). The model is tied to the current source (T) by harness/cmd/xlate_gconf, which regenerates reduceAny, extract, lookupEnv, Builder.FromBytes and every helper they call from builder.go/config.go as Gallina at every check (loops as a loop combinator, helpers as definitions), and coq/ties/Tie_C03.v, which proves FOR ALL ARGUMENTS that they compute the model (semantic lemmas over arbitrary loop bodies with pointwise side conditions, so renames, helper extraction/inlining, index loops, early-continue, switches and reordered statements keep the tie; reduceAny: the regenerated body is right given a recursive call that is right on the children, hence the model satisfies the recursion equation read off the source and that equation has a unique solution; FromBytes: root map resolved like any other, non-map result rejected, template pass, dimension values), and (C) by loading generated documents with the real library (public API only: WithDimension, FromBytes, GetDimension, Get) under every kind of selection and judging every observation inside Coq against the spec, the model and the generator's own expectation.",
    "level_note": "Trusted: Coq 8.16.1 kernel + vm_compute; the translator xlate_gconf and its Go primitives (GConfGenPrims.v, GConfLoop.v: map/slice/range/loop semantics; a value handed to the recursive call is not read again by the caller) — validated by the correspondence run; fidelity of the parts of GConfModel.v the translator does not read (initFlag/lookupEnv, strings.Split), checked by correspondence; yaml.v3 decoding of the generated text into the intended tree (round trip checked per case) and the yaml re-marshal inside Get for `any`/string; ParseGeneric of the generated enums is an oracle recorded per case; Go harness. No axioms.",
    "allowed_axioms": [],
}

TRUSTED = [
    "Coq 8.16.1 kernel and VM (vm_compute); no axioms (Print Assumptions: closed under the global context)",
    "hand-written model coq/theories/GConfModel.v of gconfig/builder.go (reduceAny, switchDimension, keySet, initFlag, lookupEnv) and gconfig/config.go (extract), tied by correspondence only",
    "gopkg.in/yaml.v3: the generated YAML text decodes to the tree the generator meant (checked by a round trip per case); Get's yaml re-marshal is the identity on `any` values and the textual conversion for strings",
    "ParseGeneric of the genum-generated dimension enums: recorded per case as a table (oracle), not modelled",
    "Go harness harness/cmd/c03 (generator, by-construction expectation, canonicalisation), Go 1.23 toolchain",
]

import os
CASE = "c03_case"
# developer switch: VERIF_C03_JUDGE=c03_judge_orig judges the observations against the model of
# the pinned (pre-fix) code instead (shows that reduce_any_orig is a faithful record of it)
JUDGE = os.environ.get("VERIF_C03_JUDGE", "c03_judge")


def shape(j):
    """shape of a failing case (from what was observed only, so that it is stable under replay)"""
    if j["load"] == "err":
        return "empty_map_fails" if gl.has_empty_map(j["doc"]) else "load_fails_on_resolvable_document"
    if j["load"] in ("panic", "buildpanic"):
        return "panic"
    if any(g["kind"] == "val" and g["val"]["t"] == "m" and looks_like_switch(g["val"]) for g in j["gets"]):
        return "switch_left_unresolved"
    return "wrong_result_after_successful_load"


def looks_like_switch(t):
    """some map below has a key that is `default` or spelled like a dimension value"""
    import re
    if t["t"] == "m" and any(e["k"] == "default" or re.fullmatch(r"(?i)d[123][a-e]", e["k"]) for e in t.get("m", [])):
        return True
    return any(looks_like_switch(c) for c in t.get("l", [])) or any(looks_like_switch(e["v"]) for e in t.get("m", []))


def features(j):
    return {"kind": j.get("kind", "").split("/")[0], "shape": shape(j),
            "dims_registered": len(j["dims"]), "selection_via_env": bool(j["env"])}


def view(j):
    v = {k: j[k] for k in ("kind", "dims", "env", "yaml", "load", "dimvals") if k in j}
    if j.get("load_msg"):
        v["load_msg"] = j["load_msg"][:300]
    v["doc"] = j["doc"]
    v["gets"] = j["gets"][:12]
    v["strs"] = j["strs"][:6]
    if j.get("oracle"):
        v["generator_expectation"] = j["oracle"]
    return v


def to_input(j):
    return {"dims": j["dims"], "env": j["env"], "doc": j["doc"]}


def variants(inp):
    out = [dict(inp, doc=d) for d in gl.shrink_candidates(inp["doc"])]
    if len(inp["dims"]) > 1:
        for i in range(len(inp["dims"])):
            out.append(dict(inp, dims=inp["dims"][:i] + inp["dims"][i + 1:]))
    return out


def size(inp):
    return gl.tsize(inp["doc"]) * 4 + len(inp["dims"]) + len(inp["env"])


def run(ctx):
    ctx.trusted = TRUSTED
    ctx.assumptions = [
        "documents are trees with string keys (no YAML anchors/aliases sharing nodes, no non-string keys)",
        "dimension values are chosen through the builder default, an environment variable, or the dimension's flag set after WithDimension (flag.Set on a name no earlier Builder of the process registered; flag.Parse of a real command line is not exercised)",
        "string scalars of C03 documents are not env templates (those are C16's subject)"]
    d = gl.Deferred(ctx)
    d.obligations()
    binp = gl.build(ctx, "c03")
    if not binp:
        return
    quick = ctx.tier == "quick"
    tie_ok, tie_detail = ctx.translator_tie(
        "xlate_gconf", ["-src", os.path.join(ctx.copy_repo(), "gconfig")], "GConfGen", "Tie_C03")
    ctx.log("translator tie:", "OK" if tie_ok else "BROKEN", "-", tie_detail.splitlines()[0])
    if not tie_ok:
        # the source of keySet/parsesAll/switchDimension/reduceAny/extract is no longer what the model
        # was tied to; the correspondence run (widened if need be) is the search for a failing input
        gen = os.path.join(ctx.gen, "GConfGen.v")
        ctx.cov["translator_tie"] = {"status": "BROKEN", "detail": tie_detail[-600:]}
        d.add({"unchecked": "translator tie Tie_C03 (regenerated reduceAny/switchDimension/parsesAll/keySet/"
                            "extract = GConfModel)",
               "detail": tie_detail[-2500:],
               "generated": open(gen).read()[-3000:] if os.path.isfile(gen) else None},
              {"kind": "translator_tie"})

    def runs_for(f):
        return [("random", ["-mode", "random", "-n", (500 if quick else 12000) * f]),
                ("ood", ["-mode", "ood", "-n", (80 if quick else 1500) * f])]
    runs = [("corpus", ["-mode", "corpus"])] + runs_for(1)
    cr = gl.corpus_run(ctx, "C03")
    if cr:
        runs.insert(1, cr)
    ctx.log("harness built")
    res = gl.correspondence(ctx, d, binp, {
        "header": gl.HEADER, "case_type": CASE, "judge": JUDGE, "nontrivial": "c03_nontrivial",
        "runs": runs, "widen": runs_for, "shard": 60 if quick else 200,
        # the out-of-domain stream is compared and counted, never gating
        "classify": lambda j, code: "info" if (code == 3 or j["kind"] == "ood") else
        {1: "fail", 2: "model", 4: "oracle"}.get(code, "model"),
        "shape": shape, "features": features, "view": view, "to_input": to_input,
        "variants": variants, "size": size, "minimise": lambda j: True,
        "verdict": lambda code: {1: "observation violates the resolution specification (resolve_spec)",
                                 2: "observation differs from the Coq model of reduceAny/extract",
                                 4: "generator's by-construction expectation differs from resolve_spec"}[code],
    })
    if res is None:
        return
    terms, jsons, bad, nt, info, widened = res
    gl.count_domain(ctx, gl.HEADER, CASE, terms, jsons, 60 if quick else 200)
    indom = [j for j in jsons if j["kind"] != "ood"]
    ctx.cov.update({
        "evaluations": len(jsons),
        "lookups_compared": sum(len(j["gets"]) + len(j["strs"]) for j in jsons),
        "distinct_nontrivial": nt,
        "rule": "case = (registered dimensions 1-3 in any order, selection via default/env/flag, document by "
                "construction from C03's grammar, depth <= 7) with FromBytes outcome, GetDimension and "
                "Get[any]/Get[string] at every path; non-trivial (measured inside Coq by c03_nontrivial) = "
                "the document contains a dimension switch or an empty map under the case's dimensions",
        "distinct_documents": vlib.distinct_count([[j["dims"], j["env"], j["doc"]] for j in jsons]),
        "by_kind": gl.hist(j["kind"] for j in jsons),
        "load_outcomes": gl.hist(j["load"] for j in jsons),
        "dims_registered": gl.hist(len(j["dims"]) for j in indom),
        "selection_via_env": gl.hist(bool(j["env"]) for j in indom),
        "selection_route_per_dimension": gl.hist(
            ("flag" if d.get("flag") is not None else
             "env" if any(k.lower() == d["name"].lower() for k in j["env"]) else "default")
            for j in indom for d in j["dims"]),
        "doc_size_histogram": gl.hist(min(gl.tsize(j["doc"]) // 10 * 10, 100) for j in indom),
        "doc_depth_histogram": gl.hist(gl.tdepth(j["doc"]) for j in indom),
        "out_of_domain_model_differences": info,
        "exhaustive": False,
        "samples": [view(j) for j in jsons[2:4] + jsons[10:12]],
        "disagreements": len([1 for i, c in bad if c != 3 and jsons[i]["kind"] != "ood"]),
    })
    ctx.log("correspondence: %d cases (%d non-trivial), %d lookups, %d disagreement(s), %d out-of-domain difference(s)%s" % (
        len(jsons), nt, ctx.cov["lookups_compared"], ctx.cov["disagreements"], info,
        "; widened run: %d cases, %d verdict-1" % (widened["cases"], widened["verdict_1"]) if widened else ""))


def replay(ctx, path):
    """re-run the recorded input on the current tree and judge it again"""
    rep = json.load(open(path))
    inp = rep.get("input")
    if not inp:
        print(json.dumps(rep, indent=1)[:3000])
        print("no input recorded (obligation/tie failure); re-run ./check C03")
        return 1
    binp = gl.build(ctx, "c03")
    if not binp:
        return 2
    terms, jsons, err = gl.replay_inputs(ctx, binp, [inp], "replay")
    if err:
        print(err)
        return 2
    bad, _, err = ctx.judge_cases(gl.HEADER, CASE, JUDGE, terms, tag="replay")
    if err:
        print(err)
        return 2
    print(json.dumps(view(jsons[0]), indent=1))
    if bad and bad[0][1] in (1, 2, 4):
        print("REPRODUCED: code %d on the current tree" % bad[0][1])
        return 1
    print("not reproduced on the current tree (judged ok)")
    return 0
