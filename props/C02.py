"""C02 — gsync: waiters released at zero, consistent at rest, Wait never blocks."""
import wg_lib

META = {
    "property_id": "C02",
    "level": "proof",
    "technique": "Coq: the same inductive invariant as C01 gives, at every configuration with no Add in flight, Count = sum of deltas, all handed-out channels closed at zero, a fresh Wait open above zero, and Wait returning within one micro-step; tied to the source by the regenerated IR term (eq_refl; the machine is proved to be its denotation) and by schedule replay on the instrumented real code judged in-kernel by the monitor c02_ok, plus a WaitTimeout(5ms) probe under a watchdog",
    "design_ref": "DESIGN.md §4 C02",
    "level_text": "Proof: WGProofs.v shows for every number of goroutines, every program and every schedule that in every reachable configuration with no Add/Inc/Dec in flight Count() equals the sum of the deltas, that every channel ever returned by Wait is closed when that sum is zero, that a fresh Wait returns an open channel when it is positive, and that a thread inside Wait returns after one micro-step (two from the call) whatever other calls are pending - so WaitTimeout/WaitCTX always reach their select (Props/C02.v; closed under the global context). Tied to the source as C01: regenerated IR term (eq_refl) whose denotation is the machine and schedule replay on the real code, each trace judged by c02_ok in Coq and compared with the machine's trace; at the end of each replayed schedule the real WaitTimeout(5ms) runs under a watchdog and must return nil exactly when the sum is zero.",
    "level_note": "Trusted: as C01. Partial: that the runtime timer/select of WaitTimeout/WaitCTX fires is Go runtime behaviour, exercised by the probe only. No axioms.",
}


def run(ctx):
    wg_lib.run_check(ctx, "C02")


def replay(ctx, path):
    return wg_lib.replay(ctx, "C02", path)
