"""C02 — gsync: waiters released at zero, consistent at rest, Wait never blocks."""
import wg_lib

META = {
    "property_id": "C02",
    "level": "proof",
    "technique": "Coq: the same inductive invariant as C01 gives, at every configuration with no Add in flight, Count = sum of deltas, all handed-out channels closed at zero, a fresh Wait open above zero, Wait returning at its next scheduling under every fair schedule; trace monitor c02_ok = the declarative c02_spec on well-formed traces (per-goroutine step count inside Wait); WaitTimeout/WaitCTX as a logical-time select automaton with the deadline theorem; tied to the source by the simulation check-list proved for the regenerated IR on every run, the regenerated Inc/Dec wrappers and select summaries, and by schedule replay (enumerated, random, adversarially directed) on the instrumented real code judged in-kernel by c02_ok, with real WaitTimeout / WaitCTX(cancelled context) calls at rest points in the middle and at the end of schedules",
    "design_ref": "DESIGN.md §4 C02",
    "level_text": "Proof: for every number of goroutines, every program and every schedule, in every reachable configuration with no Add/Inc/Dec in flight Count() equals the sum of the deltas, every channel ever returned by Wait is closed when that sum is zero, a fresh Wait returns an open channel when it is positive (C02_rest); a thread inside Wait returns at its very next scheduling, under ANY continuation of the schedule that schedules it at all, whatever other calls are pending or not yet started (C02_wait_fair, C02_wait_bounded); the executable monitor c02_ok holds of every machine trace (C02_monitor) and on well-formed traces is EXACTLY the declarative sentence c02_spec (C02_monitor_exact; steps inside Wait are counted per goroutine, reset only by an Add in flight - the pinned spinning Wait is rejected also when interleaved with stutters or other waiters, C02_orig_refuted_interleaved); WaitTimeout/WaitCTX (WGTimed.v: load of wg.Wait(), then a select with the deadline k of the caller's own attempts away, every attempt seeing an ARBITRARY memory) always answer within k + 2 schedulings, nil only when the loaded channel is closed, the deadline's error only at the deadline (C02_deadline_*). Props/C02.v; closed under the global context. Tied to the source as C01 (simulation check-list proved for the regenerated IR; schedule replay judged by c02_ok in Coq and compared with the machine's trace); Inc/Dec and the two select functions are re-stated by the translator and compared with stored terms; the harness makes +1/-1 calls through the real Inc/Dec and calls the real WaitTimeout(5ms) and WaitCTX(cancelled context) at points with no Add in flight in the middle and at the end of schedules: with sum > 0 they must return their deadline's error, with sum = 0 WaitTimeout must return nil, neither may hang; and a deadline probe runs WaitTimeout(d) / WaitCTX(WithTimeout(d)) with real timers on an idle group, on a group that stays positive and under release + re-arm cycles with the woken waiter held at its next yield point until the re-arming Inc is done: every answer within 2 d of the call (judged by WGJudge.dl_ok; C02_deadline_restart_unbounded is the model of an implementation that restarts its timer).",
    "level_note": "Trusted: as C01. Partial: runtime timers, contexts and the fairness of Go's select (WaitTimeout/WaitCTX are modelled with logical time; the real functions are exercised by the probes). Domain restriction: counts are mathematical integers (no int overflow). No axioms.",
}


def run(ctx):
    wg_lib.run_check(ctx, "C02")


def replay(ctx, path):
    return wg_lib.replay(ctx, "C02", path)
