"""C20 — gogenproto: protoc gets exactly the in-scope protos, includes, mappings."""
import concurrent.futures
import json
import os

import proto_lib as pl
import vlib

META = {
    "property_id": "C20",
    "level": "proof",
    "technique": "Coq theorems over an executable model of gogenproto's Run/findProtos (rose-tree "
                 "file system of any depth, all flag settings, all include lists) + in-kernel "
                 "judgement of the real CLI's recorded protoc argument vectors against model and spec",
    "design_ref": "DESIGN.md §4 C20",
    "level_text": "Proof: ProtoProofs.v shows for every directory tree (any depth/size, sibling names "
                  "distinct), every working directory, relative or absolute input directory, every "
                  "include list with or without =prefix and all 8 settings of -recurse/-vt-proto/-grpc "
                  "that the model of gogenproto/gen/generate.go produces one protoc argument vector "
                  "whose file arguments are exactly the .proto files directly inside the input "
                  "directory (all descendants with -recurse), each once; whose -I arguments are the "
                  "input directory and the include directories; whose M mappings, for every requested "
                  "plugin and only those, are exactly {relative path -> prefix joined with the relative "
                  "directory, or the directory's Go package} over the protos below each include path "
                  "that lack go_package; and that the vtproto/grpc output flags are present iff "
                  "requested (Props/C20.v, closed under the global context). The model is tied to the "
                  "current source by running the real CLI, built from the current tree, in generated "
                  "Go modules with -protoc-path pointing at a recording stub and judging every recorded "
                  "argv inside Coq against both the model and the tree-level specification.",
    "level_note": "Trusted: Coq kernel + vm_compute; model fidelity checked by correspondence, not "
                  "proved; filepath.WalkDir/Abs/Rel/Join and os.ReadDir order; module path + relative "
                  "directory as the package oracle (PackageNameFromPath and go list cross-checked against it); the line scan for 'option go_package =' on canonically spelled files; "
                  "Go harness, stub and the argv parser in ProtoJudge.v. No axioms.",
}

TRUSTED = [
    "Coq 8.16.1 kernel and VM (vm_compute); no native_compute; no axioms",
    "hand-written model coq/theories/ProtoModel.v of gogenproto/gen/generate.go (Run, findProtos, "
    "protoFileHasGoPackage), tied by correspondence only",
    "path/filepath (WalkDir visiting order and SkipDir semantics, Abs, Rel, Join, Dir, Ext), os.ReadDir, "
    "os/exec passing argv unchanged",
    "the Go package of a directory = module path + relative directory (given to model and spec as the oracle); "
    "gencommon.PackageNameFromPath / packages.Load and `go list -e` are compared with it in a helper process on "
    "every built-in/corpus tree and every 4th generated tree (every tree in the thorough tier), and through the "
    "tool's own calls in every run (a wrong package is a mapping difference)",
    "the strings.Contains line scan for `option go_package =` is assumed to decide 'declares go_package' for the "
    "canonical spelling, wherever the option sits in the file (10 positions generated, gating); near-miss "
    "spellings run as an informational out-of-domain stream",
    "Go harness harness/cmd/c20 (tree generator, read-back of the tree from disk, CLI subprocess), the "
    "recording stub harness/cmd/c20stub, the argv classifier/parser of ProtoJudge.v (parse_arg)",
]


def n_mappings(j):
    return sum(1 for a in j["argv"] if "_opt=M" in a)


def nested_proto(j):
    ip = j["spec"]["input"]["path"]
    pre = "" if ip == "." else ip + "/"
    for e in j["spec"]["tree"]:
        if e["kind"] == "file" and e["path"].endswith(".proto") and e["path"].startswith(pre):
            if "/" in e["path"][len(pre):]:
                return True
    return False


def nontrivial(j):
    return n_mappings(j) > 0 and (nested_proto(j) or len(j["spec"]["includes"]) > 0)


def features(j, diff):
    s = j["spec"]
    return {"kind": j["kind"].split("/")[0], "differs": ",".join(sorted(diff)),
            "recurse": s["recurse"], "vt": s["vt"], "grpc": s["grpc"],
            "has_includes": len(s["includes"]) > 0, "runs": j["runs"]}


def distinct_trees(jsons):
    seen = {}
    for j in jsons:
        seen.setdefault(json.dumps(j["spec"]["tree"], sort_keys=True), j["spec"]["tree"])
    return list(seen.values())


def hist(it):
    h = {}
    for x in it:
        h[str(x)] = h.get(str(x), 0) + 1
    return dict(sorted(h.items()))


def ood_stream(ctx, tools, quick):
    """informational out-of-domain stream: never gates"""
    ood = {}
    t, jo, err = pl.run_harness(ctx, tools, "ood", ["-mode", "ood", "-n", 10 if quick else 200,
                                                    "-flagsets", 1 if quick else 2, "-oraclesample", 1000000])
    if not err and t:
        b, _, err = pl.judge(ctx, t, tag="ood")
        if not err:
            codes = {k: c % 4 for k, c in b}
            for k, j in enumerate(jo):
                d = ood.setdefault(j["kind"], {"cases": 0, "agree": 0, "spec_violated": 0, "model_differs": 0})
                d["cases"] += 1
                d[{0: "agree", 1: "spec_violated", 2: "model_differs"}[codes.get(k, 0)]] += 1
    return ood


def corpus_specs():
    """minimised case descriptions kept from earlier disagreements / mutations / seeded changes"""
    cdir = os.path.join(vlib.VERIF, "corpus", "C20")
    cspecs = []
    if os.path.isdir(cdir):
        for n in sorted(os.listdir(cdir)):
            if n.endswith(".json"):
                sp = json.load(open(os.path.join(cdir, n)))
                sp = sp.get("spec", sp)
                sp["kind"] = "corpus-file"
                cspecs.append(sp)
    return cspecs


def streams(ctx, tools, plan, tagsuffix="", seed=None):
    """run the harness streams of a plan; returns (terms, jsons, err)"""
    terms, jsons = [], []
    for tag, args in plan:
        if tag == "corpusfiles":
            cs = corpus_specs()
            if not cs:
                continue
            t, j, err = pl.run_specs(ctx, tools, "corpusfiles" + tagsuffix, cs)
        else:
            t, j, err = pl.run_harness(ctx, tools, tag + tagsuffix, args, seed=seed)
        if err:
            return terms, jsons, err
        terms += t
        jsons += j
        ctx.log("harness %s%s: %d cases" % (tag, tagsuffix, len(t)))
    return terms, jsons, None


def run(ctx):
    ctx.trusted = TRUSTED
    ctx.assumptions = [
        "directory entries have distinct names, none empty, '.' or '..' (a file system)",
        "the input directory and every include directory exist and are directories; their names hold no '='",
        "PackageNameFromPath succeeds for every directory holding a mapped proto (trees live in a Go module)",
        "files declare go_package, if at all, as a top-level `option go_package = \"…\";` in that spelling, "
        "anywhere in the file",
    ]
    quick = ctx.tier == "quick"
    # reports without a concrete failing input are held back: failing inputs come first and get
    # the replay slots; a `no-failing-input-found` line is printed only if a widened run finds none
    held = []
    pool = concurrent.futures.ThreadPoolExecutor(max_workers=2)
    obl_future = pool.submit(ctx.proof_obligations)
    tools, log = pl.build_tools(ctx)
    ok, detail = obl_future.result()
    ctx.log("proof obligations:", "OK" if ok else "BROKEN", "-", detail.splitlines()[0])
    if not ok:
        held.append(({"unchecked": "theorem file Props/C20.v", "detail": detail}, {"kind": "proof_obligation"}))
    if not tools:
        pool.shutdown()
        for rep, feat in held:
            ctx.report(rep, feat, failing_input=False)
        ctx.report({"unchecked": "build of harness / stub / gogenproto CLI against the current tree",
                    "detail": log[-3000:]}, {"kind": "build"}, failing_input=False)
        return
    if quick:
        # 8 built-in layouts under covering designs of the flag cube (31 runs), the corpus files,
        # then one balanced flag setting per generated tree; real PackageNameFromPath on every 4th tree
        plan = [("corpusfiles", None),
                ("corpus", ["-mode", "corpus", "-flagsets", 4]),
                ("random", ["-mode", "random", "-n", 70, "-flagsets", 1, "-oraclesample", 4]),
                ("edge", ["-mode", "edge", "-n", 50, "-flagsets", 1, "-oraclesample", 4])]
    else:
        plan = [("corpusfiles", None),
                ("corpus", ["-mode", "corpus", "-flagsets", 8]),
                ("random", ["-mode", "random", "-n", 400, "-flagsets", 8]),
                ("edge", ["-mode", "edge", "-n", 250, "-flagsets", 8])]
    ood_future = pool.submit(ood_stream, ctx, tools, quick)
    terms, jsons, err = streams(ctx, tools, plan)
    if err:
        ood_future.result()
        pool.shutdown()
        for rep, feat in held:
            ctx.report(rep, feat, failing_input=False)
        ctx.report({"unchecked": "harness run", "detail": err}, {"kind": "harness"}, failing_input=False)
        return
    bad, exact, err = pl.judge(ctx, terms, fn="proto_judge_sig", count="exact_and_hyps", shard=40)
    ood = ood_future.result()
    pool.shutdown()
    if err:
        for rep, feat in held:
            ctx.report(rep, feat, failing_input=False)
        ctx.report({"unchecked": "in-kernel evaluation of the correspondence", "detail": err},
                   {"kind": "coq_eval"}, failing_input=False)
        return
    n_main = len(jsons)
    failing = [(i, sig) for i, sig in bad if sig % 4 == 1]
    differs = [(i, sig) for i, sig in bad if sig % 4 != 1]
    # oracle cross-check (PackageNameFromPath vs go list vs module path + relative directory)
    obad, seen = [], set()
    for j in jsons:
        key = json.dumps(j.get("oracle_mismatch") or [])
        if j.get("oracle_mismatch") and key not in seen:
            seen.add(key)
            obad.append(j)
    widened = None
    if (held or differs) and not failing and not obad:
        # something broke but no case violates the specification yet: search wider before saying so
        wplan = [("random", ["-mode", "random", "-n", 150, "-flagsets", 2, "-oraclesample", 4]),
                 ("edge", ["-mode", "edge", "-n", 100, "-flagsets", 2, "-oraclesample", 4])]
        wt, wj, werr = streams(ctx, tools, wplan, tagsuffix="-widened", seed=ctx.seed + 7919)
        widened = {"cases": len(wj), "failing_inputs": 0}
        if not werr and wt:
            wbad, _, werr = pl.judge(ctx, wt, fn="proto_judge_sig", tag="widened", shard=40)
            if not werr:
                base = len(jsons)
                terms += wt
                jsons += wj
                failing += [(base + i, sig) for i, sig in wbad if sig % 4 == 1]
                widened["failing_inputs"] = len(failing)
        ctx.log("widened search: %d further cases, %d failing input(s)" % (widened["cases"], widened["failing_inputs"]))
    also = [rep for rep, _ in held] + (
        [{"correspondence": "%d case(s) satisfy the specification but differ from the Coq model" % len(differs)}]
        if differs else [])
    # 1. failing inputs (verdict 1), minimised, first
    for i, sig in failing:
        j = jsons[i]
        code, diff = pl.decode_sig(sig)
        if ctx.nreplay < 3:
            j, sig = pl.minimise(ctx, tools, j, sig)
            code, diff = pl.decode_sig(sig)
        rep = {"case": pl.view(j),
               "verdict": "recorded protoc invocation violates the specification",
               "differs_in": diff, "replay_cmd": "./check C20 --replay <this file>"}
        if also and ctx.nreplay == 0:
            rep["also_broken"] = also
        ctx.report(rep, features(j, diff), failing_input=True)
    for j in obad:
        ctx.report({"case": pl.view(j), "verdict": "PackageNameFromPath disagrees with go list / module "
                    "path + relative directory for " + ", ".join(j["oracle_mismatch"]),
                    "oracle": j["oracle"], "package_name_from_path": j.get("oracle_package_name_from_path"),
                    "go_list": j["oracle_golist"]}, {"kind": "oracle"}, failing_input=True)
    # 2. only when no failing input exists after the widened run: the broken obligation / tie
    if not failing and not obad:
        for rep, feat in held:
            ctx.report(rep, feat, failing_input=False)
        for i, sig in differs:
            j = jsons[i]
            code, diff = pl.decode_sig(sig)
            if ctx.nreplay < 3:
                j, sig = pl.minimise(ctx, tools, j, sig)
                code, diff = pl.decode_sig(sig)
            ctx.report({"case": pl.view(j),
                        "verdict": "recorded protoc invocation satisfies the specification but differs from the Coq model",
                        "differs_in": diff, "widened_search": widened,
                        "replay_cmd": "./check C20 --replay <this file>"},
                       features(j, diff), failing_input=False)
    bad = failing + differs

    nt = [j for j in jsons if nontrivial(j)]
    ctx.cov.update({
        "evaluations": len(jsons),
        "distinct_trees": vlib.distinct_count([[j["spec"]["tree"], j["spec"]["cwd"], j["spec"]["input"],
                                                j["spec"]["includes"]] for j in jsons]),
        "distinct_nontrivial": vlib.distinct_count([j["spec"] for j in nt]),
        "rule": "case = (directory tree in a scratch Go module, working directory, input directory spelling, "
                "include list, flag setting) run through the real CLI with the recording stub; non-trivial = "
                "at least one M mapping was emitted and the tree has a .proto in a sub directory of the input "
                "directory or at least one extra include directory; distinct by the whole case description",
        "exhaustive": False,
        "stub_ran_exactly_once": sum(1 for j in jsons if j["runs"] == 1),
        "exact_argv_equal_to_model_and_theorem_hypotheses_hold": exact,
        "stub_cwd_equals_cli_cwd": sum(1 for j in jsons if j["stub_cwd"] == j["cwd_abs"]),
        "by_kind": hist(j["kind"] for j in jsons),
        "flag_settings": hist("recurse=%d vt=%d grpc=%d" % (j["spec"]["recurse"], j["spec"]["vt"], j["spec"]["grpc"])
                              for j in jsons),
        "input_form": hist(j["spec"]["input"]["form"] for j in jsons),
        "layout_input_cwd": hist("%s from %s" % (j["spec"]["input"]["path"], j["spec"]["cwd"]) for j in jsons),
        "include_count": hist(len(j["spec"]["includes"]) for j in jsons),
        "include_kinds": hist(("abs" if i["dir"]["form"] == "abs" else "rel") + ("=prefix" if i["has_prefix"] else "")
                              for j in jsons for i in j["spec"]["includes"]),
        "tree_depth": hist(j["depth"] for j in jsons),
        "tree_files": hist(j["n_files"] for j in jsons),
        "file_args": hist(sum(1 for a in j["argv"] if not a.startswith("-")) for j in jsons),
        "mapping_args": hist(min(n_mappings(j), 20) for j in jsons),
        "go_package_option_positions": hist(e.get("content") for t in distinct_trees(jsons) for e in t
                                            if e["kind"] == "file" and e["path"].endswith(".proto")),
        "oracle_dirs_checked_against_PackageNameFromPath": sum(
            len(d) for d in {json.dumps(j["oracle_package_name_from_path"], sort_keys=True): j["oracle_package_name_from_path"]
                             for j in jsons if j.get("oracle_package_name_from_path")}.values()),
        "widened_search": widened,
        "oracle_mismatches": len(obad),
        "out_of_domain_informational": ood,
        "samples": [pl.view(j) for j in (jsons[1:2] + [j for j in jsons if j["kind"] != "corpus"][:2])],
        "disagreements": len(bad),
    })
    ctx.log("correspondence: %d cases (%d distinct non-trivial), %d exact argv matches, %d disagreement(s); ood %s"
            % (len(jsons), ctx.cov["distinct_nontrivial"], exact, len(bad), json.dumps(ood)))


def replay(ctx, path):
    """re-run the recorded case description on the current tree and judge it again"""
    rep = json.load(open(path))
    case = rep.get("case", rep)
    if "spec" not in case:
        print(json.dumps(rep, indent=1))
        return 0
    tools, log = pl.build_tools(ctx)
    if not tools:
        print(log)
        return 2
    t, j, err = pl.run_specs(ctx, tools, "replay", [case["spec"]])
    if err:
        print(err)
        return 2
    bad, _, err = pl.judge(ctx, t, fn="proto_judge_sig", tag="replay")
    if err:
        print(err)
        return 2
    print(json.dumps(pl.view(j[0]), indent=1))
    if bad:
        code, diff = pl.decode_sig(bad[0][1])
        print("differs in:", diff)
        print("REPLAY: still failing (code %d)" % code)
        return 1
    print("REPLAY: passes on the current tree")
    return 0
