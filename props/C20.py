"""C20 — gogenproto: protoc gets exactly the in-scope protos, includes, mappings."""
import concurrent.futures
import json
import os

import proto_lib as pl
import vlib

META = {
    "property_id": "C20",
    "level": "proof",
    "technique": "Coq theorems over an executable model of gogenproto's Run/findProtos (rose-tree "
                 "file system of any depth, all flag settings, all include lists) + in-kernel "
                 "judgement of the real CLI's recorded protoc argument vectors against model and spec",
    "design_ref": "DESIGN.md §4 C20",
    "level_text": "Proof: ProtoProofs.v shows for every directory tree (any depth/size, sibling names "
                  "distinct), every working directory, relative or absolute input directory, every "
                  "include list with or without =prefix and all 8 settings of -recurse/-vt-proto/-grpc "
                  "that the model of gogenproto/gen/generate.go produces one protoc argument vector "
                  "whose file arguments are exactly the .proto files directly inside the input "
                  "directory (all descendants with -recurse), each once; whose -I arguments are the "
                  "input directory and the include directories; whose M mappings, for every requested "
                  "plugin and only those, are exactly {relative path -> prefix joined with the relative "
                  "directory, or the directory's Go package} over the protos below each include path "
                  "that lack go_package; and that the vtproto/grpc output flags are present iff "
                  "requested (Props/C20.v, closed under the global context). The model is tied to the "
                  "current source by running the real CLI, built from the current tree, in generated "
                  "Go modules with -protoc-path pointing at a recording stub and judging every recorded "
                  "argv inside Coq against both the model and the tree-level specification.",
    "level_note": "Trusted: Coq kernel + vm_compute; model fidelity checked by correspondence, not "
                  "proved; filepath.WalkDir/Abs/Rel/Join and os.ReadDir order; PackageNameFromPath "
                  "as a per-directory oracle (cross-checked against go list and module path + relative "
                  "directory); the line scan for 'option go_package =' on canonically spelled files; "
                  "Go harness, stub and the argv parser in ProtoJudge.v. No axioms.",
}

TRUSTED = [
    "Coq 8.16.1 kernel and VM (vm_compute); no native_compute; no axioms",
    "hand-written model coq/theories/ProtoModel.v of gogenproto/gen/generate.go (Run, findProtos, "
    "protoFileHasGoPackage), tied by correspondence only",
    "path/filepath (WalkDir visiting order and SkipDir semantics, Abs, Rel, Join, Dir, Ext), os.ReadDir, "
    "os/exec passing argv unchanged",
    "gencommon.PackageNameFromPath / packages.Load as an oracle recorded per directory; cross-checked in "
    "the harness against `go list -e` and against module path + relative directory",
    "the strings.Contains line scan for `option go_package =` is assumed to decide 'declares go_package' "
    "(true for the canonical spelling the generators write; near-miss spellings run as an informational "
    "out-of-domain stream)",
    "Go harness harness/cmd/c20 (tree generator, read-back of the tree from disk, CLI subprocess), the "
    "recording stub harness/cmd/c20stub, the argv classifier/parser of ProtoJudge.v (parse_arg)",
]


def n_mappings(j):
    return sum(1 for a in j["argv"] if "_opt=M" in a)


def nested_proto(j):
    ip = j["spec"]["input"]["path"]
    pre = "" if ip == "." else ip + "/"
    for e in j["spec"]["tree"]:
        if e["kind"] == "file" and e["path"].endswith(".proto") and e["path"].startswith(pre):
            if "/" in e["path"][len(pre):]:
                return True
    return False


def nontrivial(j):
    return n_mappings(j) > 0 and (nested_proto(j) or len(j["spec"]["includes"]) > 0)


def features(j, diff):
    s = j["spec"]
    return {"kind": j["kind"].split("/")[0], "differs": ",".join(sorted(diff)),
            "recurse": s["recurse"], "vt": s["vt"], "grpc": s["grpc"],
            "has_includes": len(s["includes"]) > 0, "runs": j["runs"]}


def hist(it):
    h = {}
    for x in it:
        h[str(x)] = h.get(str(x), 0) + 1
    return dict(sorted(h.items()))


def ood_stream(ctx, tools, quick):
    """informational out-of-domain stream: never gates"""
    ood = {}
    t, jo, err = pl.run_harness(ctx, tools, "ood", ["-mode", "ood", "-n", 15 if quick else 200, "-flagsets", 2])
    if not err and t:
        b, _, err = pl.judge(ctx, t, tag="ood")
        if not err:
            codes = {k: c % 4 for k, c in b}
            for k, j in enumerate(jo):
                d = ood.setdefault(j["kind"], {"cases": 0, "agree": 0, "spec_violated": 0, "model_differs": 0})
                d["cases"] += 1
                d[{0: "agree", 1: "spec_violated", 2: "model_differs"}[codes.get(k, 0)]] += 1
    return ood


def run(ctx):
    ctx.trusted = TRUSTED
    ctx.assumptions = [
        "directory entries have distinct names, none empty, '.' or '..' (a file system)",
        "the input directory and every include directory exist and are directories; their names hold no '='",
        "PackageNameFromPath succeeds for every directory holding a mapped proto (trees live in a Go module)",
        "files declare go_package, if at all, in the canonical spelling `option go_package = \"…\";`",
    ]
    ctx.obligations_or_violation()
    tools, log = pl.build_tools(ctx)
    if not tools:
        ctx.report({"unchecked": "build of harness / stub / gogenproto CLI against the current tree",
                    "detail": log[-3000:]}, {"kind": "build"}, failing_input=False)
        return
    quick = ctx.tier == "quick"
    runs = [("corpus", ["-mode", "corpus", "-flagsets", 8]),
            ("random", ["-mode", "random", "-n", 90 if quick else 600, "-flagsets", 2 if quick else 8]),
            ("edge", ["-mode", "edge", "-n", 54 if quick else 400, "-flagsets", 2 if quick else 8])]
    terms, jsons = [], []
    # corpus files first: minimised case descriptions kept from earlier disagreements / mutations
    cdir = os.path.join(vlib.VERIF, "corpus", "C20")
    cspecs = []
    if os.path.isdir(cdir):
        for n in sorted(os.listdir(cdir)):
            if n.endswith(".json"):
                sp = json.load(open(os.path.join(cdir, n)))
                sp = sp.get("spec", sp)
                sp["kind"] = "corpus-file"
                cspecs.append(sp)
    if cspecs:
        t, j, err = pl.run_specs(ctx, tools, "corpusfiles", cspecs)
        if err:
            ctx.report({"unchecked": "harness run", "detail": err}, {"kind": "harness"}, failing_input=False)
            return
        terms += t
        jsons += j
        ctx.log("harness corpus files: %d cases" % len(t))
    for tag, args in runs:
        t, j, err = pl.run_harness(ctx, tools, tag, args)
        if err:
            ctx.report({"unchecked": "harness run", "detail": err}, {"kind": "harness"}, failing_input=False)
            return
        for x in j:
            x["spec"]["includes"] = x["spec"].get("includes") or []
        terms += t
        jsons += j
        ctx.log("harness %s: %d cases" % (tag, len(t)))
    # the informational out-of-domain stream runs beside the judgement of the gating cases
    pool = concurrent.futures.ThreadPoolExecutor(max_workers=1)
    ood_future = pool.submit(ood_stream, ctx, tools, quick)
    bad, exact, err = pl.judge(ctx, terms, fn="proto_judge_sig", count="exact_and_hyps", shard=60)
    ood = ood_future.result()
    pool.shutdown()
    if err:
        ctx.report({"unchecked": "in-kernel evaluation of the correspondence", "detail": err},
                   {"kind": "coq_eval"}, failing_input=False)
        return
    # oracle cross-check (PackageNameFromPath vs go list vs module path + relative directory)
    obad = [j for j in jsons if j.get("oracle_mismatch")]
    seen = set()
    for j in obad:
        key = json.dumps(j["oracle_mismatch"])
        if key in seen:
            continue
        seen.add(key)
        ctx.report({"case": pl.view(j), "verdict": "PackageNameFromPath disagrees with go list / module "
                    "path + relative directory for " + ", ".join(j["oracle_mismatch"]),
                    "oracle": j["oracle"], "go_list": j["oracle_golist"]},
                   {"kind": "oracle"}, failing_input=True)
    for i, sig in bad:
        j = jsons[i]
        code, diff = pl.decode_sig(sig)
        if ctx.nreplay < 3:
            j = pl.minimise(ctx, tools, j, sig)
        rep = {"case": pl.view(j),
               "verdict": {1: "recorded protoc invocation violates the specification",
                           2: "recorded protoc invocation satisfies the specification but differs from the Coq model"}[code],
               "differs_in": diff,
               "replay_cmd": "./check C20 --replay <this file>"}
        ctx.report(rep, features(j, diff), failing_input=(code == 1))

    nt = [j for j in jsons if nontrivial(j)]
    ctx.cov.update({
        "evaluations": len(jsons),
        "distinct_trees": vlib.distinct_count([[j["spec"]["tree"], j["spec"]["cwd"], j["spec"]["input"],
                                                j["spec"]["includes"]] for j in jsons]),
        "distinct_nontrivial": vlib.distinct_count([j["spec"] for j in nt]),
        "rule": "case = (directory tree in a scratch Go module, working directory, input directory spelling, "
                "include list, flag setting) run through the real CLI with the recording stub; non-trivial = "
                "at least one M mapping was emitted and the tree has a .proto in a sub directory of the input "
                "directory or at least one extra include directory; distinct by the whole case description",
        "exhaustive": False,
        "stub_ran_exactly_once": sum(1 for j in jsons if j["runs"] == 1),
        "exact_argv_equal_to_model_and_theorem_hypotheses_hold": exact,
        "stub_cwd_equals_cli_cwd": sum(1 for j in jsons if j["stub_cwd"] == j["cwd_abs"]),
        "by_kind": hist(j["kind"] for j in jsons),
        "flag_settings": hist("recurse=%d vt=%d grpc=%d" % (j["spec"]["recurse"], j["spec"]["vt"], j["spec"]["grpc"])
                              for j in jsons),
        "input_form": hist(j["spec"]["input"]["form"] for j in jsons),
        "layout_input_cwd": hist("%s from %s" % (j["spec"]["input"]["path"], j["spec"]["cwd"]) for j in jsons),
        "include_count": hist(len(j["spec"]["includes"]) for j in jsons),
        "include_kinds": hist(("abs" if i["dir"]["form"] == "abs" else "rel") + ("=prefix" if i["has_prefix"] else "")
                              for j in jsons for i in j["spec"]["includes"]),
        "tree_depth": hist(j["depth"] for j in jsons),
        "tree_files": hist(j["n_files"] for j in jsons),
        "file_args": hist(sum(1 for a in j["argv"] if not a.startswith("-")) for j in jsons),
        "mapping_args": hist(min(n_mappings(j), 20) for j in jsons),
        "oracle_dirs_checked": sum(len(j["oracle"]) for j in jsons),
        "oracle_mismatches": len(obad),
        "out_of_domain_informational": ood,
        "samples": [pl.view(j) for j in (jsons[1:2] + [j for j in jsons if j["kind"] != "corpus"][:2])],
        "disagreements": len(bad),
    })
    ctx.log("correspondence: %d cases (%d distinct non-trivial), %d exact argv matches, %d disagreement(s); ood %s"
            % (len(jsons), ctx.cov["distinct_nontrivial"], exact, len(bad), json.dumps(ood)))


def replay(ctx, path):
    """re-run the recorded case description on the current tree and judge it again"""
    rep = json.load(open(path))
    case = rep.get("case", rep)
    if "spec" not in case:
        print(json.dumps(rep, indent=1))
        return 0
    tools, log = pl.build_tools(ctx)
    if not tools:
        print(log)
        return 2
    t, j, err = pl.run_specs(ctx, tools, "replay", [case["spec"]])
    if err:
        print(err)
        return 2
    bad, _, err = pl.judge(ctx, t, fn="proto_judge_sig", tag="replay")
    if err:
        print(err)
        return 2
    print(json.dumps(pl.view(j[0]), indent=1))
    if bad:
        code, diff = pl.decode_sig(bad[0][1])
        print("differs in:", diff)
        print("REPLAY: still failing (code %d)" % code)
        return 1
    print("REPLAY: passes on the current tree")
    return 0
