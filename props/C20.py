"""C20 — gogenproto: protoc gets exactly the in-scope protos, includes, mappings."""
import concurrent.futures
import json
import os
import time

import proto_lib as pl
import vlib

META = {
    "property_id": "C20",
    "level": "proof",
    "technique": "Coq theorems over an executable model of gogenproto's Run/findProtos/protoFileHasGoPackage "
                 "(rose-tree file system of any depth with file CONTENTS, all flag settings, all include lists) "
                 "+ translator tie: generate.go is re-translated to Gallina on every check and proved, for all "
                 "worlds and command lines, equal to a string-level hand model, which is proved to render the "
                 "structured model + in-kernel judgement of the real CLI's recorded protoc argument vectors "
                 "against both models and the tree-level specification",
    "design_ref": "DESIGN.md §4 C20",
    "coq_targets": ["ProtoJudge.vo", "ProtoTieLib.vo", "ProtoScan.vo", "ProtoExtra.vo", "ProtoStrProofs.vo",
                    "ProtoRefine.vo"],
    "level_text": "Proof: for every directory tree (any depth/size, sibling names distinct), every working "
                  "directory, relative or absolute input directory, every include list with or without =prefix "
                  "(prefix as typed, joined by filepath.Join) and all 8 settings of -recurse/-vt-proto/-grpc the "
                  "model of gogenproto/gen/generate.go produces one protoc argument vector = plugin flags (each "
                  "output flag once iff requested) ++ -I/M options ++ files: the files are exactly the regular "
                  ".proto directly inside the input directory (all descendants with -recurse), each once; the -I "
                  "options are the input directory and the include directories; every requested plugin, and no "
                  "other, gets exactly the mappings {relative path -> Join(prefix, relative directory) | the "
                  "directory's Go package} of the protos that do not declare option go_package (C20_full) — "
                  "'declares' by the lexical structure of the file content, which the byte scanner of "
                  "protoFileHasGoPackage decides correctly for every content (C20_scan_correct; the former "
                  "substring scan and the cut of the input directory at '=' were defects, repaired by b058b67 and "
                  "507c907, kept as _orig definitions with their refutations). Props/C20.v, 24 theorems, closed "
                  "under the global context. Tie to the "
                  "source: (T) harness/cmd/xlate_proto + coq/ties/Tie_C20.v (gen_Run = s_run etc., semantic, "
                  "re-proved on every check; the byte scanner itself is not translated but tied by an exhaustive "
                  "scan stream over generated contents), (P) ProtoRefine.v s_argv = rendering of run for Clean "
                  "input spellings, (C) the real CLI with a recording protoc stub on generated Go modules, judged "
                  "in the kernel against specification, structured model and string-level model.",
    "level_note": "Trusted: Coq kernel + vm_compute; ProtoPath.v/ProtoPrims.v as models of path/filepath, "
                  "strings, WalkDir order and SkipDir semantics, os.ReadDir order, bufio.ScanLines (checked "
                  "literally against every recorded argv); the lexer of ProtoLex.v as the meaning of 'declares "
                  "option go_package'; module path + relative directory as the package oracle "
                  "(PackageNameFromPath and go list cross-checked against it); the translator, Go harness, stub "
                  "and the argv parser in ProtoJudge.v. No axioms. No open finding (four fixed: b058b67, 507c907).",
}

MIN_BUDGET = 55      # seconds of delta debugging per quick run (all reported cases together)

TRUSTED = [
    "Coq 8.16.1 kernel and VM (vm_compute); no native_compute; no axioms",
    "coq/theories/ProtoPath.v + ProtoPrims.v: string-level models of strings.Cut/SplitN/Contains/Index/HasSuffix, "
    "filepath.Clean/Join/Abs/Rel/Dir/Ext, filepath.WalkDir (visiting order, SkipDir semantics), os.ReadDir order, "
    "os.Lstat/Open, os/exec passing argv unchanged — every recorded argv is compared literally with "
    "the string-level model built from them (coverage key exact_argv_equal_to_string_level_model)",
    "harness/cmd/xlate_proto (go/parser -> Gallina; subset and the 'directory walk by hand' rule in its header) — "
    "an edit that changes the meaning or leaves the subset breaks coq/ties/Tie_C20.v; the byte scanner "
    "declaresGoPackage is not translated: ProtoLex.scan_go_package is its hand model, tied by the scan stream "
    "(exhaustive short fragment sequences, fragments in every gap of a declaration, random longer ones)",
    "coq/theories/ProtoLex.v lex / declares_go_package as the meaning of 'declares option go_package' (protobuf "
    "lexical structure: white space, // and /* */ comments, string literals, identifiers, punctuation)",
    "the Go package of a directory = module path + relative directory (given to model and spec as the oracle); "
    "gencommon.PackageNameFromPath / packages.Load and `go list -e` are compared with it in a helper process on "
    "every built-in/corpus tree and every 4th generated tree (every tree in the thorough tier), and through the "
    "tool's own calls in every run (a wrong package is a mapping difference)",
    "Go harness harness/cmd/c20 (tree generator, read-back of the tree and of the file contents from disk, CLI "
    "subprocess), the recording stub harness/cmd/c20stub, the argv classifier/parser of ProtoJudge.v (parse_arg; "
    "proved a left inverse of the renderer: C20_judge_parser_faithful)",
]


def n_mappings(j):
    return sum(1 for a in j["argv"] if "_opt=M" in a)


def nested_proto(j):
    ip = j["spec"]["input"]["path"]
    pre = "" if ip == "." else ip + "/"
    for e in j["spec"]["tree"]:
        if e["kind"] == "file" and e["path"].endswith(".proto") and e["path"].startswith(pre):
            if "/" in e["path"][len(pre):]:
                return True
    return False


def nontrivial(j):
    return n_mappings(j) > 0 and (nested_proto(j) or len(j["spec"]["includes"]) > 0)


SAYS_DECLARED = {"gp_commented", "gp_msg_comment", "gp_blockcomment", "gp_string"}     # scan yes, declares no
MISSES_DECL = {"gp_nospace", "gp_spaces", "gp_tab", "gp_newline"}                        # scan no, declares yes
NEAR_MISS = SAYS_DECLARED | MISSES_DECL


def near_miss_kinds(spec):
    return sorted({e.get("content") for e in spec["tree"]
                   if e["kind"] == "file" and e["path"].endswith(".proto") and e.get("content") in NEAR_MISS})


def canonicalised(spec):
    """the same case with every near-miss spelling replaced by the canonical spelling of the same
    meaning (declares -> `option go_package = "x";`, does not declare -> no option at all)"""
    s = json.loads(json.dumps(spec))
    for e in s["tree"]:
        if e.get("content") in SAYS_DECLARED:
            e["content"] = "nogp"
        elif e.get("content") in MISSES_DECL:
            e["content"] = "gp"
    return s


def features(j, diff, cause=None):
    s = j["spec"]
    f = {"kind": j["kind"].split("/")[0], "differs": ",".join(sorted(diff)),
         "recurse": s["recurse"], "vt": s["vt"], "grpc": s["grpc"],
         "has_includes": len(s["includes"]) > 0, "runs": j["runs"]}
    if cause:
        f.update(cause)
    return f


def distinct_trees(jsons):
    seen = {}
    for j in jsons:
        seen.setdefault(json.dumps(j["spec"]["tree"], sort_keys=True), j["spec"]["tree"])
    return list(seen.values())


def hist(it):
    h = {}
    for x in it:
        h[str(x)] = h.get(str(x), 0) + 1
    return dict(sorted(h.items()))


def decode_info(code):
    """ProtoJudge.proto_case_info -> dict"""
    v = code - 1
    return {"wf": bool(v & 1), "dirs_ok": bool(v & 2), "scan_agrees": bool(v & 4), "exact": bool(v & 8),
            "str_exact": bool(v & 16), "sig": v // 32}


def judge_all(ctx, terms, tag):
    """judge every case; returns (infos aligned with terms, err)"""
    res, _, err = pl.judge(ctx, terms, fn="proto_case_info", tag=tag, shard=40)
    if err:
        return None, err
    codes = dict(res)
    if len(codes) != len(terms):
        return None, "proto_case_info returned %d results for %d cases" % (len(codes), len(terms))
    return [decode_info(codes[i]) for i in range(len(terms))], None


def ood_stream(ctx, tools, quick):
    """informational out-of-domain stream: never gates, counted in the evidence"""
    ood = {}
    t, jo, err = pl.run_harness(ctx, tools, "ood", ["-mode", "ood", "-n", 10 if quick else 200,
                                                    "-flagsets", 1 if quick else 2, "-oraclesample", 1000000])
    if not err and t:
        infos, err = judge_all(ctx, t, "ood")
        if not err:
            for k, j in enumerate(jo):
                d = ood.setdefault(j["kind"], {"cases": 0, "agree": 0, "spec_violated": 0, "model_differs": 0,
                                               "inside_theorem_domain": 0})
                d["cases"] += 1
                d[{0: "agree", 1: "spec_violated", 2: "model_differs"}[infos[k]["sig"] % 4]] += 1
                d["inside_theorem_domain"] += int(infos[k]["wf"] and infos[k]["dirs_ok"] and infos[k]["scan_agrees"])
    return ood


def corpus_specs():
    """minimised case descriptions kept from earlier disagreements / mutations / seeded changes"""
    cdir = os.path.join(vlib.VERIF, "corpus", "C20")
    cspecs = []
    if os.path.isdir(cdir):
        for n in sorted(os.listdir(cdir)):
            if n.endswith(".json"):
                sp = json.load(open(os.path.join(cdir, n)))
                sp = sp.get("spec", sp)
                sp["kind"] = "corpus-file"
                cspecs.append(sp)
    return cspecs


def streams(ctx, tools, plan, tagsuffix="", seed=None):
    """run the harness streams of a plan; returns (terms, jsons, err)"""
    terms, jsons = [], []
    for tag, args in plan:
        if tag == "corpusfiles":
            cs = corpus_specs()
            if not cs:
                continue
            t, j, err = pl.run_specs(ctx, tools, "corpusfiles" + tagsuffix, cs)
        else:
            t, j, err = pl.run_harness(ctx, tools, tag + tagsuffix, args, seed=seed)
        if err:
            return terms, jsons, err
        terms += t
        jsons += j
        ctx.log("harness %s%s: %d cases" % (tag, tagsuffix, len(t)))
    return terms, jsons, None


def attribute(ctx, tools, jsons, failing):
    """known causes of a failing case, decided by experiment where possible:
    - the tree holds near-miss spellings of `option go_package` AND the same case with those
      spellings canonicalised passes  ->  cause go_package_spelling (known findings C20-scan-*)
    - the input directory spelling holds '=' (strings.Cut is applied to it as well)  ->
      cause input_dir_equals (known finding C20-input-dir-equals)
    returns {case index: cause dict}"""
    causes, todo = {}, []
    for i, sig in failing:
        sp = jsons[i]["spec"]
        if "=" in sp["input"]["path"]:
            causes[i] = {"cause": "input_dir_equals"}
        elif near_miss_kinds(sp):
            todo.append(i)
    if todo:
        t, j, err = pl.run_specs(ctx, tools, "attrib", [canonicalised(jsons[i]["spec"]) for i in todo], real_oracle=False)
        if not err and t:
            bad, _, err = pl.judge(ctx, t, fn="proto_judge_sig", tag="attrib", shard=40)
            if not err:
                badset = {k for k, _ in bad}
                for n, i in enumerate(todo):
                    if n not in badset:
                        kinds = set(near_miss_kinds(jsons[i]["spec"]))
                        err_kind = ("both" if kinds & SAYS_DECLARED and kinds & MISSES_DECL else
                                    "says-declared" if kinds & SAYS_DECLARED else "misses-declaration")
                        causes[i] = {"cause": "go_package_spelling", "scan_error": err_kind,
                                     "spellings": ",".join(sorted(kinds))}
    return causes


def run(ctx):
    ctx.trusted = TRUSTED
    ctx.assumptions = [
        "directory entries have distinct names, none empty, '.' or '..' (a file system)",
        "the input directory and every include directory exist and are directories (theorem hypothesis dirs_ok; "
        "other inputs are run and judged too, and counted)",
        "PackageNameFromPath succeeds for every directory holding a mapped proto (trees live in a Go module)",
        "a proto file is read completely or not at all (no read error in the middle of a file)",
    ]
    quick = ctx.tier == "quick"
    # reports without a concrete failing input are held back: failing inputs come first and get
    # the replay slots; a `no-failing-input-found` line is printed only if a widened run finds none
    held = []
    pool = concurrent.futures.ThreadPoolExecutor(max_workers=4)
    ctx.add_repo_file("gogenproto/gen/export_verif.go", pl.EXPORT_VERIF)
    obl_future = pool.submit(ctx.proof_obligations)
    ctx.harness_module()        # created once, before the parallel builds use it
    tie_future = pool.submit(ctx.translator_tie, "xlate_proto", ["-repo", ctx.copy_repo()], "ProtoGen", "Tie_C20")
    tools, log = pl.build_tools(ctx)
    ok, detail = obl_future.result()
    ctx.log("proof obligations:", "OK" if ok else "BROKEN", "-", detail.splitlines()[0])
    if not ok:
        held.append(({"unchecked": "theorem file Props/C20.v", "detail": detail}, {"kind": "proof_obligation"}))
    if not tools:
        tie_future.result()
        pool.shutdown()
        for rep, feat in held:
            ctx.report(rep, feat, failing_input=False)
        ctx.report({"unchecked": "build of harness / stub / gogenproto CLI against the current tree",
                    "detail": log[-3000:]}, {"kind": "build"}, failing_input=False)
        return
    if quick:
        # built-in layouts under covering designs of the flag cube, the near-miss / '=' corpus, the
        # corpus files, then one balanced flag setting per generated tree; real PackageNameFromPath
        # on every 4th tree
        plan = [("corpusfiles", None),
                ("corpus", ["-mode", "corpus", "-flagsets", 4]),
                ("nearmiss", ["-mode", "nearmiss", "-flagsets", 1]),
                ("random", ["-mode", "random", "-n", 60, "-flagsets", 1, "-oraclesample", 4]),
                ("edge", ["-mode", "edge", "-n", 46, "-flagsets", 1, "-oraclesample", 4]),
                ("wide", ["-mode", "wide", "-n", 4, "-flagsets", 1, "-oraclesample", 4])]
    else:
        plan = [("corpusfiles", None),
                ("corpus", ["-mode", "corpus", "-flagsets", 8]),
                ("nearmiss", ["-mode", "nearmiss", "-flagsets", 8]),
                ("random", ["-mode", "random", "-n", 400, "-flagsets", 8]),
                ("edge", ["-mode", "edge", "-n", 250, "-flagsets", 8]),
                ("wide", ["-mode", "wide", "-n", 80, "-flagsets", 2])]
    ood_future = pool.submit(ood_stream, ctx, tools, quick)
    scan_future = pool.submit(pl.scan_stream, ctx, tools, quick)
    terms, jsons, err = streams(ctx, tools, plan)
    infos = None
    if not err:
        infos, err = judge_all(ctx, terms, "cases")
    tie_ok, tie_detail = tie_future.result()
    ctx.log("translator tie (gen_Run / gen_findProtos / gen_protoFileHasGoPackage = ProtoStrModel):",
            "OK" if tie_ok else "BROKEN", "-", tie_detail.splitlines()[0] if tie_detail else "")
    if not tie_ok:
        ctx.cov["translator_tie"] = {"status": "BROKEN", "detail": tie_detail[-800:]}
        held.append(({"unchecked": "translator tie coq/ties/Tie_C20.v against the regenerated ProtoGen.v "
                                   "(gogenproto/gen/generate.go no longer means what ProtoStrModel.v says, or left "
                                   "the translator's subset)", "detail": tie_detail[-3000:]}, {"kind": "translator_tie"}))
    ood = ood_future.result()
    scan_bad, scan_n, scan_decl, scan_err = scan_future.result()
    pool.shutdown()
    ctx.log("scan stream (protoFileHasGoPackage alone): %d contents, %d declare the option, %d disagreement(s)%s"
            % (scan_n, scan_decl, len(scan_bad), " — " + scan_err if scan_err else ""))
    if scan_err and not err:
        err = "scan stream: " + scan_err
    # the byte scanner disagrees with the specification / its model on a content: a failing input of its own
    scan_bad.sort(key=lambda x: (x[0].get("len", len(x[0]["scan_content"])), x[0]["scan_content"]))
    for sj, code in scan_bad[:3]:
        ctx.report({"scan_content": sj["scan_content"] or "".join(p["s"] * p["n"] for p in sj.get("scan_pieces") or []),
                    "returned": sj["got"], "error": sj.get("err"),
                    "verdict": "protoFileHasGoPackage on a file with this content " +
                               ("disagrees with `declares option go_package` (token structure of the content)"
                                if code == 1 else "agrees with the specification but not with the model scan_go_package"),
                    "replay_cmd": "./check C20 --replay <this file>"},
                   {"kind": "scan", "declared_by_code": sj["got"]}, failing_input=(code == 1))
    if err:
        for rep, feat in held:
            ctx.report(rep, feat, failing_input=False)
        ctx.report({"unchecked": "harness run / in-kernel evaluation of the correspondence", "detail": err},
                   {"kind": "harness"}, failing_input=False)
        return
    failing = [(i, f["sig"]) for i, f in enumerate(infos) if f["sig"] % 4 == 1]
    differs = [(i, f["sig"]) for i, f in enumerate(infos) if f["sig"] % 4 == 2]
    # oracle cross-check (PackageNameFromPath vs go list vs module path + relative directory)
    obad, seen = [], set()
    for j in jsons:
        key = json.dumps(j.get("oracle_mismatch") or [])
        if j.get("oracle_mismatch") and key not in seen:
            seen.add(key)
            obad.append(j)
    # failing inputs with a known cause (decided by experiment: the same case, canonical spelling)
    causes = attribute(ctx, tools, jsons, failing)
    for i, sig in failing:
        if i in causes:
            code, diff = pl.decode_sig(sig)
            ctx.report({"case": pl.view(jsons[i]), "verdict": "recorded protoc invocation violates the specification",
                        "differs_in": diff, "cause": causes[i]}, features(jsons[i], diff, causes[i]), failing_input=True)
    known_idx = set(causes)
    failing = [(i, sig) for i, sig in failing if i not in known_idx]
    widened = None
    if (held or differs) and not failing and not obad:
        # something broke but no case violates the specification yet: search wider before saying so
        # … and beyond the caps of the regular generator: depth up to 7, up to 42 files, long names, files of
        # several read buffers, up to 8 -include entries (a cap coinciding with a threshold in the code hides a defect)
        wplan = [("random", ["-mode", "random", "-n", 80, "-flagsets", 2, "-oraclesample", 4]),
                 ("edge", ["-mode", "edge", "-n", 60, "-flagsets", 2, "-oraclesample", 4]),
                 ("wide", ["-mode", "wide", "-n", 60, "-flagsets", 2, "-oraclesample", 4])]
        wt, wj, werr = streams(ctx, tools, wplan, tagsuffix="-widened", seed=ctx.seed + 7919)
        widened = {"cases": len(wj), "failing_inputs": 0}
        if not werr and wt:
            wbad, _, werr = pl.judge(ctx, wt, fn="proto_judge_sig", tag="widened", shard=40)
            if not werr:
                base = len(jsons)
                terms += wt
                jsons += wj
                wf = [(base + i, sig) for i, sig in wbad if sig % 4 == 1]
                wc = attribute(ctx, tools, jsons, wf)
                failing += [(i, sig) for i, sig in wf if i not in wc]
                widened["failing_inputs"] = len(failing)
        ctx.log("widened search: %d further cases, %d failing input(s)" % (widened["cases"], widened["failing_inputs"]))
    also = [rep for rep, _ in held] + (
        [{"correspondence": "%d case(s) satisfy the specification but differ from the Coq model" % len(differs)}]
        if differs else [])
    # 1. failing inputs (verdict 1), smallest first; the first is minimised within MIN_BUDGET seconds,
    #    the next two get what is left of it (an unminimised failing input is still a failing input)
    failing.sort(key=lambda x: (pl.spec_size(jsons[x[0]]["spec"]), x[0]))
    differs.sort(key=lambda x: (pl.spec_size(jsons[x[0]]["spec"]), x[0]))
    deadline = time.time() + (MIN_BUDGET if quick else 4 * MIN_BUDGET)
    for i, sig in failing:
        j = jsons[i]
        code, diff = pl.decode_sig(sig)
        if ctx.nreplay < 3 and time.time() < deadline:
            j, sig = pl.minimise(ctx, tools, j, sig, deadline=deadline)
            code, diff = pl.decode_sig(sig)
        rep = {"case": pl.view(j),
               "verdict": "recorded protoc invocation violates the specification",
               "differs_in": diff, "replay_cmd": "./check C20 --replay <this file>"}
        if also and ctx.nreplay == 0:
            rep["also_broken"] = also
        ctx.report(rep, features(j, diff), failing_input=True)
    for j in obad:
        ctx.report({"case": pl.view(j), "verdict": "PackageNameFromPath disagrees with go list / module "
                    "path + relative directory for " + ", ".join(j["oracle_mismatch"]),
                    "oracle": j["oracle"], "package_name_from_path": j.get("oracle_package_name_from_path"),
                    "go_list": j["oracle_golist"]}, {"kind": "oracle"}, failing_input=True)
    # 2. only when no failing input exists after the widened run: the broken obligation / tie
    if not failing and not obad:
        for rep, feat in held:
            rep = dict(rep)
            rep["widened_search"] = widened
            ctx.report(rep, feat, failing_input=False)
        for i, sig in differs:
            j = jsons[i]
            code, diff = pl.decode_sig(sig)
            if ctx.nreplay < 3 and time.time() < deadline:
                j, sig = pl.minimise(ctx, tools, j, sig, deadline=deadline)
                code, diff = pl.decode_sig(sig)
            ctx.report({"case": pl.view(j),
                        "verdict": "recorded protoc invocation satisfies the specification but differs from the Coq model",
                        "differs_in": diff, "widened_search": widened,
                        "replay_cmd": "./check C20 --replay <this file>"},
                       features(j, diff), failing_input=False)
    bad = failing + differs

    n0 = len(infos)
    nt = [j for j in jsons if nontrivial(j)]
    in_dom = [k for k in range(n0) if infos[k]["wf"] and infos[k]["dirs_ok"] and infos[k]["scan_agrees"]]
    ctx.cov.update({
        "evaluations": len(jsons),
        "distinct_trees": vlib.distinct_count([[j["spec"]["tree"], j["spec"]["cwd"], j["spec"]["input"],
                                                j["spec"]["includes"]] for j in jsons]),
        "distinct_nontrivial": vlib.distinct_count([j["spec"] for j in nt]),
        "rule": "case = (directory tree in a scratch Go module, working directory, input directory spelling, "
                "include list, flag setting) run through the real CLI with the recording stub; non-trivial = "
                "at least one M mapping was emitted and the tree has a .proto in a sub directory of the input "
                "directory or at least one extra include directory; distinct by the whole case description",
        "exhaustive": False,
        "stub_ran_exactly_once": sum(1 for j in jsons if j["runs"] == 1),
        "inside_theorem_domain": len(in_dom),
        "outside_theorem_domain": {
            "tree_not_a_file_system": sum(1 for f in infos if not f["wf"]),
            "input_or_include_directory_missing_or_a_file": sum(1 for f in infos if not f["dirs_ok"]),
            "line_scan_wrong_about_some_proto": sum(1 for f in infos if not f["scan_agrees"]),
            "by_stream": hist(jsons[k]["kind"] for k in range(n0) if k not in set(in_dom)),
            "note": "predicates on the input alone (wf_nodeb, dirs_okb, tree_agreesb); these cases are judged "
                    "against the specification all the same — a violation among them is a failing input",
        },
        "exact_argv_equal_to_structured_model": sum(1 for f in infos if f["exact"]),
        "exact_argv_equal_to_string_level_model": sum(1 for f in infos if f["str_exact"]),
        "exact_argv_equal_to_model_and_theorem_hypotheses_hold": sum(1 for k in in_dom if infos[k]["exact"]),
        "stub_cwd_equals_cli_cwd": sum(1 for j in jsons if j["stub_cwd"] == j["cwd_abs"]),
        "by_kind": hist(j["kind"] for j in jsons),
        "flag_settings": hist("recurse=%d vt=%d grpc=%d" % (j["spec"]["recurse"], j["spec"]["vt"], j["spec"]["grpc"])
                              for j in jsons),
        "input_form": hist(j["spec"]["input"]["form"] for j in jsons),
        "layout_input_cwd": hist("%s from %s" % (j["spec"]["input"]["path"], j["spec"]["cwd"]) for j in jsons),
        "include_count": hist(len(j["spec"]["includes"]) for j in jsons),
        "include_kinds": hist(i["dir"]["form"] + ("=prefix" if i["has_prefix"] else "")
                              for j in jsons for i in j["spec"]["includes"]),
        "include_prefixes": hist(i["prefix"] for j in jsons for i in j["spec"]["includes"] if i["has_prefix"]),
        "tree_depth": hist(j["depth"] for j in jsons),
        "tree_files": hist(j["n_files"] for j in jsons),
        "file_args": hist(sum(1 for a in j["argv"] if not a.startswith("-")) for j in jsons),
        "mapping_args": hist(min(n_mappings(j), 20) for j in jsons),
        "go_package_option_spellings": hist(e.get("content") for t in distinct_trees(jsons) for e in t
                                            if e["kind"] == "file" and e["path"].endswith(".proto")),
        "oracle_dirs_checked_against_PackageNameFromPath": sum(
            len(d) for d in {json.dumps(j["oracle_package_name_from_path"], sort_keys=True): j["oracle_package_name_from_path"]
                             for j in jsons if j.get("oracle_package_name_from_path")}.values()),
        "known_cause_failing_inputs": hist(json.dumps(c, sort_keys=True) for c in causes.values()),
        "scan_stream": {"contents": scan_n, "declaring": scan_decl, "disagreements": len(scan_bad),
                        "what": "protoFileHasGoPackage alone on files holding every sequence of up to %d of %d source "
                                "fragments, a declaration with every fragment / pair of fragments in each of its 6 gaps, "
                                "random longer sequences and the generator's whole files" % (2 if quick else 3, 22)},
        "widened_search": widened,
        "oracle_mismatches": len(obad),
        "out_of_domain_informational": ood,
        "samples": [pl.view(j) for j in (jsons[1:2] + [j for j in jsons if j["kind"] != "corpus"][:2])],
        "disagreements": len(bad),
    })
    ctx.cov.setdefault("translator_tie", {})
    ctx.log("correspondence: %d cases (%d distinct non-trivial, %d inside the theorems' domain), %d exact argv matches "
            "(%d with the string-level model), %d known-cause failing input(s), %d disagreement(s); ood %s"
            % (len(jsons), ctx.cov["distinct_nontrivial"], len(in_dom), ctx.cov["exact_argv_equal_to_structured_model"],
               ctx.cov["exact_argv_equal_to_string_level_model"], len(causes), len(bad), json.dumps(ood)))


def replay(ctx, path):
    """re-run the recorded case description on the current tree and judge it again"""
    rep = json.load(open(path))
    case = rep.get("case", rep)
    if "scan_content" in rep:
        ctx.add_repo_file("gogenproto/gen/export_verif.go", pl.EXPORT_VERIF)
        tools, log = pl.build_tools(ctx)
        if not tools:
            print(log)
            return 2
        import tempfile
        d = tempfile.mkdtemp(prefix="c20scan-")
        p = os.path.join(d, "f.proto")
        with open(p, "w", newline="") as f:
            f.write(rep["scan_content"])
        rc, out = vlib.sh([tools["harness"], "-scanfile", p], env=vlib.go_env())
        print("content: %r\nprotoFileHasGoPackage: %s" % (rep["scan_content"], out.strip()))
        import shutil
        shutil.rmtree(d, ignore_errors=True)
        want = "true" if not rep.get("returned") else "false"
        if out.strip().startswith(want):
            print("REPLAY: passes on the current tree (the answer changed)")
            return 0
        print("REPLAY: still failing")
        return 1
    if "spec" not in case:
        print(json.dumps(rep, indent=1))
        return 0
    tools, log = pl.build_tools(ctx)
    if not tools:
        print(log)
        return 2
    t, j, err = pl.run_specs(ctx, tools, "replay", [case["spec"]])
    if err:
        print(err)
        return 2
    bad, _, err = pl.judge(ctx, t, fn="proto_judge_sig", tag="replay")
    if err:
        print(err)
        return 2
    print(json.dumps(pl.view(j[0]), indent=1))
    if bad:
        code, diff = pl.decode_sig(bad[0][1])
        print("differs in:", diff)
        print("REPLAY: still failing (code %d)" % code)
        return 1
    print("REPLAY: passes on the current tree")
    return 0
