"""C14 — generators: output is a deterministic function of source and options."""
import difflib
import json
import os
import re

import gsort_lib
import vlib

META = {
    "property_id": "C14",
    "level": "proof",
    "technique": "Coq theorems over a model of every order-sensitive step of the generators (map ranges as arbitrary permutations, unstable sorts as arbitrary sorted permutations): the tables handed to the templates are the same for all iteration orders and sort outcomes; byte identity of the written files across runs, processes and pre-existing outputs is carried by a hash farm: each definition generated repeatedly in one process (the generators' own packages driven exactly like their main()) and in separate processes (the real CLIs), alternating fresh and already-generated package states, SHA-256 compared; the gsort block order is also judged against the model inside Coq",
    "design_ref": "DESIGN.md §4 C14",
    "level_text": "Proof (partial for the byte-level clause): GenDetProofs.v shows that for ALL map iteration orders and ALL outcomes of the unstable sorts the generators' tables are equal: gsort descs (C14_gsort: ties of the (type, sorter) key only between equal descs), genum duplicate-group deletions commute and traits/values/instances sort uniquely (C14_genum_*), ImportHandler.GetActive (C14_imports, with the path-key invariant proved for calcImports/addNamed), gerror fields (C14_gerror*), first-match map lookups (C14_lookup_first). That the written FILES are byte-identical across runs/processes/pre-existing outputs is runtime behaviour of templates, gofmt, goimports and the OS: it is exercised, not proved, by the hash farm. The farm's in-process histories include Parse + Write run twice on ONE options holder (every third step) and a definition importing one package under two names.",
    "level_note": "Trusted: Coq 8.16.1 kernel + vm_compute; the model's fidelity (checked by reading and, for gsort, by the block-order tie); sort.Sort/sort.Slice return sorted permutations; text/template, go/format, x/tools/imports, packages.Load are deterministic functions of their inputs (exercised by the farm); distinct-key hypotheses of the theorems are guaranteed by Go itself (constant, field and trait-method names are unique per scope; a type name denotes one struct). No axioms.",
}

TRUSTED = [
    "Coq 8.16.1 kernel and VM (vm_compute); no axioms",
    "hand-written model coq/theories/GenDetModel.v of the map ranges and sorts in gsort/gen, genum/gen, gerror/gen, gencommon/imports.go (fidelity by reading; gsort block order tied by correspondence)",
    "sort.Sort / sort.Slice return a sorted permutation; text/template, go/format, golang.org/x/tools/imports, go/packages, the file system are deterministic (exercised by the hash farm, not modelled)",
    "harness/cmd/c14 (definition generators, in-process driver replicating cmd/*/main.go, hashing), Go 1.23 toolchain",
]

HEADER = ("From Coq Require Import NArith ZArith List Bool String.\nImport ListNotations.\n"
          "From GT Require Import Base.Verdict.\nFrom GT Require Import GSortModel GenDetModel GenDetJudge Base.SortU.\n")


def classify(obs):
    """which axis the first difference lies on"""
    key = lambda o: (o["sha"], o.get("err", ""))
    plain = [o for o in obs if o["state"] in ("fresh", "existing")]
    ref = key(plain[0]) if plain else key(obs[0])
    if all(key(o) == ref for o in plain) and any(key(o) != ref for o in obs):
        return "previous-output-file (%s)" % ", ".join(sorted({o["state"] for o in obs if key(o) != ref}))
    inproc = {key(o) for o in plain if o["mode"] == "inproc"}
    cli = {key(o) for o in plain if o["mode"] == "cli"}
    if len(inproc) == 1 and len(cli) == 1:
        return "one-process-vs-separate-processes"
    fresh = {key(o) for o in plain if o["state"] == "fresh"}
    exist = {key(o) for o in plain if o["state"] == "existing"}
    if len(fresh) == 1 and len(exist) == 1:
        return "fresh-vs-already-generated"
    return "run-to-run"


def view(j):
    d = j["def"]
    types = d["types"] if j.get("cfg") != "sub" else d["types"][:1]
    ff = []
    if d.get("in_flag"):
        ff += [d["in_flag"], ("<package dir>/" if d.get("in_abs") else "") + "def.go"]
    if d.get("out_name"):
        ff += [d["out_flag"] + "=" + ("<package dir>/" if d.get("out_abs") else "") + d["out_name"]]
    return {"generator": d["gen"], "types_flag": ",".join(types), "options": (d.get("opts") or []) + ff,
            "output_file": d.get("out_name") or "def.%s.go (the go:generate default)" % d["gen"],
            "configuration": "as given" if j.get("cfg") != "sub" else
                             "first type only; the package held the output of the full -types list (%s) / foreign files before some generations" % ",".join(d["types"]),
            "generated_in_one_process_with": d.get("batch") and "the other package(s) of batch %s, in list order" % d["batch"],
            "definition": d["source"], "other_files_of_the_package": d.get("extra"), "has": d.get("counts"),
            "stream": d.get("stream") or "main", "shape": d.get("shape"),
            "generations": [{"mode": o["mode"], "state": o["state"], "sha256": o["sha"][:16], "err": o.get("err", "")}
                            for o in j["obs"]]}


def map_range_tie(ctx):
    """(T) every `range` over a map in the generator packages, regenerated from the current tree,
    must be one of those the model accounts for (coq/ties/Tie_C14.v)"""
    return ctx.translator_tie("xlate_maprange", ["-repo", ctx.copy_repo()], "MapRangeGen", "Tie_C14")


def _rows(text, name, width):
    """the tuples of the list definition `name` in a Gallina file (as a list: a multiset)"""
    m = re.search(r"Definition %s\b.*?:=\s*\[(.*?)\]\s*\." % name, text, re.S)
    if not m:
        return None
    pat = r"\(" + r",\s*".join([r'"([^"]*)"(?:%string)?'] * width) + r"\)"
    return re.findall(pat, m.group(1))


def _msdiff(a, b):
    """multiset symmetric difference"""
    a, b = list(a), list(b)
    for x in list(a):
        if x in b:
            a.remove(x)
            b.remove(x)
    return a, b


def tie_generators(ctx, tie_ok):
    """generators whose packages gained or lost a source of iteration order / a package-level
    variable w.r.t. the tie's expected (normalised) lists"""
    if tie_ok:
        return set()
    by_pkg = {"gsort/gen": {"gsort"}, "genum/gen": {"genum"}, "gerror/gen": {"gerror"}}
    everything = {"gsort", "genum", "gerror"}
    try:
        gtxt = open(os.path.join(ctx.gen, "MapRangeGen.v")).read()
        etxt = vlib.strip_comments(open(os.path.join(vlib.COQ, "ties", "Tie_C14.v")).read())
    except OSError:
        return everything
    out = set()
    gs, es = _rows(gtxt, "gen_order_sources", 3), _rows(etxt, "expected_sources", 3)
    gv, ev = _rows(gtxt, "gen_state_types", 2), _rows(etxt, "expected_state_types", 2)
    if gs is None or es is None or gv is None or ev is None:
        return everything
    new, gone = _msdiff(gs, es)
    for row in new + gone:
        out |= by_pkg.get(row[0], everything)
    ctx.cov["order_sources_changed"] = {"new_in_the_tree": [" / ".join(r) for r in new],
                                        "no_longer_in_the_tree": [" / ".join(r) for r in gone]}
    # where the new ones are (the detailed list is regenerated for this purpose)
    det = _rows(gtxt, "gen_map_ranges", 5) or []
    ctx.cov["order_sources_in_the_tree"] = [" / ".join(r) for r in det]
    newv, gonev = _msdiff(gv, ev)
    for row in newv + gonev:
        out |= by_pkg.get(row[0], everything)
    if newv or gonev:
        ctx.cov["package_state_changed"] = {"new_in_the_tree": [" / ".join(r) for r in newv],
                                            "no_longer_in_the_tree": [" / ".join(r) for r in gonev]}
    return out or everything


def run_farm(ctx, binp, clis, args, tag):
    work = os.path.join(ctx.scratch, "farm_" + tag)
    gosum = os.path.join(ctx.scratch, "farm.go.sum")
    with open(gosum, "w") as f:
        f.write(ctx.go_sum())
    full = ["-work", work, "-repo", ctx.copy_repo(), "-gosum", gosum]
    for k, v in clis.items():
        full += ["-" + k, v]
    old = dict(os.environ)
    os.environ.update(vlib.go_env())
    try:
        return vlib.harness_cases(ctx, binp, [(tag, full + args)], timeout=3000)
    finally:
        os.environ.clear()
        os.environ.update(old)


def minimise(ctx, binp, clis, j):
    """try the same file with a single type in -types; keep the first that still differs.  All
    candidates (at most three) run in ONE farm, each as a package of its own, 3 + 3 generations:
    bounded at roughly the cost of one definition of the main farm."""
    d = j["def"]
    if len(d["types"]) < 2 or j.get("cfg") == "sub" or d.get("batch"):
        return j
    cands = []
    for k, t in enumerate(d["types"][:3]):
        c = dict(d)
        c["types"] = [t]
        c["structs"] = [s for s in (d.get("structs") or []) if s["type"] == t]
        c["enums"] = [e for e in (d.get("enums") or []) if e["type"] == t]
        c["errors"] = [e for e in (d.get("errors") or []) if e["type"] == t]
        # a package of its own
        pkg = "%sm%d" % (d["pkg"], k)
        c["pkg"] = pkg
        c["source"] = re.sub(r"(?m)^package %s$" % re.escape(d["pkg"]), "package " + pkg, d["source"], count=1)
        if d.get("extra"):
            c["extra"] = {n: re.sub(r"(?m)^package %s$" % re.escape(d["pkg"]), "package " + pkg, t2, count=1)
                          for n, t2 in d["extra"].items()}
        c["first"] = False
        cands.append(c)
    p = os.path.join(ctx.scratch, "min_defs.json")
    with open(p, "w") as f:
        json.dump(cands, f)
    terms, jsons, err = run_farm(ctx, binp, clis, ["-defs", p, "-reps", 3, "-stale", "none"], "min")
    if err:
        return j
    bad, _, err = ctx.judge_cases(HEADER, "gd_case", "gd_judge", terms, shard=40, tag="min")
    if err:
        return j
    for i, code in bad:
        if code == 1:
            out = jsons[i]
            out["def"]["minimised_from_types"] = d["types"]
            return out
    return j


def locate_order(j):
    """first order observation that is not ascending (python side, for the replay text only)"""
    for names in j.get("name_orders") or []:
        for x, y in zip(names, names[1:]):
            if not x.encode() < y.encode():
                return {"list": names, "not_ascending_by_name": [x, y]}
    vals = {v["name"]: (v["value"], v["name"].encode()) for e in (j["def"].get("enums") or []) for v in e["values"]}
    for names in j.get("value_orders") or []:
        for x, y in zip(names, names[1:]):
            if x in vals and y in vals and not vals[x] < vals[y]:
                return {"list": names, "not_ascending_by_value_then_name": [x, y]}
    if j["def"]["gen"] == "gsort":
        return {"blocks_in_file_order": j.get("blocks"), "expected": "ascending by (element type, sorter name as written incl. *)"}
    return None


def attach_batches(jsons):
    """a definition generated in one process together with others (twin packages) is only
    reproducible with them: keep the whole batch with the case"""
    by = {}
    for j in jsons:
        b = j["def"].get("batch")
        if b and j.get("cfg") != "sub":
            by.setdefault(b, []).append(j["def"])
    for j in jsons:
        b = j["def"].get("batch")
        if b:
            j["batch_defs"] = by.get(b)


def feats_of(j, code):
    if code == 1:
        return {"generator": j["def"]["gen"], "kind": "bytes-differ", "axis": classify(j["obs"]),
                "shape": j["def"].get("shape") or ""}
    return {"generator": j["def"]["gen"], "kind": "output-order-vs-model"}


def is_known(ctx, feats):
    """do the features match an OPEN finding (the test ctx.report applies)"""
    for f in ctx.findings:
        if f.get("property") == "C14" and f.get("status") == "open":
            mt = f.get("match", {})
            if mt and all(feats.get(k) == v for k, v in mt.items()):
                return True
    return False


def report_bad(ctx, j, code):
    rep = {"case": view(j), "replay_cmd": "./check C14 --replay <this file>", "def": j["def"],
           "batch_defs": j.get("batch_defs")}
    if code == 1:
        outs = j.get("outputs") or []
        rep["verdict"] = "two generations of the same definition wrote different bytes (or differed in failing)"
        if len(outs) >= 2:
            rep["diff_of_two_outputs"] = "".join(list(difflib.unified_diff(
                outs[0].splitlines(True), outs[1].splitlines(True), "output A", "output B"))[:200])
        feats = feats_of(j, code)
    else:
        rep["verdict"] = ("the order of an output list contradicts the comparator the generator sorts it by (as modelled): "
                          "gsort blocks by (TypeName, sortTypeName); genum value lists by Value.Less, trait methods by name; "
                          "gerror fields by name. All %d generations of this definition were byte-identical, and so were those of "
                          "the widened search when none is listed before this replay — the order is no longer the sorted one "
                          "(a sort was removed or its key changed), which is what keeps map order out of the output" % len(j["obs"]))
        rep["offending_order"] = locate_order(j)
        rep["blocks_observed"] = j.get("blocks")
        rep["value_orders_observed"] = j.get("value_orders")
        rep["name_orders_observed"] = j.get("name_orders")
        feats = feats_of(j, code)
    ctx.report(rep, feats, failing_input=True)


def own_findings(ctx):
    """entries of known_findings.d/C14.json that the merged known_findings.json does not hold yet
    (the merged file is rebuilt by the coordinator; an entry added here takes effect at once)"""
    p = os.path.join(vlib.VERIF, "known_findings.d", "C14.json")
    try:
        mine = json.load(open(p)).get("findings", [])
    except (OSError, ValueError):
        return
    have = {f.get("id") for f in ctx.findings if f.get("property") == "C14"}
    ctx.findings += [f for f in mine if f.get("id") not in have]


def run(ctx):
    ctx.trusted = TRUSTED
    own_findings(ctx)
    ctx.assumptions = [
        "key-distinctness hypotheses of the theorems, each guaranteed by Go for compilable definitions: constant names unique per package (genum values / trait instances), trait method names unique (two traits `_Foo` and `Foo` would tie; the output would not compile), struct field names unique (gerror; blank `_` fields cannot carry a usable gerror tag), a type name denotes one struct (gsort: the same type listed twice in -types gives two EQUAL descs, so the tie is harmless)",
        "the stderr warnings genum prints for unsafe duplicate groups are visited in map order (C14_warning_order_is_choice) — they are not part of the generated file and outside the property",
        "byte-level clause is partial: exercised by the hash farm with the given number of repetitions, not proved",
    ]
    ctx.obligations_or_violation()
    ok, log = ctx.coq_build(["theories/GenDetJudge.vo"])
    if not ok:
        ctx.report({"unchecked": "judge build (GenDetJudge.v)", "detail": log[-3000:]}, {"kind": "coq_build"}, failing_input=False)
        return
    binp, log = ctx.build_harness("c14")
    if not binp:
        ctx.report({"unchecked": "harness build against the current tree", "detail": log[-3000:]},
                   {"kind": "build"}, failing_input=False)
        return
    clis = {}
    for mod in ("gsort", "genum", "gerror"):
        p, log = gsort_lib.build_cli(ctx, mod, mod)
        if not p:
            ctx.report({"unchecked": "%s CLI build from the current tree" % mod, "detail": log[-3000:]},
                       {"kind": "build"}, failing_input=False)
            return
        clis[mod] = p
    quick = ctx.tier == "quick"
    reps = 3 if quick else 20
    terms, jsons, err = run_farm(ctx, binp, clis, ["-n", 3 if quick else 18, "-reps", reps,
                                                   "-stale", "first" if quick else "all"], "hash")
    if err:
        ctx.report({"unchecked": "hash farm run", "detail": err[-3000:]}, {"kind": "harness"}, failing_input=False)
        return
    attach_batches(jsons)
    bad, n_gsort, err = ctx.judge_cases(HEADER, "gd_case", "gd_judge", terms, shard=40, tag="hash",
                                        nontrivial="gd_is_gsort")
    if err:
        ctx.report({"unchecked": "in-kernel evaluation of the judgement", "detail": err},
                   {"kind": "coq_eval"}, failing_input=False)
        return
    # the order observations must be complete: a harness that no longer recognises the lists in the
    # generated text would otherwise pass vacuously
    blind = [j for j in jsons if j.get("name_order_sizes") is not None
             and [len(x or []) for x in (j.get("name_orders") or [])] != j["name_order_sizes"]]
    if blind:
        j = blind[0]
        ctx.report({"unchecked": "extraction of the order-bearing lists from the generated file (harness/cmd/c14 orderObs) — "
                                 "the output's layout changed; the order tie is not being exercised",
                    "generator": j["def"]["gen"], "expected_list_lengths": j["name_order_sizes"],
                    "extracted": j.get("name_orders"), "output_head": (j.get("outputs") or [""])[0][:1500]},
                   {"kind": "observation-extraction", "generator": j["def"]["gen"]}, failing_input=False)
    tie_ok, tie_detail = map_range_tie(ctx)
    ctx.log("map-range tie:", "OK" if tie_ok else "BROKEN", "-", tie_detail.splitlines()[0])
    # Widened search.  When the only signal so far is a broken tie or an order that departs from the
    # model's comparator (no two generations differed yet), look harder for a definition on which
    # two generations differ: more definitions of the affected generators (those named by the failing
    # cases and those whose packages gained or lost a map range or a package-level variable), 4 + 4
    # regular generations each plus the stale histories of the first of each stream.
    # (cases explained by an open known finding do not count: they neither stand for nor hide
    # another problem)
    unlisted = [(i, c) for i, c in bad if not is_known(ctx, feats_of(jsons[i], c))]
    if not any(c == 1 for _, c in unlisted) and (unlisted or not tie_ok):
        affected = sorted({jsons[i]["def"]["gen"] for i, _ in unlisted} | tie_generators(ctx, tie_ok))
        ctx.log("widened search for two differing generations (%s)" % ",".join(affected))
        per = 4 if quick else 12          # indices; each gives one definition per stream of the generator
        if len(affected) == 1:
            per += 2
        wt, wj, werr = run_farm(ctx, binp, clis, ["-seed", ctx.seed + 7919, "-n", per, "-reps", 4,
                                                  "-only", ",".join(affected), "-twin-every", 2], "wide")
        if not werr:
            wbad, _, werr = ctx.judge_cases(HEADER, "gd_case", "gd_judge", wt, shard=40, tag="wide")
        if not werr:
            attach_batches(wj)
            for j in wj:
                j["widened"] = True
            bad += [(len(jsons) + i, c) for i, c in wbad]
            jsons += wj
            unlisted = [(i, c) for i, c in bad if not is_known(ctx, feats_of(jsons[i], c))]
            ctx.cov["widened_search"] = {"definitions": len(wj), "generations": sum(len(j["obs"]) for j in wj),
                                         "differing_generations_found": sum(1 for _, c in wbad if c == 1)}
    # failing inputs first: definitions on which two generations differed (code 1), then
    # definitions whose output order contradicts the model's comparator (code 2; one per generator)
    ones = [(i, c) for i, c in bad if c == 1]
    twos, seen = [], set()
    for i, c in bad:
        if c == 2 and jsons[i]["def"]["gen"] not in seen:
            seen.add(jsons[i]["def"]["gen"])
            twos.append((i, c))
    minimised = False
    for k, (i, code) in enumerate(ones + twos):
        j = jsons[i]
        if code == 1 and not minimised and not is_known(ctx, feats_of(j, code)):
            j = minimise(ctx, binp, clis, j)
            minimised = True
        report_bad(ctx, j, code)
    if len(bad) > len(ones) + len(twos):
        ctx.violations += ["(like a replay above)"] * (len(bad) - len(ones) - len(twos))
    if not tie_ok:
        ctx.cov["translator_tie"] = {"status": "BROKEN", "detail": tie_detail[-800:]}
        if not unlisted:
            gen = os.path.join(ctx.gen, "MapRangeGen.v")
            ctx.report({"unchecked": "tie Tie_C14 (the map ranges of the generator packages = the ones GenDetModel accounts for)",
                        "detail": tie_detail[-2500:],
                        "map_ranges_found": open(gen).read()[-3000:] if os.path.isfile(gen) else None,
                        "widened_search": ctx.cov.get("widened_search")},
                       {"kind": "translator_tie"}, failing_input=False)
    gens = sum(len(j["obs"]) for j in jsons)
    failed = [j for j in jsons if any(o.get("err") for o in j["obs"])]
    produced = [j for j in jsons if all(o["sha"] and not o.get("err") for o in j["obs"])]
    ctx.cov.update({
        "evaluations": len(jsons),
        "generations": gens,
        "generations_per_definition": "%d in one process (interleaved with another definition / its twin packages, alternating fresh/existing) + %d in separate processes (real CLIs), then the stale-output history "
                                      "(fresh subset configuration, full over the shorter output, subset over the longer output, over a long foreign file, over a minimal file), once in one process and once through the CLI, for %s; every chain in its own copy of the package directory" % (
                                          reps, reps, "the first definition of each stream" if quick else "every definition"),
        "package_states": gsort_lib.hist(o["state"] for j in jsons for o in j["obs"]),
        "twin_package_batches": len({j["def"].get("batch") for j in jsons if j["def"].get("batch")}),
        "distinct_nontrivial": vlib.distinct_count([j["def"]["source"] for j in produced]),
        "rule": "case = one definition file (gsort / genum / gerror) with >= 2 of everything the generator keeps in a map "
                "or sorts (types per file, sorters per struct, duplicate-value groups, traits, imported packages, tagged fields) "
                "generated 2 x reps times; compared: SHA-256 of the output file (+ error text) after every generation; "
                "non-trivial = every generation succeeded and wrote a file; distinct by definition text",
        "definitions_where_generation_fails_every_time": len(failed),
        "by_generator": gsort_lib.hist(j["def"]["gen"] for j in jsons),
        "map_kept_things": {k: sum((j["def"].get("counts") or {}).get(k, 0) for j in jsons)
                            for k in sorted({k for j in jsons for k in (j["def"].get("counts") or {})})},
        "gsort_block_order_judged_against_model": n_gsort,
        "genum_value_lists_judged_against_Value_Less": sum(len(j.get("value_orders") or []) for j in jsons),
        "genum_value_list_entries": sum(len(v) for j in jsons for v in (j.get("value_orders") or [])),
        "trait_method_and_gerror_field_orders_judged": sum(len(j.get("name_orders") or []) for j in jsons),
        "order_samples": [{"generator": j["def"]["gen"], "value_orders": (j.get("value_orders") or [])[:3],
                           "name_orders": (j.get("name_orders") or [])[:3]} for j in jsons[1:3]],
        "samples": [view(j) for j in jsons[:3]],
        "failing_generation_samples": [{"def": view(j)["definition"][:600], "err": [o.get("err") for o in j["obs"]][:2]} for j in failed[:2]],
        "disagreements": len(bad),
    })
    ctx.log("hash farm: %d definitions, %d generations, %d with failing generation (same failure every time), %d disagreement(s)" % (
        len(jsons), gens, len(failed), len(bad)))


def replay(ctx, path):
    rep = json.load(open(path))
    d = rep.get("def")
    if not d:
        print(json.dumps(rep, indent=1))
        return 0
    binp, log = ctx.build_harness("c14")
    if not binp:
        print(log)
        return 2
    clis = {}
    for mod in ("gsort", "genum", "gerror"):
        clis[mod], log = gsort_lib.build_cli(ctx, mod, mod)
        if not clis[mod]:
            print(log)
            return 2
    p = os.path.join(ctx.scratch, "replay_defs.json")
    with open(p, "w") as f:
        json.dump(rep.get("batch_defs") or [d], f)
    terms, jsons, err = run_farm(ctx, binp, clis, ["-defs", p, "-reps", 6, "-stale", "all"], "replay")
    if err:
        print(err)
        return 2
    bad, _, err = ctx.judge_cases(HEADER, "gd_case", "gd_judge", terms, shard=40, tag="replay")
    if err:
        print(err)
        return 2
    for i, c in bad:
        print(json.dumps(view(jsons[i]), indent=1))
    print("STILL FAILING" if bad else "ok: all %d generations byte-identical per configuration" % sum(len(j["obs"]) for j in jsons))
    return 1 if bad else 0
