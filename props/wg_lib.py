"""wg_lib — shared machinery of the gsync checks C01 and C02 (SelectableWaitGroup).

Pipeline of one check:
  1. proof obligations (Props/C0x.v, Print Assumptions);
  2. scratch copy of the current tree; harness/cmd/xlate_conc rewrites the copy of
     gsync/selectable_wait_group.go (vsched yield before every shared-memory operation) and
     regenerates the IR listing of Add/Wait/Count as a Gallina term;
  3. tie (T): `gen_prog = hand_prog := eq_refl` compiled by coqc;
  4. tie (C): harness/cmd/c01 runs client programs on the instrumented REAL code under the
     baton-passing scheduler and records a trace per schedule; every trace is judged inside
     Coq by the property's monitor (c01_ok / c02_ok) and compared step by step with the model;
  5. failing cases are minimised (program and schedule) by re-running candidates on the real
     code; when only a tie/correspondence broke, schedules are searched (widened enumeration on
     the implementation, WGSearch on the models) before `no-failing-input-found` is reported.
"""
import json
import os
import re
import shutil
import time

import vlib

HEADER = ("From Coq Require Import List ZArith Bool Uint63.\nImport ListNotations.\n"
          "From GT Require Import Base.Verdict.\nFrom GT Require Import Base.Conc.\n"
          "From GT Require Import WGModel WGSpec WGJudge.\n")
CASE_TYPE = "list int"
# files the judge needs that are not in the Require cone of the property theorems
COQ_TARGETS = ["WGJudge.vo", "WGJudgeProofs.vo", "WGProg.vo", "WGSearch.vo", "WGSimHand.vo", "WGSimProps.vo"]

EXPORT_VERIF = '''package gsync

// VerifYield is the verification hook called before every shared-memory operation of the
// instrumented scratch copy (this file and the instrumentation never exist in the repository).
var VerifYield func(site int)

func verifYield(site int) {
	if h := VerifYield; h != nil {
		h(site)
	}
}

func verifYieldB(site int) bool {
	verifYield(site)
	return true
}
'''

TRUSTED = [
    "Coq 8.16.1 kernel and VM (vm_compute); no native_compute; no axioms (Print Assumptions: closed under the global context)",
    "hand-written machine coq/theories/WGModel.v (one micro-step per shared-memory operation); tied to the source by (T) a simulation check-list (WGSim.wg_sim_ok) PROVED on every run for the IR regenerated from the source - helpers, loop forms and locals as the source has them - and (C) step-by-step schedule replay on the real code",
    "the denotation of the IR (coq/theories/Base/ConcIR2.v: statements, calls of file-local helpers, loops, break/continue, freshness discipline for unpublished structs) and the memory interface WGDenote.wg_mem (what Load / CompareAndSwap / close do); Inc/Dec and WaitCTX/WaitTimeout are tied by comparing their regenerated wrapper term / select summary with a stored one",
    "sequentially consistent sync/atomic, Go channel close semantics (modelled, exercised through the real operations in the replay)",
    "harness/cmd/xlate_conc (go/ast instrumenter + IR printer), harness/internal/vsched (baton scheduler), harness/cmd/c01 (programs, schedules, observation by Count() and non-blocking select), Go 1.23 toolchain",
    "the free-running Go scheduler and timers are runtime behaviour: exercised by the WaitTimeout probe and the -race stress run, not part of the proof (partial)",
]

ASSUMPTIONS = [
    "interleaving semantics at the granularity of single atomic/close operations under sequentially consistent atomics",
    "DOMAIN RESTRICTION: the count and every delta are mathematical integers (Coq Z) in model and theorems; Go's int is 64 bit and wraps (4 x Add(1<<62) gives count 0 and closes the channel), so the theorems speak about callers whose running count never leaves the range of a 64-bit int. The tie rejects any narrower representation (integer conversions other than int()/int64(), fields and atomics of narrow integer types are untranslatable) and the fixed corpus runs Add(1<<31) twice, Add(1<<32), Add(1<<62) on the real code",
    "WaitTimeout/WaitCTX: logical time (the deadline passes after k scheduling attempts of the caller at its select, for every k); runtime timers, contexts and the fairness of Go's select are runtime behaviour exercised by the probes only",
    "client programs: goroutines calling Add(+n)/Add(0)/Add(-n)/Wait on a group made by NewSelectableWaitGroup; schedules are generated so that the conservative lower bound never goes negative (a decrement is issued only after increments covering it have returned)",
]


def prepare(ctx):
    """instrument the scratch copy, regenerate the IR, build the harness.
    Returns (harness binary or None, ir_path or None, log).  ctx.wg_instrumented says whether the
    yield points are in (False: the source uses a construct the instrumenter rejects; the harness
    is then built on the plain source and only the free-running stress can run)."""
    repo = ctx.copy_repo()
    ctx.harness_module()
    ctx.wg_instrumented = False
    xl, log = ctx.build_harness("xlate_conc")
    if not xl:
        return None, None, "xlate_conc build failed:\n" + log
    src = os.path.join(repo, "gsync", "selectable_wait_group.go")
    # the package as the compiler sees it: every non-test file of gsync/ that matches the build
    # context of the harness build, merged into one file that replaces them in the scratch copy
    # (code in a sibling file or behind a build constraint is then what is instrumented,
    # translated and run; a file the build context rejects is dead code and is removed)
    gdir = os.path.join(repo, "gsync")
    merged = os.path.join(ctx.scratch, "gsync_merged.go")
    rc, out = vlib.sh([xl, "-mergepkg", gdir, "-merge", merged, "-tags", "verif,wginstr"], timeout=120)
    if rc != 0:
        return None, None, "xlate_conc -mergepkg failed on gsync/:\n" + out[-1500:]
    m = re.search(r"MERGED files=(\S*) excluded=(\S*)", out)
    ctx.cov["source_files"] = {"merged": m.group(1).split(",") if m else [], "excluded_by_build_context": [x for x in (m.group(2).split(",") if m else []) if x]}
    for n in os.listdir(gdir):
        if n.endswith(".go") and not n.endswith("_test.go"):
            os.remove(os.path.join(gdir, n))
    shutil.copy(merged, src)
    ir = os.path.join(ctx.gen, "WGProgGen.v")
    ctx.wg_sites = os.path.join(ctx.scratch, "sites.json")
    ctx.wg_sitemap = os.path.join(ctx.scratch, "sitemap.json")
    ctx.wg_ir2 = os.path.join(ctx.gen, "WGProgGen2.v")
    rc, out = vlib.sh([xl, "-src", src, "-instr", src, "-ir", ir, "-funcs", "Add,Wait,Count",
                       "-codes", "Add=1,Wait=2,Count=3", "-sites", ctx.wg_sites,
                       "-ir2", ctx.wg_ir2, "-sitemap", ctx.wg_sitemap,
                       "-timed", "WaitCTX,WaitTimeout", "-wrappers", "Inc,Dec"], timeout=120)
    note = ""
    if rc != 0:
        note = "xlate_conc cannot instrument gsync/selectable_wait_group.go:\n" + out
        ir = None
    else:
        ctx.wg_instrumented = True
    ctx.add_repo_file("gsync/export_verif.go", EXPORT_VERIF)
    binp, log = ctx.build_harness("c01", tags="verif wginstr")
    if not binp:
        return None, ir, note + "\nharness build against the current tree failed:\n" + log
    return binp, ir, note


TIE2 = """From GT Require Import Base.Conc.
From GT Require Import Base.ConcIR2.
From GT Require Import WGModel WGSpec WGSim WGProg2 WGSimHand WGSimProps.
From GTgen Require Import WGProgGen2.
(* the semantic tie: the machine of the theorems is the denotation of the regenerated IR.
   `exact hand_sim_ok` typechecks when the regenerated term is the committed one; otherwise the
   check-list is proved afresh for the regenerated term. *)
Theorem tie : wg_sim_ok gen_prog2 gen_sitemap.
Proof. first [ exact hand_sim_ok | wg_sim_tac ]. Qed.
(* one shared-memory operation per yield point: the micro-steps are single operations *)
Definition tie_granularity : prog2_ops_wf gen_prog2 = true := eq_refl.
Theorem tie_C01 : forall progs sched,
  c01_ok (tr (dwg2_exec gen_prog2 gen_sitemap progs sched)) = true.
Proof. exact (C01_of_source gen_prog2 gen_sitemap tie). Qed.
Theorem tie_C02 : forall progs sched,
  c02_ok (tr (dwg2_exec gen_prog2 gen_sitemap progs sched)) = true.
Proof. exact (C02_of_source gen_prog2 gen_sitemap tie). Qed.
Print Assumptions tie.
Print Assumptions tie_C01.
Print Assumptions tie_C02.
"""


def tie(ctx, ir):
    """(T): the machine of the theorems is the denotation of the IR regenerated from the source
    (WGSim.wg_sim_ok, proved for the regenerated term on every run).  Returns (ok, which, detail);
    which in current (the regenerated IR is the committed one) | equivalent (different term, the
    simulation check-list is proved for it) | pinned | same-sites | unknown"""
    rc, out = vlib.sh(["timeout", "300", "coqc", "-Q", vlib.THEORIES, "GT", "-Q", ctx.gen, "GTgen", ir],
                      cwd=ctx.gen, timeout=330)
    if rc != 0:
        return False, "unknown", "generated IR does not compile:\n" + out[-2000:]
    ir2 = getattr(ctx, "wg_ir2", None)
    detail2 = "no second IR"
    if ir2 and os.path.isfile(ir2):
        rc, out = vlib.sh(["timeout", "300", "coqc", "-Q", vlib.THEORIES, "GT", "-Q", ctx.gen, "GTgen", ir2],
                          cwd=ctx.gen, timeout=330)
        if rc != 0:
            detail2 = "generated IR (ConcIR2) does not compile:\n" + out[-2000:]
        else:
            t0 = time.time()
            rc, out = ctx.coq_eval("WGTie2", TIE2, timeout=900)
            if rc == 0 and out.count("Closed under the global context") == 3:
                rcs, _ = ctx.coq_eval("WGTieSame", "From GT Require Import WGProg2.\nFrom GTgen Require Import WGProgGen2.\n"
                                      "Definition same : gen_prog2 = hand_prog2 /\\ gen_sitemap = hand_sitemap := conj eq_refl eq_refl.\n",
                                      timeout=120)
                which = "current" if rcs == 0 else "equivalent"
                ctx.cov["tie_T_seconds"] = round(time.time() - t0, 1)
                # Inc / Dec (wrappers of Add) and the deadline selects WaitCTX / WaitTimeout
                rca, outa = ctx.coq_eval("WGTieAux", "From GT Require Import WGProg2 WGTimed.\nFrom GTgen Require Import WGProgGen2.\n"
                                         "Definition tie_wrappers : gen_wrappers = hand_wrappers := eq_refl.\n"
                                         "Definition tie_timed : gen_timed = hand_timed := eq_refl.\n"
                                         "Definition tie_api : gen_api = hand_api := eq_refl.\n", timeout=120)
                if rca != 0:
                    return False, which, ("Add/Wait/Count pass the simulation check-list, but Inc/Dec are not the one-line "
                                          "wrappers of Add(+1)/Add(-1), or the exported surface of the package differs from WGProg2.hand_api (a wrapper type, an extra entry point), or WaitCTX/WaitTimeout are not `select { case <-deadline: "
                                          "return err; case <-wg.Wait(): return nil }` (WGTimed.hand_timed):\n" + outa[-1500:])
                return True, which, ("wg_sim_ok gen_prog2 gen_sitemap proved (%s): the machine of the theorems is the "
                                     "denotation of the regenerated IR; Print Assumptions closed" % (
                                         "the regenerated term is the committed hand_prog2" if which == "current"
                                         else "regenerated term differs from hand_prog2, check-list proved afresh in %.0fs" % (time.time() - t0)))
            if rc == 0:
                detail2 = "semantic tie compiled but Print Assumptions is not closed:\n" + out[-1500:]
            else:
                detail2 = "wg_sim_ok gen_prog2 gen_sitemap could not be proved (%.0fs):\n%s" % (time.time() - t0, out[-1500:])
    rc2, _ = ctx.coq_eval("WGTieOrig", "From GT Require Import WGProg.\nFrom GTgen Require Import WGProgGen.\n"
                          "Definition tie_orig : gen_prog = hand_prog_orig := eq_refl.\n", timeout=300)
    if rc2 == 0:
        return False, "pinned", ("the source's Add/Wait/Count are the pinned two-word algorithm "
                                 "(gen_prog = hand_prog_orig), not the pair-CAS code the theorems are about")
    # same shared-memory operations at the same sites?  then the machine's micro-steps still line
    # up with the code's and the per-step comparison with the model stays meaningful
    rc3, _ = ctx.coq_eval("WGTieSites", "From Coq Require Import List.\nFrom GT Require Import Base.ConcIR.\nFrom GT Require Import WGProg.\n"
                          "From GTgen Require Import WGProgGen.\n"
                          "Definition same_sites : map func_site_ops gen_prog = map func_site_ops hand_prog := eq_refl.\n",
                          timeout=300)
    return False, ("same-sites" if rc3 == 0 else "unknown"), detail2


# budgets of one harness process (cases, MB of recorded steps) and of its address space
BUDGET = {"quick": (12000, 30), "thorough": (450000, 12000), "widen": (25000, 40)}
CHILD_VMEM_KB = 12 * 1024 * 1024


def limited(cmd):
    """the command under an address-space limit (a runaway harness must not take the machine down)"""
    return ["sh", "-c", "ulimit -v %d 2>/dev/null; exec \"$@\"" % CHILD_VMEM_KB, "sh"] + cmd


def slim(j, path, offset):
    """what the plugin needs of every case; the recorded steps stay in the jsonl file and are read
    back (full) only for the few cases that are reported"""
    obs = j.pop("obs")
    lb, ok_dom, calls, rets = 0, True, 0, 0
    for it in obs:
        c = it.get("call") or {}
        d = c.get("d", 0) if c.get("k") == "add" else 0
        if it["ev"] == "call":
            calls += 1
            if d < 0:
                lb += d
        if it["ev"] == "ret":
            rets += 1
            if d > 0:
                lb += d
        ok_dom = ok_dom and lb >= 0
    ncalls = sum(len(p) for p in j["progs"])
    j["_src"] = (path, offset)
    j["_nobs"] = len(obs)
    j["_indom"] = ok_dom
    j["_complete"] = rets >= ncalls
    j["_thash"] = hash(json.dumps([j["progs"], [[o["tid"], o["ev"], o["val"], o["count"], o["closed"], o["site"]] for o in obs]]))
    return j


def full(j):
    """the case with its recorded steps"""
    if "obs" in j or "_src" not in j:
        return j
    path, off = j["_src"]
    with open(path) as fh:
        fh.seek(off)
        jj = json.loads(fh.readline())
    jj.update({k: v for k, v in j.items() if k.startswith("_") or k == "kind"})
    return jj


def run_harness(ctx, binp, runs, timeout=3000, budget=None):
    """run the harness once per (tag, [args]); collect the index-aligned packed case terms and
    slim case records, and the ENUM lines (schedules enumerated per program) it prints"""
    terms, jsons, enums = [], [], []
    cases, mb = BUDGET[budget or ("quick" if ctx.tier == "quick" else "thorough")]
    for tag, args in runs:
        prefix = os.path.join(ctx.scratch, "cases_%s" % tag)
        sites = getattr(ctx, "wg_sites", None)
        extra = ["-sites", sites] if sites and os.path.isfile(sites) else []
        smap = getattr(ctx, "wg_sitemap", None)
        if smap and os.path.isfile(smap):
            extra += ["-sitemap", smap]
        if getattr(ctx, "wg_sparse", False):
            extra += ["-sparseobs"]
        extra += ["-total", str(cases), "-totalmb", str(mb)]
        rc, out = vlib.sh(limited([binp, "-seed", str(ctx.seed), "-out", prefix] + extra + [str(a) for a in args]),
                          timeout=timeout)
        if rc != 0:
            return terms, jsons, enums, "harness %s failed (rc %d):\n%s" % (tag, rc, out[-3000:])
        if "BUDGET exhausted" in out:
            ctx.cov.setdefault("budget_exhausted", []).append(tag)
        t = open(prefix + ".cases").read().splitlines()
        j = []
        with open(prefix + ".jsonl") as fh:
            while True:
                off = fh.tell()
                line = fh.readline()
                if not line:
                    break
                j.append(slim(json.loads(line), prefix + ".jsonl", off))
        if len(t) != len(j):
            return terms, jsons, enums, "harness %s wrote %d terms but %d json cases" % (tag, len(t), len(j))
        terms += t
        jsons += j
        for m in re.finditer(r'^ENUM program="([^"]*)" mode=(\S+) pre=(-?\d+) threads=(\d+) schedules=(\d+) steps=(\d+) complete=(\w+)', out, re.M):
            enums.append({"program": m.group(1), "mode": m.group(2), "preemption_bound": int(m.group(3)),
                          "threads": int(m.group(4)), "schedules": int(m.group(5)),
                          "steps": int(m.group(6)), "complete": m.group(7) == "true"})
    return terms, jsons, enums, None


def judge(ctx, judge_name, terms, tag, shard=None):
    """judge packed cases in the kernel VM.  Code of a case = verdict (0/1/2) + 6 when the two
    formulations of the C01 monitor (streaming c01_ok, per-call c01_decl) disagree on the
    recorded trace; 9 = the words do not decode.  Returns (bad [(index, verdict)], nontrivial, err)."""
    if shard is None:
        shard = min(3000, max(100, -(-len(terms) // 16)))
    # canary: a word list that does not decode is appended; the judge must flag it (code 9),
    # otherwise the evaluation or the parsing of its output is broken and "0 bad" means nothing
    canary = len(terms)
    bad, nt, err = ctx.judge_cases(HEADER, CASE_TYPE, "enc_judge %s" % judge_name, terms + ["[7]%uint63"],
                                   shard=shard, nontrivial="enc_nontrivial", tag=tag, timeout=1500)
    if err:
        return bad, nt, err
    if (canary, 9) not in bad:
        return bad, nt, "the judge did not flag the canary case: its output is not being read correctly"
    bad = [(i, c) for i, c in bad if i != canary]
    undec = [i for i, c in bad if c == 9]
    if undec:
        return bad, nt, "%d packed cases do not decode (first index %d)" % (len(undec), undec[0])
    disagree = [i for i, c in bad if c >= 6]
    if disagree:
        ctx.cov["monitor_cross_check_disagreements"] = ctx.cov.get("monitor_cross_check_disagreements", 0) + len(disagree)
    bad = [(i, c % 3) for i, c in bad if c % 3]
    return bad, nt, None


# ---------------------------------------------------------------- minimisation
def _progs_wo_probe(j):
    return [list(p) for p in j["progs"][:-1]]


def _candidates(progs, sched):
    """single deletions: one call, one thread, one schedule entry"""
    out = []
    for t, p in enumerate(progs):
        for i in range(len(p)):
            q = [list(x) for x in progs]
            del q[t][i]
            if not q[t]:
                continue
            out.append((q, list(sched)))
    if len(progs) > 1:
        for t in range(len(progs)):
            q = [list(x) for i, x in enumerate(progs) if i != t]
            s = [x - 1 if x > t else x for x in sched if x != t]
            out.append((q, s))
    return out


def _sched_candidates(progs, sched):
    out = []
    for i in range(len(sched)):
        out.append((progs, sched[:i] + sched[i + 1:]))
    return out


def replay_batch(ctx, binp, cands, tag):
    """run (progs-without-probe, sched) candidates on the real code in one harness process;
    returns index-aligned terms, jsons (None where the run failed)"""
    if not cands:
        return [], []
    batch = []
    for progs, sched in cands:
        nprobe = len(progs)
        batch.append({"progs": progs + [[{"k": "wait"}]], "sched": [x for x in sched if x < nprobe]})
    f = os.path.join(ctx.scratch, "rp_%s.json" % tag)
    with open(f, "w") as fh:
        json.dump({"batch": batch}, fh)
    prefix = os.path.join(ctx.scratch, "rp_%s" % tag)
    extra = []
    if getattr(ctx, "wg_sites", None) and os.path.isfile(ctx.wg_sites):
        extra += ["-sites", ctx.wg_sites]
    if getattr(ctx, "wg_sitemap", None) and os.path.isfile(ctx.wg_sitemap):
        extra += ["-sitemap", ctx.wg_sitemap]
    if getattr(ctx, "wg_sparse", False):
        extra += ["-sparseobs"]
    if getattr(ctx, "wg_neg", False):
        extra += ["-neg"]
    rc, out = vlib.sh([binp, "-seed", str(ctx.seed), "-out", prefix, "-mode", "replay", "-file", f] + extra,
                      timeout=600)
    if rc != 0 or not os.path.isfile(prefix + ".cases"):
        return [None] * len(cands), [None] * len(cands)
    t = open(prefix + ".cases").read().splitlines()
    j = [json.loads(l) for l in open(prefix + ".jsonl").read().splitlines()]
    if len(t) != len(cands):
        return [None] * len(cands), [None] * len(cands)
    return t, j


def minimise(ctx, binp, judge_name, j, rounds=8):
    """greedy delta-debugging on the client program and the schedule; every candidate is re-run
    on the real code and re-judged in Coq (code 1 must persist)"""
    best = j = full(j)
    for phase in ("prog", "sched"):
        for rnd in range(rounds):
            progs = _progs_wo_probe(best)
            nprobe = len(progs)
            sched = [x for x in best["sched"] if x < nprobe]
            cands = _candidates(progs, sched) if phase == "prog" else _sched_candidates(progs, sched)
            if not cands:
                break
            terms, jsons = replay_batch(ctx, binp, cands, "%s%d" % (phase, rnd))
            idx = [i for i, t in enumerate(terms) if t]
            if not idx:
                break
            bad, _, err = judge(ctx, judge_name, [terms[i] for i in idx],
                                "min_%s%d" % (phase, rnd), shard=4000)
            if err:
                break
            ok = [idx[k] for k, code in bad if code == 1]
            if not ok:
                break

            def size(i):
                jj = jsons[i]
                return (sum(len(p) for p in jj["progs"]), len(jj["sched"]), jj.get("preemptions", 0))
            cur = (sum(len(p) for p in best["progs"]), len(best["sched"]), best.get("preemptions", 0))
            i = min(ok, key=size)
            if size(i) >= cur:
                break
            best = jsons[i]
            best["kind"] = j["kind"] + "/minimised"
    return best


# ---------------------------------------------------------------- views
def call_str(c):
    if c["k"] == "wait":
        return "Wait"
    if c.get("via") == "inc":
        return "Inc()"
    if c.get("via") == "dec":
        return "Dec()"
    d = c.get("d", 0)
    return "Add(0)" if d == 0 else "Add(%+d)" % d


def prog_str(progs):
    return " || ".join("; ".join(call_str(c) for c in p) for p in progs)


def view(j):
    """human-oriented replay record of a case"""
    j = full(j)
    steps = []
    for k, it in enumerate(j["obs"]):
        s = "%2d T%d " % (k, it["tid"])
        if it["ev"] == "call":
            s += "call " + call_str(it["call"])
        elif it["ev"] == "ret":
            if it.get("panic"):
                s += "PANIC in " + call_str(it["call"])
            elif it["call"]["k"] == "wait":
                s += "Wait returns channel #%d" % it["val"]
            else:
                s += "%s returns %d" % (call_str(it["call"]), it["val"])
        else:
            s += it["ev"]
        s += "  | Count()=%d closed=%s next-site=%d" % (it["count"], it["closed"], it["site"])
        steps.append(s)
    return {"program": prog_str(j["progs"]), "progs": j["progs"], "sched": j["sched"],
            "name": j.get("name"), "kind": j.get("kind"), "preemptions": j.get("preemptions"),
            "wait_timeout_probe": {0: "nil", 1: "ErrWGTimeout", 2: "hung (watchdog)", 3: "not probed"}[j["tmo"]],
            "probes_at_rest": ["after step %d: WaitTimeout -> %s, WaitCTX(cancelled ctx) -> %s" % (
                p["pos"], ["nil", "ErrWGTimeout", "hung (watchdog)", "not called"][p["code"] // 4],
                ["nil", "the context's error", "hung (watchdog)", "not called"][p["code"] % 4])
                for p in (j.get("probes") or [])],
            "steps": steps}


def features(j, code, pid):
    """shape of a failing input (for known-findings matching)"""
    j = full(j)
    f = {"kind": "schedule", "code": code, "threads": len(j["progs"]) - 1}
    closed_while_positive = False
    spin = False
    for it in j["obs"]:
        if it["closed"] and it["count"] > 0 and any(c != [] for c in [it["closed"]]):
            closed_while_positive = True
    taus = {}
    for it in j["obs"]:
        if it["ev"] == "tau" and it["site"] in (200, 201):
            taus[it["tid"]] = taus.get(it["tid"], 0) + 1
    spin = any(v >= 4 for v in taus.values())
    f["closed_while_count_positive"] = closed_while_positive
    f["wait_spins"] = spin
    f["timeout_probe_hung"] = j["tmo"] == 2
    return f


def hist(it):
    h = {}
    for x in it:
        h[str(x)] = h.get(str(x), 0) + 1
    return h


# ---------------------------------------------------------------- the check
def stress_run(ctx, binp, judge_name, secs, tag, max_traces=1500):
    """free-running run of the real code (Go scheduler in charge): returns (failing inputs, info).
    Failing inputs: programs whose at-rest clauses failed (STRESS-BAD lines) and logged traces
    that the C01 monitor rejects (judged in Coq, trace only)."""
    prefix = os.path.join(ctx.scratch, "stress_%s" % tag)
    rc, out = vlib.sh([binp, "-mode", "stress", "-secs", str(secs), "-seed", str(ctx.seed),
                       "-out", prefix, "-max", str(max_traces)], timeout=int(secs) + 120)
    found = []
    for m in re.finditer(r"^STRESS-BAD (\{.*\})$", out, re.M):
        b = json.loads(m.group(1))
        found.append({"kind": "stress-at-rest", "program": prog_str(b["progs"]), "progs": b["progs"],
                      "what": b["what"], "schedule": "free-running Go scheduler (not replayable step by step)"})
    info = (out.strip().splitlines() or ["no output"])[-1]
    if "DATA RACE" in out:
        found.append({"kind": "stress-race", "what": "the race detector reported a data race", "detail": out[-2500:]})
    if rc != 0 and not found:
        return found, "stress run failed: " + out[-500:]
    if os.path.isfile(prefix + ".cases"):
        terms = open(prefix + ".cases").read().splitlines()
        jsons = [json.loads(l) for l in open(prefix + ".jsonl").read().splitlines()]
        if terms:
            bad, _, err = judge(ctx, "c01_trace_judge", terms, "stress_" + tag)
            if err:
                return found, info + "; judging the logged traces failed: " + err[:300]
            for i, code in bad:
                if code == 1:
                    found.append({"kind": "stress-trace", "case": view(jsons[i]),
                                  "what": "the logged call/return/observe events violate the C01 monitor",
                                  "schedule": "free-running Go scheduler (log order = stamp order)"})
            info += "; %d logged traces judged by c01_ok" % len(terms)
    return found, info


DL_HEADER = ("From Coq Require Import List NArith Bool.\nImport ListNotations.\n"
             "From GT Require Import Base.Verdict.\nFrom GT Require Import WGJudge.\nLocal Open Scope N_scope.\n")


def deadline_probe(ctx, binp):
    """C02, last clause: WaitTimeout(d) / WaitCTX(WithTimeout(d)) on the real code (free running,
    real timers) on an idle group, on a group that stays positive, and under release + re-arm
    cycles with the woken waiter held at its next yield point until the re-arming Inc is done; the
    measurements are judged by WGJudge.dl_ok.  Returns (failing replay dicts, info)."""
    prefix = os.path.join(ctx.scratch, "deadline")
    extra = ["-sites", ctx.wg_sites] if getattr(ctx, "wg_sites", None) and os.path.isfile(ctx.wg_sites) else []
    rc, out = vlib.sh([binp, "-mode", "deadline", "-out", prefix, "-dms", "300"] + extra, timeout=300)
    if rc != 0 or not os.path.isfile(prefix + ".cases"):
        return [], "deadline probe failed: " + out[-400:]
    terms = open(prefix + ".cases").read().splitlines()
    jsons = [json.loads(l) for l in open(prefix + ".jsonl").read().splitlines()]
    bad, nt, err = ctx.judge_cases(DL_HEADER, "dl_case", "dl_judge", terms + ["DlCase 0 1 300 5000 2 0 0"],
                                   shard=1000, nontrivial="dl_nontrivial", tag="deadline", timeout=300)
    if err:
        return [], "judging the deadline probe failed: " + err[:400]
    if (len(terms), 1) not in bad:
        return [], "the deadline judge did not flag its canary case"
    found = []
    for i, code in bad:
        if i >= len(jsons):
            continue
        j = jsons[i]
        found.append({"kind": "deadline", "api": j["api"], "scenario": j["scenario"],
                      "call": "%s(%d ms)" % (j["api"], j["d_ms"]) + (" (context.WithTimeout)" if j["api"] == "WaitCTX" else ""),
                      "measured_ms": j["elapsed_ms"], "bound_ms": 2 * j["d_ms"],
                      "answer": ["nil", "the deadline's error", "no answer within 5 d"][j["result"]],
                      "driver": {"zero": "idle group", "positive": "one Inc, never released",
                                 "cancel": "one Inc, never released; ctx = context.WithTimeout(10 d), cancelled by its owner at d/2",
                                 "rearm": "one Inc, then release + re-arm cycles: Dec (count 0, wait channel closed, the waiter's "
                                          "select wakes), the waiter is held at its next yield point, Inc, the waiter goes on"}[j["scenario"]],
                      "cycles": ["Dec at %d ms%s" % (c["at_ms"], ", waiter held at site %d until the Inc was done" % c["held_at"] if c["held"] else "")
                                 for c in (j.get("cycles") or [])],
                      "measurements": j["attempts"],
                      "what": "the call did not answer within 2 d of its start" if j["scenario"] == "rearm" else
                              "wrong answer or answer outside [0.8 d, 2 d]" if j["scenario"] == "positive" else
                              "the early cancellation of a deadline-carrying context did not end the wait (answer outside [0.4 d, 2 d])" if j["scenario"] == "cancel" else
                              "no immediate nil on an idle group",
                      "replay_cmd": "harness c01 -mode deadline (./check C02 re-runs it)"})
    ctx.cov["deadline_probe"] = {"cases": len(jsons), "violating": len(found), "with_held_waiter": nt,
                                 "d_ms": 300, "bound": "2 d",
                                 "measured": [{"api": j["api"], "scenario": j["scenario"], "elapsed_ms": j["elapsed_ms"],
                                               "answer": j["result"], "cycles": len(j.get("cycles") or [])} for j in jsons]}
    return found, "%d measurements, %d violate their bound" % (len(jsons), len(found))


def run_check(ctx, pid):
    ctx.trusted = TRUSTED
    ctx.assumptions = ASSUMPTIONS
    ctx.coq_targets = COQ_TARGETS
    broken = []        # (what, detail, features): obligations that do not check; reported AFTER
    #                    the failing inputs, and as no-failing-input-found only when the schedule
    #                    search on the real code found none
    ok, detail = ctx.proof_obligations()
    ctx.log("proof obligations:", "OK" if ok else "BROKEN", "-", detail.splitlines()[0])
    if not ok:
        broken.append(("theorem file Props/%s.v" % pid, detail, {"kind": "proof_obligation"}))
    binp, ir, log = prepare(ctx)
    which = "unknown"
    if ir:
        tok, which, tdetail = tie(ctx, ir)
        ctx.log("tie (T):", "OK" if tok else "BROKEN", "-", tdetail.splitlines()[0])
        ctx.cov["tie_T"] = {"ok": tok, "which": which,
                            "means": "WGSim.wg_sim_ok gen_prog2 gen_sitemap: a simulation check-list proved for the IR "
                                     "regenerated from the source (helpers, loop forms, locals as the source has them); "
                                     "by WGSim.wg_sim the denotation of that IR and the machine of the theorems have the "
                                     "same memory and trace for every client program and schedule"}
        if not tok:
            broken.append(("tie WGSim.wg_sim_ok gen_prog2 gen_sitemap (semantic translator tie)", tdetail, {"kind": "tie"}))
    elif binp:
        ctx.log("tie (T): BROKEN - the source is outside the instrumenter's subset")
        ctx.cov["tie_T"] = {"ok": False, "which": "not-instrumentable"}
        broken.append(("instrumentation / translation of gsync/selectable_wait_group.go", log[-2000:], {"kind": "tie"}))
    if not binp:
        ctx.report({"unchecked": "harness build against the current tree",
                    "detail": log[-3000:]}, {"kind": "build"}, failing_input=False)
        for what, d, feat in broken:
            ctx.report({"unchecked": what, "detail": d}, feat, failing_input=False)
        return
    # the machine's micro-steps line up with the code's only when the shared-memory operations are
    # the modelled ones; otherwise the recorded traces are judged by the monitor alone
    structural = which in ("current", "equivalent", "same-sites")
    judge_name = {"C01": "c01", "C02": "c02"}[pid] + ("_judge" if structural else "_trace_judge")
    # a source whose operations are not the modelled ones: Count() may have effects of its own, the
    # observer calls it only where the property speaks about it (no Add in flight)
    ctx.wg_sparse = not structural
    ctx.cov["judging"] = ("per-step comparison with the model + monitor" if structural else
                          "trace only (the source's shared-memory operations are not the modelled ones): monitor verdicts, no model comparison")
    quick = ctx.tier == "quick"
    terms, jsons, enums, fails, diffs, nt = [], [], [], [], [], 0
    stress_found = []
    if ctx.wg_instrumented:
        t0 = time.time()
        bad = []
        if quick:
            runs = [("corpus", ["-mode", "corpus"]),
                    ("pb1", ["-mode", "pb", "-pre", 1, "-tmoevery", 7]),
                    ("pb2", ["-mode", "pb", "-pre", 2, "-progs", "0,2,4,12,14", "-tmoevery", 15]),
                    # directed search: one goroutine loses k = 1..6 compare-and-swap rounds in a row
                    # / meets a state driven away and back (ABA); every <=3-preemption tail
                    ("starve", ["-mode", "starve", "-pre", 3, "-k", 6, "-n", 2, "-tmoevery", 9]),
                    ("random", ["-mode", "random", "-n", 40, "-tmoevery", 7]),
                    ("randprog", ["-mode", "randprog", "-n", 200, "-tmoevery", 7])]
        else:
            runs = [("corpus", ["-mode", "corpus"]),
                    # every schedule of every 2-goroutine program of the catalogue
                    ("exh2", ["-mode", "exhaustive", "-progs", "2,3,4,7,8,12,13,14,15,16", "-max", 400000, "-tmoevery", 500]),
                    # every schedule with <= 2 preemptions of every program (3 and 4 goroutines included)
                    ("pb2", ["-mode", "pb", "-pre", 2, "-tmoevery", 50]),
                    ("pb3", ["-mode", "pb", "-pre", 3, "-progs", "0,1,5", "-max", 60000, "-tmoevery", 200]),
                    ("exh3", ["-mode", "exhaustive", "-progs", "0", "-max", 60000, "-tmoevery", 200]),
                    ("starve", ["-mode", "starve", "-pre", 4, "-k", 8, "-n", 20, "-max", 20000, "-tmoevery", 100]),
                    ("random", ["-mode", "random", "-n", 600, "-tmoevery", 20]),
                    ("randprog", ["-mode", "randprog", "-n", 3000, "-tmoevery", 20])]
        if not structural and quick:
            # a different algorithm (e.g. lock based) has many more yield points per call: cap the
            # enumerations of the quick tier; the widened search below has its own caps
            runs = [(t, a + (["-max", 1500] if a[1] in ("pb", "exhaustive") else
                             ["-max", 250] if a[1] == "starve" else [])) for t, a in runs]
        terms, jsons, enums, err = run_harness(ctx, binp, runs)
        if err:
            # never end here: the scheduled modes are lost (e.g. a call without any yield point: its
            # shared-memory operations are in a file or a form the instrumenter did not reach), the
            # same programs still run free (below) and, for C02, the deadline probe
            broken.append(("scheduled modes of the harness", err, {"kind": "harness"}))
            ctx.log("harness: scheduled modes FAILED - falling back to free-running runs of the same programs")
            terms, jsons, enums = [], [], []
            ctx.wg_instrumented = False
        # corpus files (minimised past failures of either gsync property) are replayed first
        cands = []
        for d in ("C01", "C02"):
            cdir = os.path.join(vlib.VERIF, "corpus", d)
            for n in sorted(os.listdir(cdir)) if os.path.isdir(cdir) else []:
                if n.endswith(".json"):
                    c = json.load(open(os.path.join(cdir, n)))
                    cands.append((c["progs"], c["sched"]))
        cterms, cjsons = replay_batch(ctx, binp, cands, "corpusfile")
        for t, j in zip(cterms, cjsons):
            if t:
                j["kind"] = "corpus-file"
                terms.insert(0, t)
                jsons.insert(0, j)
        ctx.log("harness: %d cases in %.1fs" % (len(terms), time.time() - t0))
        t0 = time.time()
        bad, nt, err = judge(ctx, judge_name, terms, "cases") if terms else ([], 0, None)
        if err:
            # (a judge that runs out of time on very long traces must not end the check either)
            broken.append(("in-kernel evaluation of the correspondence", err, {"kind": "coq_eval"}))
            ctx.log("judging FAILED (%s) - falling back to free-running runs" % err.splitlines()[0][:120])
            bad, nt = [], 0
        ctx.log("judged in Coq (%s): %d cases in %.1fs, %d bad" % (judge_name, len(terms), time.time() - t0, len(bad)))
        fails = [(i, c) for i, c in bad if c == 1]
        diffs = [(i, c) for i, c in bad if c == 2]
        if which == "pinned" and (not quick or os.environ.get("VERIF_WG_ORIG")):
            # the source is the pinned algorithm: check that the recorded traces are those of the
            # [_orig] machine, about which the refutation theorems speak
            obad, _, oerr = judge(ctx, {"C01": "c01", "C02": "c02"}[pid] + "_judge_orig", terms, "orig")
            if not oerr:
                od = sum(1 for _, c in obad if c == 2)
                ctx.cov["pinned_model_differences"] = od
                ctx.log("the %d traces compared with the model of the pinned code (wgo_exec): %d differ" % (len(terms), od))
    deadline_found = []
    if pid == "C02":
        t0 = time.time()
        deadline_found, dinfo = deadline_probe(ctx, binp)
        ctx.log("deadline probe (WaitTimeout / WaitCTX under release + re-arm): %s, %.1fs" % (dinfo, time.time() - t0))
    searched = len(terms)

    def neg_search(nprog):
        # C02's statement has no side condition on the sign of the count (C02_rest and C02_monitor are
        # proved for every program): histories in which decrements overtake the increments covering them,
        # so that zero is reached from below.  Judged without the in_domain gate (c02_judge_unc).
        nterms, njsons, nenums, err = run_harness(ctx, binp, [
            ("w_neg%d" % nprog, ["-mode", "randprog", "-n", nprog, "-neg", "-tmoevery", 1])], budget="widen")
        if err or not nterms:
            return len(terms)
        nbad, _, err = judge(ctx, judge_name + "_unc", nterms, "widen_neg%d" % nprog)
        if err:
            return len(terms)
        for j in njsons:
            j["_negsearch"] = True
        base = len(terms)
        terms.extend(nterms)
        jsons.extend(njsons)
        enums.extend(nenums)
        nf = sum(1 for _, c in nbad if c == 1)
        nd = sum(1 for _, c in nbad if c == 2)
        ctx.cov["negative_excursion_search"] = {"cases": len(nterms), "violate_the_monitor": nf, "differ_from_the_model": nd,
                                                "went_negative": sum(1 for j in njsons if not j.get("_indom", True))}
        ctx.log("negative-excursion histories (C02 unconditional, c02_judge_unc): %d cases, %d violate the monitor, %d differ from the model" % (len(nterms), nf, nd))
        fails.extend((base + i, c) for i, c in nbad if c == 1)
        diffs.extend((base + i, c) for i, c in nbad if c == 2)
        return len(terms)

    if pid == "C02" and ctx.wg_instrumented and not fails:
        # the model is compared with the real code on these histories on every run (quick: a small sample)
        searched = neg_search(120 if quick and not os.environ.get("VERIF_WG_NEG") else 1500)
    if (broken or diffs or ctx.cov.get("monitor_cross_check_disagreements")) and not fails and not deadline_found:
        # something broke but no recorded trace violates the property yet: search schedules on
        # the real code, then let the Go scheduler loose on it for a moment, before saying that
        # no failing input was found
        ctx.log("an obligation / the correspondence broke without a failing input: widening the schedule search")
        if ctx.wg_instrumented:
            wterms, wjsons, wenums, err = run_harness(ctx, binp, [
                ("w_pb2", ["-mode", "pb", "-pre", 2, "-max", 3000, "-tmoevery", 0]),
                ("w_exh", ["-mode", "exhaustive", "-progs", "2,3,4,12,14", "-max", 5000, "-tmoevery", 0]),
                ("w_rand", ["-mode", "randprog", "-n", 1500, "-tmoevery", 0])], budget="widen")
            if not err:
                wbad, _, err = judge(ctx, judge_name, wterms, "widen")
                if not err:
                    base = len(terms)
                    terms += wterms
                    jsons += wjsons
                    enums += wenums
                    searched = len(terms)
                    fails += [(base + i, c) for i, c in wbad if c == 1]
                    diffs += [(base + i, c) for i, c in wbad if c == 2]
        if not fails and pid == "C02" and ctx.wg_instrumented:
            searched = neg_search(700)
        if not fails:
            stress_found, sinfo = stress_run(ctx, binp, judge_name, 9 if ctx.wg_instrumented else 20, "search",
                                             max_traces=1500 if ctx.wg_instrumented else 6000)
            ctx.cov["stress_search"] = sinfo
            ctx.log("free-running stress:", sinfo, "- %d failing" % len(stress_found))
    # 1. failing inputs (verdict 1) first: fewest preemptions / shortest first, minimised; they
    #    get the replay slots
    fails.sort(key=lambda ic: (jsons[ic[0]]["preemptions"], len(jsons[ic[0]]["sched"]), ic[0]))
    shapes = set()
    reported = set()
    for i, code in fails:
        j = jsons[i]
        feat = features(j, code, pid)
        shape = (feat["closed_while_count_positive"], feat["wait_spins"], feat["timeout_probe_hung"])
        if shape in shapes and ctx.nreplay >= 1:
            ctx.violations.append("(not written)")
            continue
        shapes.add(shape)
        neg = bool(j.get("_negsearch"))
        ctx.wg_neg = neg
        if ctx.nreplay < 3:
            j = minimise(ctx, binp, judge_name + ("_unc" if neg else ""), j)
        ctx.wg_neg = False
        key = json.dumps([j["progs"], j["sched"]])
        if key in reported:
            ctx.violations.append("(not written)")
            continue
        reported.add(key)
        rep = {"case": view(j), "replay_input": dict({"progs": j["progs"], "sched": j["sched"]}, **({"neg": True} if neg else {})),
               "domain_note": ("the count goes NEGATIVE in this history (a decrement overtakes the increment covering it): outside the side "
                               "condition of C01 and of the client programs of C02's quantifier, inside C02's statement as written and as proved "
                               "(C02_rest holds for every program); searched only because a tie / obligation had already broken") if neg else "",
               "verdict": "the trace recorded from the real code violates the %s monitor (%s)" % (
                   pid, "c01_ok = c01_spec on this well-formed trace" if pid == "C01" else "c02_ok / WaitTimeout probe"),
               "expected": "c01_ok = true" if pid == "C01" else "c02_ok = true and WaitTimeout probe = (nil iff sum of deltas = 0)",
               "judging": ctx.cov["judging"],
               "also_unchecked": [w for w, _, _ in broken],
               "replay_cmd": "./check %s --replay <this file>" % pid}
        ctx.report(rep, features(j, code, pid), failing_input=True)
    for f in deadline_found[:2]:
        rep = dict(f)
        rep["verdict"] = "WaitTimeout / WaitCTX does not honour its deadline (WGJudge.dl_ok = false on the measurement)"
        rep["also_unchecked"] = [w for w, _, _ in broken]
        ctx.report(rep, {"kind": "deadline", "api": f["api"], "scenario": f["scenario"]}, failing_input=True)
    if len(deadline_found) > 2:
        ctx.violations += ["(not written)"] * (len(deadline_found) - 2)
    for f in stress_found[:2]:
        rep = dict(f)
        rep["verdict"] = "failing input found by the free-running run of the real code"
        rep["also_unchecked"] = [w for w, _, _ in broken]
        ctx.report(rep, {"kind": f["kind"]}, failing_input=True)
    # 2. then what only differs from the model, and the obligations that do not check - with
    #    no-failing-input-found when the search above found no violating schedule
    if ctx.cov.get("monitor_cross_check_disagreements"):
        ctx.report({"unchecked": "cross-check of the two formulations of the C01 monitor (c01_ok vs c01_decl) on the recorded traces",
                    "detail": "%d traces judged differently" % ctx.cov["monitor_cross_check_disagreements"]},
                   {"kind": "monitor_cross_check"}, failing_input=False)
    if not fails and not stress_found and not deadline_found:
        for i, code in diffs[:2]:
            j = jsons[i]
            rep = {"case": view(j), "replay_input": {"progs": j["progs"], "sched": j["sched"]},
                   "unchecked": "correspondence: the recorded trace satisfies the monitor but differs from the model's trace for the same schedule",
                   "searched": "%d schedules on the implementation and a free-running stress, none violates the monitor" % searched,
                   "replay_cmd": "./check %s --replay <this file>" % pid}
            ctx.report(rep, {"kind": "correspondence", "code": 2}, failing_input=False)
        if diffs:
            ctx.violations += ["(not written)"] * max(0, len(diffs) - 2)
        for what, d, feat in broken:
            ctx.report({"unchecked": what, "detail": d,
                        "searched": "%d schedules on the implementation (%s) and a free-running stress (%s), none violates the monitor" % (
                            searched, ctx.cov["judging"], ctx.cov.get("stress_search", "not run"))},
                       feat, failing_input=False)
    # thorough: free-running stress under the race detector (supports the tie; not a proof)
    if not quick:
        stress(ctx)
    nontriv = [j for j in jsons if j["preemptions"] > 0]
    # cases inside the property's domain (the conservative lower bound never negative), recomputed
    # here from the recorded events: the scheduler gates decrements so that ALL cases should be
    indom = sum(1 for j in jsons if j.get("_indom", True) or j.get("_negsearch"))
    complete = sum(1 for j in jsons if j.get("_complete", True))
    # vacuity guard: a trace on which calls never return satisfies every monitor; a source on which
    # most scheduled cases do not run to completion (calls longer than the step budget, a goroutine
    # that never comes back) has not been checked by them
    if jsons and ctx.wg_instrumented and complete * 2 < len(jsons):
        ctx.report({"unchecked": "scheduled modes: in %d of %d cases some call never returned within the step budget "
                                 "(%d steps per call): the monitors hold vacuously on such prefixes" % (len(jsons) - complete, len(jsons), 200)},
                   {"kind": "harness"}, failing_input=False)
    if jsons and indom < len(jsons) and ctx.wg_instrumented:
        ctx.report({"unchecked": "generator gating: %d of %d scheduled cases are outside the property's domain (lower bound negative) and were judged 0" % (len(jsons) - indom, len(jsons))},
                   {"kind": "harness"}, failing_input=False)
    probes = [p for j in jsons for p in (j.get("probes") or [])]
    ctx.cov.update({
        "in_domain_cases": indom,
        "cases_run_to_completion": complete,
        "calls_through_inc_dec": sum(1 for j in jsons for p in j["progs"] for c in p if c.get("via")),
        "rest_probes": {"count": len(probes),
                        "WaitTimeout": hist(["nil", "ErrWGTimeout", "hung", "not called"][p["code"] // 4] for p in probes),
                        "WaitCTX_cancelled_ctx": hist(["nil", "ctx error", "hung", "not called"][p["code"] % 4] for p in probes)},
        "evaluations": len(jsons),
        "steps_compared": sum(j.get("_nobs", len(j.get("obs", []))) for j in jsons),
        "distinct_nontrivial": vlib.distinct_count([[j["progs"], j["sched"]] for j in nontriv]),
        "nontrivial_in_coq": nt,
        "rule": "case = (client program, schedule) replayed on the instrumented real code; non-trivial = the "
                "schedule preempts a goroutine that could still move at least once (so two calls overlap); "
                "distinct by (program, schedule); nontrivial_in_coq = cases where some micro-step ran while "
                "another goroutine was inside a call (counted by WGJudge.wg_nontrivial)",
        "by_kind": hist(j["kind"] for j in jsons),
        "by_program": hist(j["name"] for j in jsons),
        "preemptions_histogram": hist(j["preemptions"] for j in jsons),
        "schedule_length_histogram": hist(10 * (len(j["sched"]) // 10) for j in jsons),
        "threads_histogram": hist(len(j["progs"]) - 1 for j in jsons),
        "timeout_probes": hist({0: "nil", 1: "ErrWGTimeout", 2: "hung", 3: "not probed"}[j["tmo"]] for j in jsons),
        "enumerations": enums,
        "distinct_traces": len({j.get("_thash", id(j)) for j in jsons}),
        "exhaustive": (not quick),
        "exhaustive_note": "thorough: every schedule of every 2-goroutine catalogue program (2,3,4,7,8,12-16; 12-14 exercise Add(0), 15-16 Add(+3)/Add(-3)/Add(-2)) and of program 0, every <=2-preemption schedule of the whole catalogue (3 and 4 goroutines), <=3 preemptions for programs 0,1,5; quick: every <=1-preemption schedule of the catalogue, <=2 for five programs, plus random schedules and random programs; counts per program in `enumerations` (complete = the enumeration finished below its cap)",
        "samples": [view(j) for j in jsons[:1] + jsons[len(jsons) // 2:len(jsons) // 2 + 1]],
        "violating_cases": len(fails) + len(stress_found), "model_differences": len(diffs),
    })
    ctx.log("correspondence: %d cases (%d run to completion), %d steps, %d violate the monitor, %d differ from the model" % (
        len(jsons), complete, ctx.cov["steps_compared"], len(fails), len(diffs)))


def stress(ctx):
    """thorough tier: 20 s of free-running runs under the race detector"""
    binr, log = ctx.build_harness("c01", tags="verif wginstr", race=True)
    if not binr:
        ctx.cov["stress_race"] = "not run: race build failed (cgo/gcc unavailable?)"
        ctx.log("stress: race build failed, skipped")
        return
    found, info = stress_run(ctx, binr, "c01_trace_judge", 20, "race", max_traces=3000)
    ctx.cov["stress_race"] = info
    for f in found[:2]:
        ctx.report(dict(f, verdict="failing input found by the free-running run under the race detector"),
                   {"kind": f["kind"]}, failing_input=True)
    ctx.log("stress (-race):", info, "- %d failing" % len(found))


def replay(ctx, pid, path):
    """re-run the recorded program + schedule on the current tree, judge it, print the steps"""
    rep = json.load(open(path))
    inp = rep.get("replay_input")
    if rep.get("kind") == "deadline":
        binp, ir, log = prepare(ctx)
        if not binp:
            print(log)
            return 2
        found, info = deadline_probe(ctx, binp)
        print(json.dumps(ctx.cov.get("deadline_probe"), indent=1))
        print(info)
        for f in found:
            print("VIOLATION reproduced: %s, %s: answered %s after %d ms (bound %d ms)" % (
                f["call"], f["driver"], f["answer"], f["measured_ms"], f["bound_ms"]))
        return 1 if found else 0
    if not inp:
        print(json.dumps(rep, indent=1)[:3000])
        print("this replay names an unchecked obligation; re-run ./check %s" % pid)
        return 0
    binp, ir, log = prepare(ctx)
    if not binp:
        print(log)
        return 2
    progs = [list(p) for p in inp["progs"][:-1]]
    ctx.wg_neg = bool(inp.get("neg"))
    terms, jsons = replay_batch(ctx, binp, [(progs, inp["sched"])], "replay")
    if not terms[0]:
        print("replay run failed")
        return 2
    tok, which = False, "unknown"
    if ir:
        tok, which, _ = tie(ctx, ir)
    structural = which in ("current", "equivalent", "same-sites")
    ctx.wg_sparse = not structural
    if ctx.wg_sparse:
        terms, jsons = replay_batch(ctx, binp, [(progs, inp["sched"])], "replay2")
    judge_name = {"C01": "c01", "C02": "c02"}[pid] + ("_judge" if structural else "_trace_judge")
    if inp.get("neg") and pid == "C02":
        judge_name += "_unc"
    bad, _, err = judge(ctx, judge_name, [terms[0]], "replay")
    print(json.dumps(view(jsons[0]), indent=1))
    if err:
        print(err)
        return 2
    code = bad[0][1] if bad else 0
    print({0: "OK: the trace satisfies the monitor and equals the model's trace",
           1: "VIOLATION reproduced: the trace violates the %s monitor" % pid,
           2: "the trace satisfies the monitor but differs from the model"}[code])
    return 1 if code else 0
