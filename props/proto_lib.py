"""proto_lib — helpers of the C20 check (gogenproto): building the real CLI, the recording
stub and the harness from the scratch copy; running harness modes; in-kernel judgement;
delta-debugging of a failing case through the harness' spec mode."""
import concurrent.futures
import copy
import json
import os
import re
import time

import vlib

HEADER = ("From Coq Require Import String List Bool Arith NArith.\nImport ListNotations.\n"
          "From GT Require Import Base.Verdict ProtoModel ProtoJudge.\n"
          "Local Open Scope string_scope.\n")

CLI_PKG = "github.com/drshriveer/gtools/gogenproto/cmd/gogenproto"


EXPORT_VERIF = """//go:build verif

package gen

// ProtoFileHasGoPackageForVerif exposes protoFileHasGoPackage to the verification harness
// (file added to the scratch copy of the tree only).
func ProtoFileHasGoPackageForVerif(path string) (bool, error) { return protoFileHasGoPackage(path) }
"""


def scan_stream(ctx, tools, quick):
    """the byte scanner alone: protoFileHasGoPackage on files of generated contents, judged in the kernel against
    ProtoLex.scan_go_package (model) and declares_go_package (specification).  Returns (bad, n, declares, err):
    bad = list of (json case, code)"""
    t, j, err = run_harness(ctx, tools, "scan", ["-mode", "scan", "-flagsets", 2 if quick else 3,
                                                 "-n", 1500 if quick else 30000])
    if err:
        return [], 0, 0, err
    # short contents in big shards; the long ones (buffer-boundary files up to 200 KB, written as repeated pieces)
    # apart, a few hundred per shard
    short = [i for i in range(len(t)) if "repN" not in t[i]]
    long_ = [i for i in range(len(t)) if "repN" in t[i]]
    bad, nt = [], 0
    for idx, shard, tag in ((short, 1500, "scan"), (long_, 60, "scanlong")):
        if not idx:
            continue
        b, n, err = ctx.judge_cases(HEADER, "scase", "scan_judge", [t[i] for i in idx], shard=shard,
                                    nontrivial=("scan_declares" if tag == "scan" else None), tag=tag)
        if err:
            return [], len(t), 0, err
        bad += [(j[idx[k]], c) for k, c in b]
        nt += n
    return bad, len(t), nt, None


def build_tools(ctx):
    """harness + stub + the real gogenproto CLI, all compiled against the scratch copy (the three
    `go build`s run side by side)"""
    h = ctx.harness_module()
    cli = os.path.join(ctx.scratch, "bin", "gogenproto")
    os.makedirs(os.path.dirname(cli), exist_ok=True)

    def build_cli():
        rc, log = vlib.sh(["go", "build", "-trimpath", "-o", cli, CLI_PKG], cwd=h, env=vlib.go_env(),
                          timeout=900)
        return (cli if rc == 0 else None), log

    with concurrent.futures.ThreadPoolExecutor(max_workers=3) as ex:
        f1 = ex.submit(ctx.build_harness, "c20")
        f2 = ex.submit(ctx.build_harness, "c20stub")
        f3 = ex.submit(build_cli)
        (binp, log1), (stub, log2), (clip, log3) = f1.result(), f2.result(), f3.result()
    if not binp:
        return None, "harness c20:\n" + log1
    if not stub:
        return None, "stub c20stub:\n" + log2
    if not clip:
        return None, "gogenproto CLI of the current tree does not build:\n" + log3
    work = os.path.join(ctx.scratch, "c20work")
    os.makedirs(work, exist_ok=True)
    return {"harness": binp, "stub": stub, "cli": cli, "work": work}, ""


def run_harness(ctx, tools, tag, args, timeout=30000, seed=None):
    prefix = os.path.join(ctx.scratch, "cases_%s" % tag)
    cmd = [tools["harness"], "-seed", str(ctx.seed if seed is None else seed), "-out", prefix, "-cli", tools["cli"],
           "-stub", tools["stub"], "-work", tools["work"]] + [str(a) for a in args]
    rc, out = vlib.sh(cmd, env=vlib.go_env(), timeout=timeout)
    if rc != 0:
        return [], [], "harness %s failed (rc %d):\n%s" % (tag, rc, out[-3000:])
    t = open(prefix + ".cases").read().splitlines()
    j = [json.loads(l) for l in open(prefix + ".jsonl").read().splitlines()]
    for x in j:
        if "spec" in x:
            x["spec"]["includes"] = x["spec"].get("includes") or []
            x["spec"]["tree"] = x["spec"].get("tree") or []
    if len(t) != len(j):
        return [], [], "harness %s wrote %d terms but %d json cases" % (tag, len(t), len(j))
    return t, j, None


def run_specs(ctx, tools, tag, specs, real_oracle=True):
    """run explicit specs (each carries its own single flag setting)"""
    p = os.path.join(ctx.scratch, "specs_%s.jsonl" % tag)
    with open(p, "w") as f:
        for s in specs:
            s = dict(s)
            s["flagsets"] = [(1 if s.get("recurse") else 0) | (2 if s.get("vt") else 0)
                             | (4 if s.get("grpc") else 0)]
            f.write(json.dumps(s) + "\n")
    return run_harness(ctx, tools, tag, ["-mode", "spec", "-spec", p] + ([] if real_oracle else ["-norealoracle"]))


def judge(ctx, terms, fn="proto_judge", tag="cases", count=None, shard=120):
    return ctx.judge_cases(HEADER, "pcase", fn, terms, shard=shard, nontrivial=count, tag=tag)


DIFF_BITS = [(1, "runs"), (2, "files"), (4, "includes"), (8, "mappings_go"),
             (16, "mappings_vtproto"), (32, "mappings_grpc"), (64, "plugins")]


def decode_sig(sig):
    """proto_judge_sig -> (verdict code, list of differing observables)"""
    return sig % 4, [n for b, n in DIFF_BITS if (sig // 4) & b]


def spec_diff(ctx, term, tag="diff"):
    v = HEADER + "Definition D := Eval vm_compute in (spec_diff (%s)).\nPrint D.\n" % term
    rc, out = ctx.coq_eval("%s_%s" % (tag, ctx.pid), v)
    if rc != 0:
        return ["?"]
    m = re.search(r"D\s*=\s*\[(.*?)\]\s*:\s*list", out, re.S)
    return re.findall(r'"([^"]*)"', m.group(1)) if m else ["?"]


def _under(path, d):
    return path == d or path.startswith(d + "/")


def candidates(spec):
    """one-step reductions of a spec, biggest first"""
    out = []
    tree = spec["tree"]
    keep_dirs = {spec["cwd"], spec["input"]["path"]} | {i["dir"]["path"] for i in spec["includes"]}
    dirs = sorted({e["path"] for e in tree if e["kind"] == "dir"}, key=lambda d: d.count("/"))
    for d in dirs:
        if any(_under(k, d) for k in keep_dirs):
            continue
        s = copy.deepcopy(spec)
        s["tree"] = [e for e in tree if not _under(e["path"], d)]
        out.append(s)
    for k in range(len(spec["includes"])):
        s = copy.deepcopy(spec)
        del s["includes"][k]
        out.append(s)
    for k, e in enumerate(tree):
        if e["kind"] != "dir":
            s = copy.deepcopy(spec)
            del s["tree"][k]
            out.append(s)
    for fl in ("recurse", "vt", "grpc"):
        if spec.get(fl):
            s = copy.deepcopy(spec)
            s[fl] = False
            out.append(s)
    for k, inc in enumerate(spec["includes"]):
        if inc["has_prefix"]:
            s = copy.deepcopy(spec)
            s["includes"][k]["has_prefix"] = False
            s["includes"][k]["prefix"] = ""
            out.append(s)
        if inc["dir"]["form"] != "rel":
            s = copy.deepcopy(spec)
            s["includes"][k]["dir"]["form"] = "rel"
            out.append(s)
    if spec["input"]["form"] not in ("rel", "raw"):
        s = copy.deepcopy(spec)
        s["input"]["form"] = "rel"
        out.append(s)
    if spec.get("comma_join"):
        s = copy.deepcopy(spec)
        s["comma_join"] = False
        out.append(s)
    return out


def spec_size(spec):
    return (len(spec["tree"]) + 2 * len(spec["includes"]) + sum(1 for f in ("recurse", "vt", "grpc") if spec.get(f)))


def merged(spec, cands):
    """all the given one-step reductions of `spec` applied at once (tree entries and includes
    removed by any of them are removed, flags cleared by any of them are cleared)"""
    s = copy.deepcopy(spec)
    key = lambda e: json.dumps(e, sort_keys=True)
    keep_tree = set(key(e) for e in spec["tree"])
    keep_inc = set(key(i) for i in spec["includes"])
    simple = True
    for c in cands:
        keep_tree &= set(key(e) for e in c["tree"])
        if len(c["includes"]) < len(spec["includes"]):
            keep_inc &= set(key(i) for i in c["includes"])
        elif c["includes"] != spec["includes"] or c["input"] != spec["input"]:
            simple = False          # spelling / prefix changes are not merged
        for fl in ("recurse", "vt", "grpc", "comma_join"):
            if spec.get(fl) and not c.get(fl):
                s[fl] = False
    s["tree"] = [e for e in spec["tree"] if key(e) in keep_tree]
    s["includes"] = [i for i in spec["includes"] if key(i) in keep_inc]
    # the directories named by the configuration stay
    need = {s["cwd"], s["input"]["path"]} | {i["dir"]["path"] for i in s["includes"]}
    have = {e["path"] for e in s["tree"]}
    for e in spec["tree"]:
        if e["kind"] == "dir" and e["path"] not in have and any(_under(k, e["path"]) for k in need):
            s["tree"].append(e)
    return s, simple


def minimise(ctx, tools, j, sig, rounds=14, deadline=None):
    """greedy delta debugging: keep a reduction that is still judged with the same signature
    (same verdict, no new differing observable), so the case cannot drift into a different
    failure (e.g. an include directory that no longer exists).  Every round tries all one-step
    reductions side by side, then all the successful ones at once; it stops at `deadline`
    (time.time() value) — the case reported is then the smallest one reached.  The real
    PackageNameFromPath helper is not called in these rounds (the tool's own calls are what the
    verdict depends on).  Returns (case, sig)."""
    best = j

    def ok(c):
        return c % 4 == sig % 4 and (c // 4) & ~(sig // 4) == 0

    for rnd in range(rounds):
        if deadline is not None and time.time() > deadline:
            break
        cands = candidates(best["spec"])
        if not cands:
            break
        terms, jsons, err = run_specs(ctx, tools, "min%d" % rnd, cands, real_oracle=False)
        if err or not terms:
            break
        bad, _, err = judge(ctx, terms, fn="proto_judge_sig", tag="min%d" % rnd, shard=4000)
        if err:
            break
        same = [(i, c) for i, c in bad if ok(c)]
        if not same:
            break
        nbest, nsig = jsons[same[0][0]], same[0][1]
        if len(same) > 1 and not (deadline is not None and time.time() > deadline):
            m, _ = merged(best["spec"], [jsons[i]["spec"] for i, _ in same])
            if spec_size(m) < spec_size(nbest["spec"]):
                t2, j2, err = run_specs(ctx, tools, "minm%d" % rnd, [m], real_oracle=False)
                if not err and t2:
                    b2, _, err = judge(ctx, t2, fn="proto_judge_sig", tag="minm%d" % rnd, shard=4000)
                    if not err and b2 and ok(b2[0][1]):
                        nbest, nsig = j2[0], b2[0][1]
        best, sig = nbest, nsig
        ctx.log("minimise round %d: %d candidates, %d keep the signature, size now %d" % (
            rnd, len(cands), len(same), spec_size(best["spec"])))
    return best, sig


def view(j):
    """compact form of a case for replay files / evidence samples"""
    v = {k: j[k] for k in ("kind", "spec", "cli_args", "cwd_abs", "runs", "stub_cwd", "argv", "rc")
         if k in j}
    if j.get("stderr"):
        v["stderr"] = j["stderr"]
    v["oracle"] = j.get("oracle")
    if j.get("oracle_package_name_from_path"):
        v["oracle_package_name_from_path"] = j["oracle_package_name_from_path"]
    return v
