"""C09 — gerror: generated extension types match the base type on every method."""
import concurrent.futures
import json
import os

import gerr_lib as gl
import vlib

META = {
    "property_id": "C09",
    "level": "proof",
    "technique": "Coq theorems over the store model of CloneBase, the base and generated method wiring, "
                 "toPrimaryType and the generated Error(): generated wiring = base wiring for all 19 "
                 "methods, hence equal name/message/source/tag/stack for all arguments; clone and print "
                 "tag laws; both wiring tables regenerated on every run (go/ast translator: gerror.go and "
                 "the code the real CLI generates for every struct of a farm) and checked equal to the "
                 "model by computation; the print list of the generated Error() and the field copies of "
                 "toPrimaryType of every farm struct regenerated as canonical descriptions (selectors "
                 "resolved against the struct's own members) and compared with the descriptions proved "
                 "to print/clone as the model; in-kernel correspondence on the farm (0-6 extra fields, all tag "
                 "kinds, with/without -skipConvertGen, all 19 methods, base vs generated from one call site)",
    "design_ref": "DESIGN.md §4 C09",
    "level_text": "Proof: GErrExtProofs.v shows that the wiring table of the generated methods equals that "
                  "of GError's own methods for all 19 methods, hence (for every store, every pair of a "
                  "plain and an extension factory with equal base fields, every method, all arguments) "
                  "the results have equal name, message, source, detail tag and stack; that the result "
                  "is the struct toPrimaryType builds (clone-tagged fields copied, others zero, stable "
                  "along chains); and that the generated Error() is the base prefix, then exactly the "
                  "print-tagged fields (each once, ordered by field name, under the tag name or, for "
                  "'_', the field name), then the message (Props/C09.v, closed under the global "
                  "context); a declarative print specification (some name-ordered arrangement of exactly the "
                  "print-tagged fields) with a uniqueness theorem, so that comparing an observed head with "
                  "the model's text decides it (C09_print_spec_decided); the base part of the rendering "
                  "never reads an extension field, also one named Name/Source/Message (C09_desc_base_part). "
                  "The pinned template's SrcS defect is kept as C09_wiring_orig_refuted / "
                  "C09_fields_orig_refuted. Tied to the source by regenerating both wiring tables from "
                  "gerror.go and from the output of the current gerror CLI on every farm struct (tie by "
                  "vm_compute), by regenerating the Error() print list and the toPrimaryType copies of every "
                  "farm struct (tie with expected_desc / expected_primary, C09_desc_head, C09_desc_primary) "
                  "and by running base and generated methods side by side on the farm and "
                  "judging every observation inside Coq.",
    "level_note": "Trusted: Coq 8.16.1 kernel + vm_compute; hand-written model (fidelity checked by the two "
                  "ties); fmt's %v rendering of field values and fmt.Sprintf of formats (recorded, enter "
                  "the model as strings); structtag parsing (the farm records the tag it wrote, the "
                  "generated code is observed); derived source/stack origin as per-call-site oracle; Go "
                  "compiler acceptance of generated code is exercised, not proved. No axioms.",
    "allowed_axioms": [],
}

TRUSTED = [
    "Coq 8.16.1 kernel and VM (vm_compute); no axioms (Print Assumptions: closed under the global context)",
    "hand-written model GErrModel.v (ext_wiring = the 19 stanzas of gerror.gotmpl, to_primary = toPrimaryType, ext_error_head = generated Error(), print_name/f_print/f_clone = createField); tied by the translator (wiring of every farm struct's generated code = ext_wiring, wiring of gerror.go = base_wiring, by vm_compute) and by correspondence",
    "fmt: %v renderings of field values and fmt.Sprintf(format, elems...) are recorded from the real fmt and enter the model as strings; github.com/fatih/structtag parses the tags (the farm records what it wrote)",
    "runtime.Callers: base and generated method are issued from one function, the derived source is the oracle string main:callBoth",
    "Go harnesses harness/cmd/c09gen (farm writer) and harness/cmd/c09, the gerror CLI built from the current tree, Go 1.23 toolchain (the generated code must compile: exercised, not proved)",
]

HEADER = ("From Coq Require Import NArith List Bool.\nImport ListNotations.\n"
          "From GT Require Import Base.Verdict Base.GErrStr GErrModel GErrSpec GErrJudge GErrExtJudge.\n")
CASE_T, JUDGE = "c09_case", "c09_judge"
# must be judged bad: generated SrcS result lacks the given source
CANARY = ("{| n_fields := []; n_name := [69]%N; n_msg := []; n_src := []; "
          "n_steps := [(MSrcS, mkA [115]%N [] [] VNil [] 0 [109]%N)]; "
          "n_base := [(mkV [69]%N [] [115]%N [] (Some 0%N))]; n_gen := [(mkV [69]%N [] [109]%N [] (Some 0%N))]; "
          "n_heads := [[]]; n_bheads := [[]]; n_suffix_ok := [true]; n_fvals := [[]] |}")


_DEFS = {}   # farm struct definitions of the current run (for reports)


def struct_source(d):
    """Go source of a farm struct, for failing-input reports"""
    lines = ["type %s struct {" % d["name"]]
    bp = d.get("base_pos") or 0
    fields = d.get("fields") or []
    for fi, f in enumerate(fields):
        if fi == bp:
            lines.append("\tgerror.GError")
        decl = f["type"] if f.get("embedded") else "%s %s" % (f["name"], f["type"])
        lines.append("\t%s%s" % (decl, (" `%s`" % f["tag"]) if f["tag"] else ""))
    if bp >= len(fields):
        lines.append("\tgerror.GError")
    lines.append("}" + ("   // generated with -skipConvertGen" if d.get("skip") else ""))
    return "\n".join(lines)


def attribute_build_errors(d, log):
    """map compiler messages about generated files to the farm structs they belong to"""
    import re
    broken = {}
    cache = {}
    for m in re.finditer(r"cmd/c09/(farm_\w+\.gerror\.go):(\d+):\d+: ([^\n]*)", log):
        fname, line, msg = m.group(1), int(m.group(2)), m.group(3)
        if fname not in cache:
            try:
                cache[fname] = open(os.path.join(d, fname)).read().splitlines()
            except OSError:
                cache[fname] = []
        src = cache[fname]
        name = None
        for k in range(min(line, len(src)) - 1, -1, -1):
            mm = re.match(r"func \(\w+ \*(\w+)\)", src[k])
            if mm:
                name = mm.group(1)
                break
        if name:
            broken.setdefault(name, []).append("%s:%d: %s" % (fname, line, msg))
    return broken


def prepare(ctx, nrandom):
    """farm written by c09gen, methods generated by the current CLI, harness built.  Structs whose
    generated code does not compile are recorded (they are failing inputs: program = the struct
    definition), left out, and the farm is generated again without them."""
    cli, log = gl.build_gerror_cli(ctx)
    if not cli:
        return None, "gerror CLI build failed:\n" + log
    genb, log = ctx.build_harness("c09gen")
    if not genb:
        return None, "c09gen build failed:\n" + log
    h = ctx.harness_module()
    d = os.path.join(h, "cmd", "c09")
    broken, alldefs = {}, {}
    for attempt in range(4):
        args = [genb, "-seed", str(ctx.seed), "-n", str(nrandom), "-dir", d]
        if broken:
            args += ["-exclude", ",".join(sorted(broken))]
        rc, out = vlib.sh(args, timeout=120)
        if rc != 0:
            return None, "c09gen failed:\n" + out
        names = json.loads(out.strip().splitlines()[-1])
        alldefs.update(names.get("defs", {}))
        for fn in ("farm_gen.gerror.go", "farm_skip.gerror.go"):
            try:
                os.remove(os.path.join(d, fn))
            except OSError:
                pass
        with concurrent.futures.ThreadPoolExecutor(max_workers=2) as ex:
            fa = ex.submit(gl.run_gerror_cli, ctx, cli, d, "farm_gen.go", names["gen"])
            fb = ex.submit(gl.run_gerror_cli, ctx, cli, d, "farm_skip.go", names["skip"], True)
            for f, what in ((fa, "farm_gen.go"), (fb, "farm_skip.go (-skipConvertGen)")):
                rc, out = f.result()
                if rc != 0:
                    return None, "the gerror CLI failed on %s:\n%s" % (what, out)
        binp, log = ctx.build_harness("c09", tags="verif gerrgen")
        if binp:
            return {"dir": d, "names": names, "bin": binp, "broken": broken, "defs": alldefs}, None
        newly = attribute_build_errors(d, log)
        newly = {k: v for k, v in newly.items() if k not in broken}
        if not newly:
            return None, "generated code / harness does not build:\n" + log
        broken.update(newly)
    return None, "generated code / harness does not build after leaving out %s:\n%s" % (sorted(broken), log)


def ties(ctx, farm):
    """(T) wiring of gerror.go = base_wiring; wiring of the generated code of EVERY farm struct =
    ext_wiring (one Coq file, all by vm_compute)"""
    broken = []
    ok, detail = gl.tie_base_wiring(ctx)
    if not ok:
        broken.append(("wiring of gerror/gerror.go differs from GErrModel.base_wiring", detail))
    d = farm["dir"]
    parts, n = [], 0
    for kind, files in (("gen", ["farm_gen.gerror.go"]), ("skip", ["farm_skip.gerror.go", "farm_skip.go"])):
        paths = ",".join(os.path.join(d, f) for f in files)
        for t in farm["names"][kind]:
            rc, txt = gl.xlate(ctx, ["-gen", paths, "-type", t, "-name", "gen_wiring_%s" % t])
            if rc != 0:
                broken.append(("generated methods of struct %s are not of the translatable shape" % t, txt))
                continue
            parts.append(txt + "\nLemma tie_%s : map gen_wiring_%s all_methods = map ext_wiring all_methods.\n"
                         "Proof. vm_compute. reflexivity. Qed.\n" % (t, t))
            n += 1
    v = "From Coq Require Import List.\nImport ListNotations.\nFrom GT Require Import GErrModel.\n" + "\n".join(parts)
    rc, out = ctx.coq_eval("GErrWiringGen_C09", v, timeout=600)
    if rc != 0:
        broken.append(("wiring of the generated methods (template gerror.gotmpl read through the CLI's output) "
                       "differs from GErrModel.ext_wiring", out))
        ctx.cov["tie_T"] = "BROKEN"
    else:
        ctx.cov["tie_T"] = ("base: %s; generated: wiring of all %d farm structs = GErrModel.ext_wiring by vm_compute "
                            "(and C09_wiring proves ext_wiring = base_wiring)" % (detail if ok else "BROKEN", n))
    return broken


def gal_str(s):
    """a Go string as a GErrStr.str literal (list of code points)"""
    return "([" + ";".join(str(ord(c)) for c in s) + "]%N : str)" if s else "([] : str)"


def desc_ties(ctx, farm):
    """(T) for the rest of the generated code: the print list of Error() and the field copies of
    toPrimaryType of EVERY farm struct are regenerated from the CLI's output (selectors resolved
    against the struct's own members) and compared, by computation, with expected_desc /
    expected_primary of the struct's declared fields (GErrExtDesc.v; Props/C09.v C09_desc_head,
    C09_desc_primary show that such a type prints and clones as the model says)"""
    broken = []
    d = farm["dir"]
    parts, n = [], 0
    for kind, gens, src in (("gen", ["farm_gen.gerror.go"], "farm_gen.go"), ("skip", ["farm_skip.gerror.go"], "farm_skip.go")):
        paths = ",".join(os.path.join(d, f) for f in gens)
        for t in farm["names"][kind]:
            rc, txt = gl.xlate(ctx, ["desc", "-gen", paths, "-src", os.path.join(d, src), "-type", t, "-name", t])
            if rc != 0:
                broken.append(("Error()/toPrimaryType generated for struct %s are not of a translatable shape" % t, txt))
                continue
            # expected lists are computed from src_fields_T = the struct DEFINITION as the translator reads it from
            # the farm source (named and anonymous fields, parsed gerror tags), not from the generated code
            parts.append(txt +
                         "Lemma tie_desc_%s : desc_eqb gen_error_desc_%s (expected_desc src_fields_%s) = true\n"
                         "  /\\ names_eqb gen_primary_%s (expected_primary src_fields_%s) = true.\n"
                         "Proof. vm_compute. split; reflexivity. Qed.\n" % (t, t, t, t, t))
            n += 1
    v = ("From Coq Require Import NArith List Bool.\nImport ListNotations.\n"
         "From GT Require Import Base.GErrStr GErrModel GErrExtDesc.\n" + "\n".join(parts))
    rc, out = ctx.coq_eval("GErrDescGen_C09", v, timeout=600)
    if rc != 0:
        broken.append(("print list of the generated Error() or field copies of toPrimaryType (template gerror.gotmpl read through "
                       "the CLI's output) differ from GErrExtDesc.expected_desc / expected_primary", out))
        ctx.cov["tie_T_desc"] = "BROKEN"
    else:
        ctx.cov["tie_T_desc"] = ("Error() print list and toPrimaryType copies of all %d farm structs = expected_desc / expected_primary "
                                 "of their declared fields, by vm_compute" % n)
    return broken


def features(j, code):
    s = j["steps"][-1] if j["steps"] else {}
    what = []
    if j.get("gen") != j.get("base"):
        for k in ("name", "msg", "src", "dtag", "stack"):
            if any(g.get(k) != b.get(k) for g, b in zip(j["gen"], j["base"])):
                what.append(k)
    law = "fields" if what else "print"
    for row in j.get("fvals", []):
        for f, v in zip(j.get("fields", []), row):
            if f.get("tagged") and "clone" in (f.get("opts") or []) and not v.get("deq"):
                law = "clone" if not what else law
    pct = any(f.get("tagged") and "print" in (f.get("opts") or []) and "%" in f.get("tagname", "") for f in j.get("fields", []))
    return {"kind": j.get("kind", "").split("/")[0], "code": code, "method": s.get("m", ""), "differs": ",".join(what),
            "percent_in_print_name": pct, "law": law if code == 1 else "model",
            "skip_convert_gen": j.get("skip"), "panic": bool(j.get("panic"))}


def normalise(jsons):
    for j in jsons:
        for k in ("fields", "steps", "base", "gen", "heads", "bheads", "suffix_ok", "fvals", "fac_vals", "zero_vals"):
            j[k] = j.get(k) or []
        for f in j["fields"]:
            f["opts"] = f.get("opts") or []


def minimise(ctx, binp, j, code):
    """a two-step chain is cut to the failing single step when that still fails"""
    if len(j["steps"]) < 2 or ctx.nreplay >= 5:
        return j
    cands = [dict(j, steps=[s]) for s in j["steps"]]
    terms, jsons, err = gl.run_replay(ctx, binp, [{k: c[k] for k in ("type", "name", "msg", "src", "steps")} for c in cands],
                                      "min%d" % ctx.nreplay)
    if err:
        return j
    normalise(jsons)
    bad, _, err = gl.judge(ctx, CASE_T, JUDGE, terms, CANARY, header=HEADER, tag="min%d" % ctx.nreplay)
    for i, c in (bad or []):
        if c == code:
            jsons[i]["kind"] = j.get("kind", "") + "/minimised"
            return jsons[i]
    return j


def judge_and_report(ctx, rp, binp, terms, jsons, quick, tag, seen, only_v1=False):
    """judge; verdict-1 cases (one per distinct failing shape, minimised) are reported first,
    verdict-2 / out-of-domain cases are deferred"""
    normalise(jsons)
    bad, nt_coq, err = gl.judge(ctx, CASE_T, JUDGE, terms, CANARY, shard=120 if quick else 250,
                                nontrivial="c09_nontrivial", header=HEADER, tag=tag)
    if err:
        rp.defer("in-kernel evaluation of the correspondence", err, "coq_eval")
        return None, 0
    for i, code in sorted(bad, key=lambda b: (b[1] != 1, b[0])):
        j = jsons[i]
        ft = features(j, code)
        key = (ft["method"] if ft["differs"] else "", ft["differs"], ft["code"], ft["panic"], ft["percent_in_print_name"], ft["law"])
        if key in seen:
            continue
        seen.add(key)
        if code == 1:
            j = minimise(ctx, binp, j, code)
            j = dict(j, struct=struct_source({"name": j["type"], "fields": j["fields"], "skip": j.get("skip"),
                                              "base_pos": (_DEFS.get(j["type"]) or {}).get("base_pos")}))
            rep = {"case": j,
                   "verdict": "generated method's result differs from the base method's, or clone/print law violated",
                   "replay_cmd": "./check C09 --replay <this file>"}
            if rp.failing(rep, features(j, code)) == "violation" and j["type"][0] in "GKOHREP":
                # only replayable on farms that contain the struct: keep fixed-farm structs only
                gl.write_corpus_hit("C09", {k: j[k] for k in ("type", "name", "msg", "src", "steps")})
        elif not only_v1 and len(rp.pending) < 8:
            what = ("harness produced a case outside the property's domain" if code == 3 else
                    "correspondence: observation satisfies the specification but differs from the Coq model")
            rp.defer(what, json.dumps(j)[:2500], "harness" if code == 3 else "model_mismatch", {"case": j})
    return bad, nt_coq


def run(ctx):
    ctx.trusted = TRUSTED
    ctx.assumptions = [
        "extension structs embed gerror.GError directly and are used through factories made with FactoryOf",
        "extension fields may be named like GError's exported fields (Name, Source, Message: they shadow the promoted field; covered by the farm); a field or method named like a method of gerror.Error (ErrSource, Is, Unwrap, Base, ...) makes the struct stop implementing gerror.Error or clash with the generated methods, i.e. it is not an extension type at all; with -skipConvertGen the user-written Convert/ConvertS have the documented body",
        "Convert/ConvertS of values that already are gerror errors (returned unchanged) are covered by C06; here their argument is nil or foreign",
        "Error() is compared up to the stack text: head = text before \"\\n\" + stack.String(), the stack text itself is only required to follow",
    ]
    rp = gl.Reporter(ctx)
    rp.obligations()
    quick = ctx.tier == "quick"
    farm, err = prepare(ctx, 21 if quick else 140)
    if err:
        rp.defer("generator farm: CLI run / build of generated code against the current tree", err, "build")
        rp.flush()
        return
    _DEFS.update(farm.get("defs") or {})
    for what, detail in ties(ctx, farm) + desc_ties(ctx, farm):
        rp.defer("tie T: " + what, detail, "tie")
    binp = farm["bin"]
    # structs whose generated code does not compile: the struct definition is the failing input
    reported_build = 0
    for name in sorted(farm["broken"], key=lambda n: (len(farm["defs"].get(n, {}).get("fields", [])), n)):
        d = farm["defs"].get(name, {"name": name, "fields": []})
        if reported_build >= 2:
            ctx.log("generated code of struct %s does not compile either (not reported separately)" % name)
            continue
        reported_build += 1
        rp.failing({"case": {"type": name, "struct": struct_source(d), "fields": d.get("fields"),
                             "skip_convert_gen": d.get("skip"), "method": "(all: the generated file does not compile)",
                             "build_errors": farm["broken"][name][:6]},
                    "verdict": "the code the gerror generator emits for this extension struct does not compile",
                    "replay_cmd": "./check C09 --tier %s (VERIF_SEED=%d)" % (ctx.tier, ctx.seed)},
                   {"kind": "build", "law": "build", "code": 1, "method": "", "differs": "", "panic": False,
                    "percent_in_print_name": False, "skip_convert_gen": d.get("skip"),
                    "nfields": len(d.get("fields", []))})
    runs = [("all", ["-mode", "all", "-chains", 4 if quick else 12, "-presets", 1 if quick else 4])]
    terms, jsons, err = vlib.harness_cases(ctx, binp, runs)
    corpus_inputs = [c for c in gl.load_corpus("C09")]
    if not err and corpus_inputs:
        t2, j2, err = gl.run_replay(ctx, binp, corpus_inputs, "corpusdir")
        terms, jsons = t2 + terms, j2 + jsons
    if err:
        rp.defer("harness run", err, "harness")
        rp.flush()
        return
    # Factory methods outside the 19 the model knows, probed by reflection on every farm struct
    try:
        extra = json.load(open(os.path.join(ctx.scratch, "cases_all.extra.json"))) or []
    except (OSError, ValueError):
        extra = []
    ctx.cov["unknown_factory_methods_probed"] = sorted({e["method"] for e in extra})
    shown = set()
    for e in extra:
        if e.get("bad") and e["method"] not in shown and len(shown) < 2:
            shown.add(e["method"])
            d = farm["defs"].get(e["type"], {"name": e["type"], "fields": []})
            rp.failing({"case": dict(e, struct=struct_source(d)),
                        "verdict": "a Factory method outside the 19 the template has a stanza for: on the generated extension type it does "
                                   "not produce an error of that type / with the fields the same method produces on a plain GError",
                        "replay_cmd": "./check C09 --tier %s" % ctx.tier},
                       {"kind": "unknown_method", "law": "fields", "code": 1, "method": e["method"], "differs": "type" if e["generated_result_type"] != e["factory_type"] else "view",
                        "panic": bool(e.get("panic")), "percent_in_print_name": False, "skip_convert_gen": d.get("skip")})
    seen = set()
    bad, nt_coq = judge_and_report(ctx, rp, binp, terms, jsons, quick, "cases", seen)
    if bad is None:
        rp.flush()
        return
    if rp.need_widened():
        # all 19 methods on all four presets of every struct, more chains, another seed
        wruns = [("wall", ["-mode", "all", "-chains", 16, "-presets", 4, "-seed", ctx.seed + 7919])]
        wt, wj, err = vlib.harness_cases(ctx, binp, wruns)
        if not err:
            wbad, _ = judge_and_report(ctx, rp, binp, wt, wj, quick, "widened", seen, only_v1=True)
            ctx.cov["widened_run"] = {"cases": len(wj), "bad": len(wbad or [])}
    rp.flush()
    def step_nontrivial(s):
        u = gl.uses(s["m"])
        return (s["m"] in gl.STACK_TAKING or ("fmt" in u and gl.go_trim(s.get("rendered", ""))) or ("dtag" in u and s["dtag"])
                or ("src" in u and s["src"]) or "err" in u)
    nt = [j for j in jsons if j["fields"] and any(step_nontrivial(s) for s in j["steps"])]
    ctx.cov.update({
        "evaluations": len(jsons),
        "structs": len(farm["names"]["gen"]) + len(farm["names"]["skip"]),
        "structs_not_compiling": sorted(farm["broken"]),
        "structs_skip_convert_gen": len(farm["names"]["skip"]),
        "distinct_nontrivial": vlib.distinct_count([[j["fields"], j["name"], j["msg"], j["src"], [[s[k] for k in ("m", "src", "dtag", "format", "elems", "err")] for s in j["steps"]]] for j in nt]),
        "nontrivial_by_coq_predicate": nt_coq,
        "rule": "farm = 14 fixed structs (the repository's two fixtures, an ordering/rename corner case, print names containing '%', empty structs, "
                "clone-only / print-only / print+clone fields in all 3! relative name orders, two clone-only fields around a print-only one) + "
                "random structs with 0-6 extra fields over 13 field types (string, int, bool, float64, time.Duration, "
                "Stringer enum, slice, map, struct, error, array, rune, uint8) and 17 tag forms (none, print, clone, both in "
                "either order, renames, rename with space, name only, repeated option, foreign tags), alternately with "
                "-skipConvertGen; per struct: SrcS witness + all 19 methods on 1 (quick) / all 4 (thorough) presets of "
                "(Message, Source) + two-step chains; base and generated issued from one function; non-trivial = struct "
                "has extra fields and the step carries an argument or takes a stack; distinct by (fields, base fields, steps)",
        "exhaustive": False,
        "exhaustive_note": "all 19 methods are exercised on every struct of the farm; the theorem C09_wiring covers the finite method list exhaustively",
        "by_kind": gl.hist(j["kind"] for j in jsons),
        "field_count_histogram": gl.hist(len(j["fields"]) for j in jsons),
        "method_histogram": gl.hist(s["m"] for j in jsons for s in j["steps"]),
        "tag_histogram": gl.hist(f["tag"] for j in jsons if j["kind"] == "corpus" for f in j["fields"]),
        "field_type_histogram": gl.hist(f["type"] for j in jsons if j["kind"] == "corpus" for f in j["fields"]),
        "samples": [jsons[i] for i in (1, 25, 60) if i < len(jsons)],
        "disagreements": len(bad),
    })
    ctx.log("correspondence: %d structs, %d cases, %d disagreement(s)" % (ctx.cov["structs"], len(jsons), len(bad)))


def replay(ctx, path):
    rep = json.load(open(path))
    c = rep.get("case")
    if not isinstance(c, dict):
        print(json.dumps(rep, indent=1)[:3000])
        return 0
    nrandom = 21 if rep.get("tier", "quick") == "quick" else 140
    os.environ["VERIF_SEED"] = str(rep.get("seed", ctx.seed))
    ctx.seed = int(rep.get("seed", ctx.seed))
    farm, err = prepare(ctx, nrandom)
    if err:
        print(err)
        return 2
    terms, jsons, err = gl.run_replay(ctx, farm["bin"], [{k: c[k] for k in ("type", "name", "msg", "src", "steps")}], "user")
    if err or not jsons:
        print(err or "struct %s is not part of the farm for this seed/tier" % c.get("type"))
        return 2
    normalise(jsons)
    bad, _, err = gl.judge(ctx, CASE_T, JUDGE, terms, CANARY, header=HEADER)
    print(json.dumps(jsons[0], indent=1))
    print("judgement code:", dict(bad).get(0, 0), err or "")
    return 1 if bad else 0
