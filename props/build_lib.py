"""build_lib — helpers of the C13 check (generator build farm): running the two translators,
the per-run Coq tie over the regenerated tables, building the generator CLIs from the scratch
copy, running the farm harness, explaining build errors by definition shape, minimising a
failing (definition, options) pair.  Nothing here is shared state; other generator properties
may import it."""
import copy
import json
import os
import re
import shutil

import vlib

TOOLS = ("genum", "gerror", "gsort")

# ------------------------------------------------------------------ translators + per-run tie


def run_translators(ctx, repo):
    """regenerate TmplMethodsGen.v / BasicKindsGen.v from `repo` and IfaceSigsGen.v from the compiled
    interfaces (farm harness, reflection), compile them into ctx.gen together with GenTables.v.
    Returns (ok, detail)."""
    steps = [("xlate_tmpl_methods", "TmplMethodsGen", lambda b, out: [b, "-repo", repo, "-out", out]),
             ("xlate_basic_kinds", "BasicKindsGen", lambda b, out: [b, "-repo", repo, "-out", out]),
             ("c13", "IfaceSigsGen", lambda b, out: [b, "-mode", "sigs", "-out", out])]
    for cmd, name, argv in steps:
        binp, log = ctx.build_harness(cmd)
        if not binp:
            return False, "building %s failed:\n%s" % (cmd, log[-2000:])
        out = os.path.join(ctx.scratch, name + ".v.tmp")
        rc, o = vlib.sh(argv(binp, out), timeout=120)
        if rc != 0:
            return False, "%s failed on the current tree:\n%s" % (cmd, o[-2000:])
        rc, o = ctx.coq_eval(name, open(out).read(), timeout=300)
        if rc != 0:
            return False, "generated %s.v does not compile:\n%s" % (name, o[-2000:])
    rc, o = ctx.coq_eval("GenTables", GEN_TABLES, timeout=300)
    if rc != 0:
        return False, "GenTables.v does not compile:\n%s" % o[-2000:]
    return True, ""


GEN_TABLES = """From Coq Require Import String List.
From GT Require Import GenBuildModel.
From GTgen Require Export TmplMethodsGen BasicKindsGen IfaceSigsGen.
Definition gen_tables : tmpl_tables := gen_tables_of gen_iface_sigs.
"""

# fallback when a translator cannot read the current tree: judge against the hand copies
HAND_TABLES = """From Coq Require Import String List.
From GT Require Import GenBuildModel.
Definition genum_uses : list tuse := nil.
Definition gerror_uses : list tuse := nil.
Definition gsort_uses : list tuse := nil.
Definition gen_tables : tmpl_tables := hand_tables.
Definition gen_kinds : list bkind := hand_kinds.
Definition gen_render : rexpr := hand_render.
"""


TIE_EVAL = """From Coq Require Import String List Bool.
From GT Require Import GenBuildModel GenBuildProofs.
From GTgen Require Import GenTables.
Import ListNotations.
Local Open Scope string_scope.
Set Printing Width 100000. Set Printing Depth 1000000.
Definition bstr (b : bool) : string := if b then "1" else "0".
Definition show_genum (o : genum_opts) : string :=
  "json=" ++ bstr (go_json o) ++ " yaml=" ++ bstr (go_yaml o) ++ " text=" ++ bstr (go_text o)
  ++ " caseInsensitive=" ++ bstr (go_ci o) ++ " disableTraits=" ++ bstr (go_disable_traits o)
  ++ " parsable=" ++ bstr (go_parsable_some o).
Definition R_genum_bad := Eval vm_compute in
  map (fun o => (show_genum o, genum_missing gen_tables o, genum_bad_sigs gen_tables o))
      (filter (fun o => negb (genum_ok gen_tables o)) all_genum_opts).
Print R_genum_bad.
Definition R_gerror_bad := Eval vm_compute in
  map (fun s => (bstr s, gerror_missing gen_tables s, gerror_bad_sigs gen_tables s))
      (filter (fun s => negb (gerror_ok gen_tables s)) bools).
Print R_gerror_bad.
Definition R_gsort_bad := Eval vm_compute in
  map (fun s => (bstr s, gsort_missing gen_tables s, gsort_bad_sigs gen_tables s))
      (filter (fun s => negb (gsort_ok gen_tables s)) bools).
Print R_gsort_bad.
Definition R_isigs_cover := Eval vm_compute in
  (genum_isigs_cover gen_tables, gerror_isigs_cover gen_tables,
   names_covered (tt_isigs gen_tables) "sort.Interface" (map rq_name sort_methods)).
Print R_isigs_cover.
Definition R_kinds_bad := Eval vm_compute in
  map (fun k => (bk_name k, render gen_render k)) (filter (fun k => negb (kind_ok gen_render k)) gen_kinds).
Print R_kinds_bad.
Definition R_uses_bad := Eval vm_compute in
  (flat_map (fun o => map (fun p => (show_genum o, fst p, snd p))
                          (undeclared_uses (tt_genum gen_tables) [] genum_uses (genum_env o))) all_genum_opts
   ++ flat_map (fun k => map (fun p => (("skipConvertGen=" ++ bstr k)%string, fst p, snd p))
                             (undeclared_uses (tt_gerror gen_tables) (tt_promoted gen_tables) gerror_uses (gerror_env k))) bools
   ++ map (fun p => ("gsort", fst p, snd p)) (undeclared_uses (tt_gsort gen_tables) [] gsort_uses (fun _ => false)))%list.
Print R_uses_bad.
Definition R_render := Eval vm_compute in gen_render.
Print R_render.
Definition tfunc_eqb (a b : tfunc) : bool :=
  String.eqb (tf_name a) (tf_name b) && recv_eqb (tf_recv a) (tf_recv b)
  && Nat.eqb (length (tf_guards a)) (length (tf_guards b))
  && strs_eqb (tf_params a) (tf_params b) && strs_eqb (tf_results a) (tf_results b).
Definition isig_eqb (a b : string * sigreq) : bool :=
  String.eqb (fst a) (fst b) && String.eqb (sg_name (snd a)) (sg_name (snd b))
  && strs_eqb (sg_params (snd a)) (sg_params (snd b)) && strs_eqb (sg_results (snd a)) (sg_results (snd b)).
Definition tbl_eqb (a b : list tfunc) : bool :=
  Nat.eqb (length a) (length b) && forallb (fun p => tfunc_eqb (fst p) (snd p)) (combine a b).
Definition R_same_as_hand := Eval vm_compute in
  (tbl_eqb (tt_genum gen_tables) GenBuildModel.genum_funcs
   && tbl_eqb (tt_gerror gen_tables) GenBuildModel.gerror_funcs
   && tbl_eqb (tt_gsort gen_tables) GenBuildModel.gsort_funcs,
   strs_eqb (tt_enum gen_tables) GenBuildModel.iface_genum_Enum
   && strs_eqb (tt_typed gen_tables) GenBuildModel.iface_genum_TypedEnum
   && strs_eqb (tt_error gen_tables) GenBuildModel.iface_gerror_Error
   && strs_eqb (tt_factory gen_tables) GenBuildModel.iface_gerror_Factory
   && strs_eqb (tt_promoted gen_tables) GenBuildModel.methods_gerror_GError,
   strs_eqb (map bk_name gen_kinds) (map bk_name hand_kinds)
   && strs_eqb (map bk_string gen_kinds) (map bk_string hand_kinds)
   && strs_eqb (map bk_default gen_kinds) (map bk_default hand_kinds),
   Nat.eqb (length (tt_isigs gen_tables)) (length hand_isigs)
   && forallb (fun p => isig_eqb (fst p) (snd p)) (combine (tt_isigs gen_tables) hand_isigs)).
Print R_same_as_hand.
"""

TIE_THEOREMS = """From Coq Require Import String List Bool.
From GT Require Import GenBuildModel GenBuildProofs Props.C13.
From GTgen Require Import GenTables.
Import ListNotations.
(* the property statements, instantiated with the tables regenerated from the current tree *)
Lemma cur_genum_sweep : genum_sweep gen_tables = true. Proof. vm_compute. reflexivity. Qed.
Lemma cur_gerror_sweep : gerror_sweep gen_tables = true. Proof. vm_compute. reflexivity. Qed.
Lemma cur_gsort_sweep : gsort_sweep gen_tables = true. Proof. vm_compute. reflexivity. Qed.
Lemma cur_kinds_sweep : kinds_sweep gen_render gen_kinds = true. Proof. vm_compute. reflexivity. Qed.
Theorem C13_methods_current_tree :
  (forall o, genum_statement gen_tables o) /\\ (forall skip, gerror_statement gen_tables skip)
  /\\ (forall p, gsort_statement gen_tables p).
Proof. exact (C13_methods_any_table gen_tables cur_genum_sweep cur_gerror_sweep cur_gsort_sweep). Qed.
Theorem C13_basic_kinds_current_tree : forall k, In k gen_kinds -> bk_const k = true ->
  In (render gen_render k) predeclared_go_types.
Proof. exact (C13_basic_kinds_any_table gen_render gen_kinds cur_kinds_sweep). Qed.
Lemma cur_uses_sweep : uses_sweep gen_tables genum_uses gerror_uses gsort_uses = true.
Proof. vm_compute. reflexivity. Qed.
Definition C13_uses_declared_current_tree :=
  C13_uses_declared_any_table gen_tables genum_uses gerror_uses gsort_uses cur_uses_sweep.
Print Assumptions C13_uses_declared_current_tree.
Print Assumptions C13_methods_current_tree.
Print Assumptions C13_basic_kinds_current_tree.
"""


def _plist(out, name):
    m = re.search(r"%s\s*=\s*(.*?)\n\s*:\s" % name, out, re.S)
    return m.group(1).strip() if m else None


def run_tie(ctx):
    """evaluate the sweeps over the regenerated tables.  Returns dict with keys ok, broken (list
    of human-readable model-side witnesses), same_as_hand, detail."""
    rc, out = ctx.coq_eval("C13TieEval", TIE_EVAL, timeout=600)
    res = {"ok": False, "broken": [], "same_as_hand": None, "detail": ""}
    if rc != 0:
        res["detail"] = "tie evaluation failed:\n" + out[-3000:]
        res["broken"].append("tie evaluation does not compile")
        return res
    for name, what in (("R_genum_bad", "genum template: (setting, required methods missing, methods with a wrong signature)"),
                       ("R_gerror_bad", "gerror template: (skipConvertGen, methods missing, wrong signatures) or Convert emitted under skipConvertGen"),
                       ("R_gsort_bad", "gsort template: (pointer, sort.Interface methods missing, wrong signatures)"),
                       ("R_uses_bad", "template bodies: (setting, func, callee) — a call of a receiver method / template-named function that can be emitted while its callee is not"),
                       ("R_kinds_bad", "ExtractTypeRef renders constant kinds as non-types")):
        v = _plist(out, name)
        if v is None:
            res["broken"].append("cannot read %s" % name)
        elif not re.match(r"^\[\s*\]$", v):
            v = re.sub(r"%string", "", re.sub(r"\s+", " ", v))
            res["broken"].append("%s %s" % (what, v[:1500]))
    res["render"] = _plist(out, "R_render")
    res["isigs_cover"] = _plist(out, "R_isigs_cover")
    same = _plist(out, "R_same_as_hand")
    res["same_as_hand"] = same
    if res["broken"]:
        return res
    rc, out = ctx.coq_eval("C13Tie", TIE_THEOREMS, timeout=600)
    if rc != 0 or out.count("Closed under the global context") != 3:
        res["broken"].append("theorems over the regenerated tables do not check")
        res["detail"] = out[-3000:]
        return res
    res["ok"] = True
    return res


# ------------------------------------------------------------------ CLIs and farm


def build_clis(ctx, repo):
    """build genum/gerror/gsort from the scratch copy (workspace mode, as a developer would)"""
    bindir = os.path.join(ctx.scratch, "clibin")
    os.makedirs(bindir, exist_ok=True)
    env = dict(os.environ)
    env.update(GOPROXY="off", GOSUMDB="off", GOTOOLCHAIN="local")
    env.pop("GOFLAGS", None)
    env.pop("GOWORK", None)
    for t in TOOLS:
        rc, out = vlib.sh(["go", "build", "-o", os.path.join(bindir, t), "./cmd/" + t],
                          cwd=os.path.join(repo, t), env=env, timeout=900)
        if rc != 0:
            return None, "go build of %s/cmd/%s failed:\n%s" % (t, t, out[-3000:])
    return bindir, ""


def run_farm(ctx, binp, clibin, repo, tag, mode, specs=None, extra=(), timeout=14400):
    """run the farm harness; returns dict(terms, cases, canaries, err, log)"""
    prefix = os.path.join(ctx.scratch, "cases_%s" % tag)
    farm = os.path.join(ctx.scratch, "farm_%s" % tag)
    shutil.rmtree(farm, ignore_errors=True)
    args = [binp, "-seed", str(ctx.seed), "-out", prefix, "-mode", mode, "-repo", repo, "-bin", clibin,
            "-farm", farm] + list(extra)
    if specs is not None:
        sp = prefix + ".specs"
        with open(sp, "w") as f:
            for s in specs:
                f.write(json.dumps(s) + "\n")
        args += ["-in", sp]
    rc, out = vlib.sh(args, timeout=timeout)
    keep = os.environ.get("C13_KEEP_FARM")
    if keep:
        shutil.rmtree(os.path.join(keep, tag), ignore_errors=True)
        shutil.copytree(farm, os.path.join(keep, tag))
    shutil.rmtree(farm, ignore_errors=True)
    res = {"terms": [], "cases": [], "canaries": [], "err": None, "log": out}
    if rc != 0:
        res["err"] = "farm harness (%s) failed rc=%d:\n%s" % (tag, rc, out[-3000:])
        return res
    res["terms"] = open(prefix + ".cases").read().splitlines()
    res["cases"] = [json.loads(l) for l in open(prefix + ".jsonl").read().splitlines()]
    if os.path.isfile(prefix + ".canary.json"):
        res["canaries"] = json.load(open(prefix + ".canary.json"))
    if len(res["terms"]) != len(res["cases"]):
        res["err"] = "farm harness wrote %d terms but %d cases" % (len(res["terms"]), len(res["cases"]))
    return res


CANARY_EXPECT = {"canary_gofmt": ("bad", "not_gofmt_clean"), "canary_syntax": ("bad", None),
                 "canary_type": ("bad", "undefined"), "canary_good": ("built", None)}


def canary_problems(canaries):
    """the farm's own observation pipeline must flag the known-bad canary packages (unformatted
    file, syntax error, type error) and pass the good one"""
    out = []
    seen = set()
    for c in canaries:
        k = c.get("kind")
        seen.add(k)
        want, cls = CANARY_EXPECT.get(k, (None, None))
        got = c["obs"]["outcome"]
        classes = [x["class"] for x in c["obs"].get("classes") or []]
        if got != want or (cls and cls not in classes):
            out.append("%s: expected %s/%s, observed %s/%s" % (k, want, cls, got, classes))
    if canaries and seen != set(CANARY_EXPECT):
        out.append("canaries missing: %s" % sorted(set(CANARY_EXPECT) - seen))
    return out


def settings_masks(broken):
    """masks (harness -settings) of the genum settings named in the tie's model-side witnesses"""
    masks = set()
    for b in broken:
        for m in re.finditer(r"json=(\d) yaml=(\d) text=(\d) caseInsensitive=(\d) disableTraits=(\d)", b):
            j, y, t, c, d = (int(x) for x in m.groups())
            masks.add((1 - j) | (1 - y) << 1 | (1 - t) << 2 | c << 3 | d << 4)
    return sorted(masks)


# ------------------------------------------------------------------ explaining build errors

UNMARSHALERS = ("generated:UnmarshalJSON", "generated:UnmarshalYAML", "generated:UnmarshalText")

# shapes owned by the genum trait-semantics group (C12): which error classes each explains
C12_EXPLAINS = [
    ("deprecated_duplicate_with_trait_cells",
     lambda c: c["class"] == "duplicate_case" and c.get("where") == "generated:<trait accessor>"),
    ("two_own_unmarshaler_parsable_traits", lambda c: c.get("where") in UNMARSHALERS),
    ("parsable_traits_equal_cells",
     lambda c: c["class"] == "duplicate_case" and c.get("where") == "generated:Parse<T>"),
    ("parsable_with_duplicates", lambda c: c.get("where") in ("generated:Parse<T>",)),
    ("parsable_with_lines_lacking_cells", lambda c: c.get("where") in ("generated:Parse<T>",)),
]


def problems(case):
    """split the error classes of a bad case into reportable problems: a list of feature dicts
    (one per distinct unexplained class, one per explaining shape)"""
    shapes = case.get("shapes", [])
    traits_on = not case.get("flags", {}).get("DisableTraits", False)
    if case["obs"].get("format_fallback"):
        # gencommon.Write gave up formatting and wrote the raw template output: one problem,
        # whatever the compiler and gofmt then say about the file
        first = (case["obs"].get("classes") or [{}])[0]
        return [{"tool": case["tool"], "shape": "", "error_class": "format_fallback",
                 "detail": first.get("class", ""), "where": first.get("where", "")}]
    out, seen = [], set()
    classes = case["obs"].get("classes") or [{"class": "other", "detail": "bad outcome without message"}]
    # an unused import / variable in the DEFINITION file is a malformed input (outside the
    # property's domain), not something a generator did
    own = [c for c in classes if not (c.get("where") == "definition"
                                      and c["class"] in ("unused_import", "declared_not_used"))]
    if not own:
        return [{"tool": case["tool"], "shape": "", "error_class": "invalid_definition", "detail": "",
                 "where": "definition"}]
    for c in own:
        shape = ""
        if case["tool"] == "genum" and traits_on:
            for s, pred in C12_EXPLAINS:
                if s in shapes and pred(c):
                    shape = s
                    break
        if case["tool"] == "gsort" and "sorter_in_both_forms" in shapes:
            # one slice type declared twice: redeclared type, duplicate methods, assertions
            f = {"tool": "gsort", "shape": "sorter_in_both_forms", "owner": "C13"}
        elif shape:
            f = {"tool": case["tool"], "shape": shape, "owner": "C12"}
        else:
            f = {"tool": case["tool"], "shape": "", "error_class": c["class"], "detail": c.get("detail", ""),
                 "where": c.get("where", "")}
            if f["error_class"] in ("missing_method", "wrong_method_signature", "undefined_member"):
                f["where"] = ""  # the same missing method is reported by every use site
            if f["error_class"] == "other":
                f["detail"] = re.sub(r"\b[A-Z]\w*\b", "_", f["detail"])[:120]
        key = json.dumps(f, sort_keys=True)
        if key not in seen:
            seen.add(key)
            out.append(f)
    return out


def has_problem(case, feat):
    return case["obs"]["outcome"] == "bad" and any(p == feat for p in problems(case))


# ------------------------------------------------------------------ minimisation

GENUM_DEFAULTS = {"json": True, "yaml": True, "text": True, "caseInsensitive": False, "disableTraits": False}


def reductions(spec):
    """single-step reductions of a spec (all still inside the property's quantified space)"""
    out = []
    if spec["tool"] == "genum":
        o, e = spec["genum_opts"], spec["enum"]
        # big steps first: all switches back to their defaults; a single line; a single trait
        if any(o.get(k) != dv for k, dv in GENUM_DEFAULTS.items()):
            s = copy.deepcopy(spec)
            s["genum_opts"].update(GENUM_DEFAULTS)
            out.append(s)
        if len(e["lines"]) > 2:
            for keep in (1, 2):
                s = copy.deepcopy(spec)
                s["enum"]["lines"] = s["enum"]["lines"][:keep]
                out.append(s)
        for k, dv in GENUM_DEFAULTS.items():
            if o.get(k) != dv:
                s = copy.deepcopy(spec)
                s["genum_opts"][k] = dv
                out.append(s)
        for i in range(len(o.get("parsableByTraits") or [])):
            s = copy.deepcopy(spec)
            del s["genum_opts"]["parsableByTraits"][i]
            out.append(s)
        for j in range(len(e.get("traits") or [])):
            s = copy.deepcopy(spec)
            name = s["enum"]["traits"][j]["name"].lstrip("_")
            del s["enum"]["traits"][j]
            for l in s["enum"]["lines"]:
                if l.get("cells") and j < len(l["cells"]):
                    del l["cells"][j]
            s["genum_opts"]["parsableByTraits"] = [p for p in (s["genum_opts"].get("parsableByTraits") or [])
                                                   if p != name]
            out.append(s)
        if len(e["lines"]) > 1:
            for i in range(len(e["lines"]) - 1, -1, -1):
                s = copy.deepcopy(spec)
                del s["enum"]["lines"][i]
                out.append(s)
        if e.get("underlying") != "int" and not any(len(l["value"]) > 9 for l in e["lines"]):
            s = copy.deepcopy(spec)
            s["enum"]["underlying"] = "int"
            out.append(s)
    elif spec["tool"] == "multi":
        parts = spec.get("parts") or []
        if len(parts) > 1:
            for i in range(len(parts)):
                s = copy.deepcopy(spec)
                del s["parts"][i]
                out.append(s)
        for i, part in enumerate(parts):
            for r in reductions(part):
                s = copy.deepcopy(spec)
                s["parts"][i] = r
                out.append(s)
    elif spec["tool"] == "gerror":
        g = spec["gerror"]
        for i in range(len(g.get("fields") or [])):
            s = copy.deepcopy(spec)
            del s["gerror"]["fields"][i]
            out.append(s)
        if len(g["types"]) > 1:
            s = copy.deepcopy(spec)
            s["gerror"]["types"] = g["types"][:1]
            out.append(s)
    elif spec["tool"] == "gsort":
        g = spec["gsort"]
        for i in range(len(g.get("fields") or [])):
            s = copy.deepcopy(spec)
            del s["gsort"]["fields"][i]
            out.append(s)
        # drop a whole sorter (all tags naming it), then single tags
        names = []
        for f in g.get("fields") or []:
            for t in f.get("tags") or []:
                n = t.split(",")[0]
                if n not in names:
                    names.append(n)
        if len(names) > 1:
            for n in names:
                s = copy.deepcopy(spec)
                for f in s["gsort"]["fields"]:
                    f["tags"] = [t for t in (f.get("tags") or []) if t.split(",")[0] != n]
                out.append(s)
        for i, f in enumerate(g.get("fields") or []):
            if len(f.get("tags") or []) > 1:
                for k in range(len(f["tags"])):
                    s = copy.deepcopy(spec)
                    del s["gsort"]["fields"][i]["tags"][k]
                    out.append(s)
    return out


def minimise(ctx, farm_runner, case, feat, rounds=10, tag="m"):
    """greedy delta-debugging: keep applying the first single-step reduction under which the
    real generators still show the same problem"""
    cur = case
    for rnd in range(rounds):
        cands = reductions(cur["spec"])
        if not cands:
            break
        for s in cands:
            s["kind"] = "min"
        res = farm_runner("min%s_%d" % (tag, rnd), cands)
        if res is None:
            break
        nxt = next((c for c in res if has_problem(c, feat)), None)
        if nxt is None:
            break
        cur = nxt
    return cur


def view(case):
    """the replay record of a case (everything needed to rebuild the package)"""
    return {"tool": case["tool"], "label": case.get("label"), "go_generate": case.get("go_generate"),
            "flags": case.get("flags"), "shapes": case.get("shapes"), "trait_kinds": case.get("trait_kinds"),
            "spec": case["spec"], "files": case.get("files"),
            "observed": {k: case["obs"].get(k) for k in ("exit", "file_written", "gofmt_clean", "build_ok",
                                                         "outcome", "errors", "classes")}}
