"""C10 — gconfig: Get is a pure function of (config, key, type)."""
import json
import os
import shutil

import gconf_lib as gl
import vlib

META = {
    "property_id": "C10",
    "level": "proof",
    "technique": "Coq theorem over all histories of Get/MustGet/GetOrDefault on a model of getFromCache (memo keyed by (key, reflect.Type), one atomic step per request) + semantic translator tie (extractAndConvert, getFromCache, Get, MustGet, GetOrDefault and their helpers regenerated as Gallina over memo entries with dynamic types, xsync Compute, the final type assertion and a yaml decoder that may panic; proved to refine the model and never to panic) + in-kernel correspondence of model, fresh-Config results and the real gconfig on generated histories over colliding keys/types; concurrent mixes with the race detector in the thorough tier",
    "design_ref": "DESIGN.md §4 C10",
    "level_text": "Proof: GConfCacheProofs.v shows for every history (any length) of Get/MustGet/GetOrDefault over any keys and result types that each request returns exactly what the same request returns on a freshly loaded Config (run_all_fresh), that no request panics other than MustGet reporting the conversion's error, that removing a request never changes the others, and that every interleaving of goroutines whose requests are atomic steps is such a history (Props/C10.v, closed under the global context); the conversion extractAndConvert is modelled over yaml encoder/decoder oracles where the decoder may return a value, an error or PANIC (GConfConvModel.conv_model: path walk over the dotted key, re-encode, decode into T, a panic recovered into an error), and the theorems C10_no_panic_any_decoder / C10_decoder_panic_is_error hold for every such decoder. The pinned code is kept as get_cached_orig with two machine-checked counterexamples (memo-string collision; nil interface) and HEAD before fix C10-conversion-panic as get_cached_head (decoder panic escaped inside xsync's Compute and left the bucket locked). Tied to the source (T) by xlate_gconf -set cache + coq/ties/Tie_C10.v: semantic lemmas, for all arguments and whatever helpers/closure forms/statement order the source uses — the regenerated extractAndConvert is total and equals conv_model, the regenerated getFromCache refines the model and never panics, the regenerated Get/MustGet/GetOrDefault are run_op and (C) by running histories on the real library and comparing every outcome with a fresh Config and with the model inside Coq.",
    "level_note": "Assumption (outside the property): callers do not mutate the slices/maps/pointers Get hands out (the memo hands out the same object again; a fresh Config would return the original). Partial: atomicity of xsync.MapOf.Compute per key and data-race freedom are assumed by the model (exercised by 16 goroutines under the race detector in the thorough tier). Trusted: Coq kernel + vm_compute; fidelity of GConfCacheModel.v (correspondence); determinism of yaml re-marshal conversion (recorded per case from fresh Configs). No axioms.",
    "allowed_axioms": [],
}

TRUSTED = [
    "Coq 8.16.1 kernel and VM (vm_compute); no axioms",
    "hand-written model coq/theories/GConfCacheModel.v of gconfig/config.go (getFromCache, Get, MustGet, GetOrDefault), tied by correspondence only",
    "yaml.v3 Marshal / Unmarshal-into-T are oracles (value, error, or panic of the decoder); that they are deterministic per (value, type) is recorded per case from freshly loaded Configs",
    "github.com/puzpuzpuz/xsync/v3 MapOf.Compute is atomic per key (assumption of the concurrent clause); Go memory model / race detector for data-race freedom",
    "Go harness harness/cmd/c10 (type registry, canonical JSON rendering of results, panic classification, watchdog: a request that does not return within 2 s — counted in ticks, so a starved process waits longer — is recorded as a hang = OPanic), Go 1.23 toolchain",
]

HEADER = ("From Coq Require Import List String Ascii.\nImport ListNotations.\n"
          "From GT Require Import Base.Verdict GConfModel GConfJudge GConfCacheModel GConfCacheJudge.\n"
          "Local Open Scope string_scope.\n")
CASE = "c10_case"
# result types yaml.v3 cannot decode a present value into without panicking (harness: `hard`)
HARD_TYPES = ("main.W", "fmt.Stringer", "main.Dup", "main.E", "*main.W", "[]fmt.Stringer", "map[string]fmt.Stringer")
# developer switch: VERIF_C10_JUDGE=c10_judge_orig judges against the model of the pinned code
JUDGE = os.environ.get("VERIF_C10_JUDGE", "c10_judge")


def is_hang(o):
    """the harness's watchdog gave up waiting for the request (recorded as a panic outcome)"""
    return o["kind"] == "panic" and o.get("msg", "").startswith("hang:")


def shape(j):
    # a request that never returns is the gravest: it names the shape even when an earlier
    # request of the same history panicked (which is usually how the memo got stuck)
    if any(is_hang(f) for f in j["fresh"]):
        return "request_never_returns_on_fresh_config"
    if any(is_hang(o) for o in j["obs"]):
        return "request_never_returns"
    for o, f in zip(j["obs"], j["fresh"]):
        if f["kind"] == "panic":
            return "panic_on_fresh_config"
        if o["kind"] == "panic":
            return "panic_after_other_requests"
    return "outcome_differs_from_fresh_config"


def features(j):
    return {"kind": j.get("kind", "").split("/")[0], "shape": shape(j)}


def req_text(j, q):
    names = j.get("labels") or j["types"]
    return "%s[%s](%r)" % (q["op"], names[q["ty"]], q["key"])


def view(j):
    n = len(j["ops"])
    rows = []
    for q, o, f in list(zip(j["ops"], j["obs"], j["fresh"]))[:12]:
        rows.append({"request": req_text(j, q), "shared": o, "fresh": f})
    v = {"kind": j["kind"], "requests": n, "first_requests": rows}
    if j.get("goroutines"):
        v["goroutines"] = j["goroutines"]
    bad = [i for i, (o, f) in enumerate(zip(j["obs"], j["fresh"])) if o != f or o["kind"] == "panic"]
    if bad:
        i = bad[0]
        v["first_bad_request"] = {"index": i, "request": req_text(j, j["ops"][i]),
                                  "shared": j["obs"][i], "fresh": j["fresh"][i]}
    hung = [i for i, o in enumerate(j["obs"]) if is_hang(o)]
    if hung:
        i = hung[0]
        v["first_request_that_never_returned"] = {
            "index": i, "request": req_text(j, j["ops"][i]), "fresh": j["fresh"][i],
            "requests_that_never_returned": len(hung),
            "note": "the harness's watchdog gave up; nothing more was issued on this Config by the goroutine "
                    "that is stuck (sequential histories end here)"}
    v["document"] = "see input.yaml (%d bytes)" % len(j["yaml"])
    return v


def hint(j):
    """where a sequential history went wrong, for the minimiser: replaying a hang costs the
    watchdog's timeout, so such cases get a handful of directed candidates instead of the sweep"""
    if j.get("kind", "").split("/")[0] in ("concurrent", "stress"):
        return None
    sh = shape(j)
    if sh == "panic_on_fresh_config":
        return {"single": [i for i, f in enumerate(j["fresh"]) if f["kind"] == "panic"][0]}
    if sh == "request_never_returns":
        i = [k for k, o in enumerate(j["obs"]) if is_hang(o)][0]
        q = j["ops"][i]
        before = [p for p in range(i) if j["obs"][p]["kind"] == "panic"]
        # an earlier panicking request for the same (key, type) first: the deterministic deadlock
        before.sort(key=lambda p: (not (j["ops"][p]["key"] == q["key"] and j["ops"][p]["ty"] == q["ty"]), p))
        return {"pairs": [[p, i] for p in before[:4]]}
    return None


def to_input(j):
    inp = {"ops": j["ops"], "yaml": j["yaml"]}
    h = hint(j)
    if h:
        inp["hint"] = h
    return inp


def variants(inp):
    ops = inp["ops"]
    n = len(ops)
    h = inp.get("hint")
    if h:
        # directed candidates only (they carry no hint: the next round is the ordinary sweep)
        idx = [[h["single"]]] if "single" in h else h.get("pairs", [])
        return [{"ops": [ops[k] for k in ks], "yaml": inp.get("yaml", "")} for ks in idx if len(ks) < n]
    out, seen = [], set()
    for g in (2, 4, 8, 16, n):
        if g > n or g < 2:
            continue
        step = max(1, n // g)
        for a in range(0, n, step):
            cand = ops[:a] + ops[a + step:]
            key = json.dumps(cand)
            if cand and key not in seen:
                seen.add(key)
                out.append({"ops": cand, "yaml": inp.get("yaml", "")})
    if n == 1:
        return []
    return out


def size(inp):
    return len(inp["ops"])


def run(ctx):
    ctx.trusted = TRUSTED
    ctx.assumptions = [
        "callers do not mutate the slices/maps/pointers Get hands out (the memo hands out the same object again; a fresh Config would return the original)",
        "xsync.MapOf.Compute runs its function atomically per key (concurrent clause; partial)",
        "the Config is not reloaded between requests; cfg.data is never written after FromBytes"]
    d = gl.Deferred(ctx)
    d.obligations()
    binp = gl.build(ctx, "c10", judge="GConfCacheJudge")
    if not binp:
        return
    quick = ctx.tier == "quick"
    tie_ok, tie_detail = ctx.translator_tie(
        "xlate_gconf", ["-src", os.path.join(ctx.copy_repo(), "gconfig"), "-set", "cache"],
        "GConfCacheGen", "Tie_C10")
    ctx.log("translator tie:", "OK" if tie_ok else "BROKEN", "-", tie_detail.splitlines()[0])
    if not tie_ok:
        gen = os.path.join(ctx.gen, "GConfCacheGen.v")
        ctx.cov["translator_tie"] = {"status": "BROKEN", "detail": tie_detail[-600:]}
        d.add({"unchecked": "translator tie Tie_C10 (regenerated getFromCache refines GConfCacheModel.get_cached)",
               "detail": tie_detail[-2500:],
               "generated": open(gen).read()[-2500:] if os.path.isfile(gen) else None},
              {"kind": "translator_tie"})

    def runs_for(f):
        return [("random", ["-mode", "random", "-n", (30 if quick else 600) * f, "-len", 200]),
                ("conc", ["-mode", "concurrent", "-n", (2 if quick else 10) * f, "-g", 16, "-len", 40 if quick else 200]),
                ("stress", ["-mode", "stress", "-n", (1000 if quick else 6000) * f, "-g", 16])]
    runs = [("corpus", ["-mode", "corpus"])] + runs_for(1)
    cr = gl.corpus_run(ctx, "C10")
    if cr:
        runs.insert(1, cr)
    ctx.log("harness built")
    race_note = "not run in the quick tier"
    race_extra = None
    if not quick:
        race_note, race_extra = race_run(ctx, d)
    res = gl.correspondence(ctx, d, binp, {
        "header": HEADER, "case_type": CASE, "judge": JUDGE, "nontrivial": "c10_nontrivial",
        "runs": runs, "widen": runs_for, "shard": 4 if quick else 12,
        "classify": lambda j, code: {1: "fail", 2: "model"}.get(code, "model"),
        "shape": shape, "features": features, "view": view, "to_input": to_input,
        "variants": variants, "size": size,
        "minimise": lambda j: j["kind"].split("/")[0] not in ("concurrent", "stress"),
        # candidates are replayed with a short watchdog timeout: on a tree where requests hang every
        # hanging candidate costs the timeout
        "min_kw": {"cap": 64, "budget_s": 25, "replay_args": ["-timeout", "500ms"]},
        "verdict": lambda code: {1: "a request answered differently from the same request on a fresh Config, panicked, or never returned",
                                 2: "outcomes agree with fresh Configs but differ from the Coq model of getFromCache"}[code],
    })
    if res is None:
        return
    terms, jsons, bad, nt, info, widened = res
    if race_extra:
        # the histories recorded under the race detector are judged like the others
        rbad, rnt, err = ctx.judge_cases(HEADER, CASE, JUDGE, race_extra[0], shard=12, tag="race")
        if not err:
            for i, code in rbad:
                j = race_extra[1][i]
                ctx.report({"case": view(j), "input": to_input(j), "verdict": "under -race: outcome differs from a fresh Config"},
                           features(j), failing_input=(code == 1))
            jsons = jsons + race_extra[1]
            nt += rnt
    reqs = [q for j in jsons for q in j["ops"]]
    ctx.cov.update({
        "evaluations": len(jsons),
        "requests_compared": len(reqs),
        "distinct_nontrivial": nt,
        "rule": "case = one history (<= 200 requests; concurrent: 16 goroutines) on one shared Config, every "
                "request also issued on a fresh Config; non-trivial (measured inside Coq by c10_nontrivial) = "
                "some memo string key+%T occurs twice in the history (a repeated (key,type) or a collision)",
        "distinct_requests": vlib.distinct_count([[q["op"], q["key"], q["ty"]] for q in reqs]),
        "result_types": len(jsons[0]["types"]) if jsons else 0,
        "by_kind": gl.hist(j["kind"] for j in jsons),
        "op_histogram": gl.hist(q["op"] for q in reqs),
        "outcome_histogram": gl.hist("hang" if is_hang(o) else o["kind"] for j in jsons for o in j["obs"]),
        "requests_with_undecodable_result_type": len([q for j in jsons for q in j["ops"]
                                                      if (j.get("labels") or j["types"])[q["ty"]] in HARD_TYPES]),
        "history_length_histogram": gl.hist(min(len(j["ops"]) // 50 * 50, 1000) for j in jsons),
        "race_detector": race_note,
        "stress": {"rounds": max([j.get("stress_rounds", 0) for j in jsons] or [0]),
                   "goroutines": 16, "requests_per_goroutine": 12,
                   "rounds_with_a_deviating_outcome": max([j.get("stress_mismatch_rounds", 0) for j in jsons] or [0]),
                   "wide_window_rounds": max([j.get("wide_rounds", 0) for j in jsons] or [0]),
                   "wide_window_rounds_with_a_deviating_outcome": max([j.get("wide_mismatch_rounds", 0) for j in jsons] or [0]),
                   "note": "schedule-free: every round a fresh Config, all goroutines released at once on the "
                           "same collision-prone request list; wide-window rounds: every goroutine's first request converts a 400-item list under its own key, so the first conversions of 16 keys overlap by construction; outcomes compared with fresh Configs in the "
                           "harness, deviating rounds (and the first two) judged in Coq like any history"},
        "exhaustive": False,
        "samples": [view(j) for j in jsons[:2] + jsons[-1:]],
        "disagreements": len(bad),
    })
    ctx.log("correspondence: %d histories (%d non-trivial), %d requests, %d disagreement(s)%s; race detector: %s" % (
        len(jsons), nt, len(reqs), len(bad),
        "; widened run: %d cases, %d verdict-1" % (widened["cases"], widened["verdict_1"]) if widened else "", race_note))


def race_run(ctx, d):
    """thorough tier: concurrent mixes in a binary built with -race.  Returns (note, (terms, jsons)
    of the recorded histories or None)."""
    if not shutil.which("gcc"):
        return "skipped: no C compiler for the race detector", None
    rbin, log = ctx.build_harness("c10", race=True)
    if not rbin:
        d.add({"unchecked": "race-detector build of cmd/c10", "detail": log[-3000:]}, {"kind": "build"})
        return "build failed", None
    prefix = os.path.join(ctx.scratch, "cases_race")
    rc, out = vlib.sh([rbin, "-seed", str(ctx.seed + 1), "-out", prefix, "-mode", "concurrent",
                       "-n", "12", "-g", "16", "-len", "200"], timeout=1500)
    if "DATA RACE" in out or rc == 66:
        d.add({"unchecked": "data-race freedom of concurrent Get/MustGet/GetOrDefault (race detector report)",
               "detail": out[-4000:]}, {"kind": "data_race"})
        return "DATA RACE reported", None
    if rc != 0:
        d.add({"unchecked": "race-detector run of cmd/c10", "detail": out[-3000:]}, {"kind": "harness"})
        return "run failed (rc %d)" % rc, None
    t = open(prefix + ".cases").read().splitlines()
    j = [json.loads(l) for l in open(prefix + ".jsonl").read().splitlines()]
    return "12 runs x 16 goroutines x <=200 requests under -race: no race reported", (t, j)


def replay(ctx, path):
    rep = json.load(open(path))
    inp = rep.get("input")
    if not inp:
        print(json.dumps(rep, indent=1)[:3000])
        print("no input recorded (obligation/tie failure); re-run ./check C10")
        return 1
    binp = gl.build(ctx, "c10", judge="GConfCacheJudge")
    if not binp:
        return 2
    terms, jsons, err = gl.replay_inputs(ctx, binp, [inp], "replay")
    if err:
        print(err)
        return 2
    bad, _, err = ctx.judge_cases(HEADER, CASE, JUDGE, terms, tag="replay")
    if err:
        print(err)
        return 2
    print(json.dumps(view(jsons[0]), indent=1))
    if bad:
        print("REPRODUCED: code %d on the current tree" % bad[0][1])
        return 1
    print("not reproduced on the current tree (judged ok)")
    return 0
