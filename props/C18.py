"""C18 — log: context loggers keep fields and levels across any call sequence; concurrent
WithFields/SetLevel lose nothing."""
import json
import os
import re
import shutil

import vlib
import log_lib as L

META = {
    "property_id": "C18",
    "level": "proof",
    "technique": "Coq theorems over an executable model of log/context_utils.go + custom_level.go and of zap's With/Check/WrapCore (all operation sequences over any tree of contexts; all thread counts and schedules of the Load/CAS micro-step machine) + translator tie of the atomic-operation lists + in-kernel correspondence of model, abstract spec and the real package (sequences probed through a zaptest observer core, schedule replay on the instrumented source, race-detector stress)",
    "design_ref": "DESIGN.md §4 C18",
    "level_text": "Proof: LogCtxProofs.v shows that for every global logger and every sequence (any length) of InitLogger/ChildLogger/WithFields/SetLevel/EnableDebug/context derivations over the growing tree of contexts, a log call through any context at any level captures exactly one entry with exactly the fields accumulated on that context's holder iff the level is at or above the one most recently set or inherited (C18_seq), and that for any number of goroutines and any schedule of the Load/CompareAndSwap micro-steps of WithFields/SetLevel on a shared holder, once all have returned the logger equals the sequential application of all operations in linearisation order: initial fields followed by a permutation of all added ones, level of the last linearised SetLevel (C18_conc, with program order: C18_conc_linearisable), that the retry loop is lock-free and obstruction-free (C18_conc_progress_*), and that the predicate the judge applies to the real code's final state is a consequence of these theorems (C18_judge_final_ok_sound). Props/C18.v is closed under the global context. The model is tied to the current source by (T) regenerating the atomic-operation lists of WithFields/SetLevel from log/context_utils.go and comparing by eq_refl, and (C) running the real package on generated sequences (every context probed at every level after every step) and replaying generated schedules on the instrumented source, each observation judged inside Coq against model and spec.",
    "level_note": "Trusted: Coq 8.16.1 kernel + vm_compute; the hand-written model of zap v1.25 (Logger.With/WithOptions/check, Core.With/Check/Write incl. method promotion through the embedded Core) and of context.Context value lookup, validated (not proved) by the correspondence run; the translator/instrumenter xlate_logconc and the baton-passing scheduler logsched; sequentially consistent sync/atomic; Go harness. Partial: data-race freedom and the free-running Go scheduler are exercised by the -race stress of the thorough tier, not proved. No axioms.",
}

TRUSTED = [
    "Coq 8.16.1 kernel and VM (vm_compute); no native_compute; no axioms (Print Assumptions: closed under the global context)",
    "hand-written model coq/theories/LogCtxModel.v of log/context_utils.go, log/custom_level.go and of go.uber.org/zap v1.25 (Logger.With zero-field shortcut, WithOptions(WrapCore), Logger.check, Core.With/Check/Write, Go method promotion through the embedded zapcore.Core), tied by correspondence only",
    "translator/instrumenter harness/cmd/xlate_logconc (go/ast) and scheduler harness/internal/logsched; validated by the schedule replay that accompanies the eq_refl tie",
    "sequentially consistent sync/atomic (atomic.Pointer Load/Store/CompareAndSwap), pointer identity modelled by allocation stamps",
    "Go harnesses harness/cmd/c18, harness/cmd/c18conc (generators, observer-core probing), Go 1.23 toolchain",
]


def seq_part(ctx, binp, quick):
    runs = [("corpus", ["-mode", "corpus"])]
    extra = corpus_cases("seq")
    nrand, nnear = (220, 130) if quick else (6000, 3000)
    terms, jsons, err = vlib.harness_cases(ctx, binp, runs)
    if not err and extra:
        t, j, err = L.replay_seq(ctx, binp, extra, "corpusfiles")
        terms, jsons = terms + t, jsons + j
    if not err:
        t, j, err = vlib.harness_cases(ctx, binp, [("random", ["-mode", "random", "-n", nrand]),
                                                   ("nearmiss", ["-mode", "nearmiss", "-n", nnear])])
        terms, jsons = terms + t, jsons + j
    if err:
        ctx.report({"unchecked": "sequential harness run", "detail": err}, {"kind": "harness"},
                   failing_input=False)
        return None
    bad, nt, err = ctx.judge_cases(L.HEADER, "lc_case", "lc_judge", terms, shard=25 if quick else 120,
                                   nontrivial="lc_nontrivial", tag="seq")
    if err:
        ctx.report({"unchecked": "in-kernel evaluation of the sequential correspondence", "detail": err},
                   {"kind": "coq_eval"}, failing_input=False)
        return None
    seen = set()
    bad.sort(key=lambda b: (b[1] != 1, b[0]))          # concrete failing inputs first
    has_failing = any(code == 1 for _, code in bad)
    for i, code in bad:
        if code != 1 and has_failing:
            continue                                    # counted in the evidence; the run fails anyway
        j = jsons[i]
        key = (L.seq_shape(j), code)
        first = key not in seen
        seen.add(key)
        if first:
            j = L.minimise_seq(ctx, binp, j)
        rep = {"case": {"glob": j["glob"], "ops": j["ops"], "observed": j["obs"]},
               "observed_note": "per step (first entry: before any operation) the probes that changed: "
                                "ctx, fields captured, mask (bit i = one entry at level Debug+i)",
               "expected_spec": expected_for(ctx, j, "rep%d" % i) if first else "(see the first replay of this shape)",
               "verdict": {1: "observation violates the context-logger specification",
                           2: "observation satisfies the specification but differs from the Coq model"}[code],
               "replay_cmd": "./check C18 --replay <this file>"}
        L.report_capped(ctx, rep, {"kind": "seq", "shape": key[0]}, code == 1, 3)
    ctx.cov.update({
        "seq_cases": len(jsons),
        "seq_operations": sum(len(j["ops"]) for j in jsons),
        "seq_probes": sum((k + 2) * 4 for j in jsons for k in range(len(j["ops"]))),
        "seq_nontrivial_in_coq": nt,
        "seq_by_kind": L.hist(j["kind"] for j in jsons),
        "seq_length_histogram": L.hist(len(j["ops"]) for j in jsons),
        "seq_op_histogram": L.hist(o["op"] for j in jsons for o in j["ops"]),
        "seq_disagreements": len(bad),
    })
    ctx.log("sequential correspondence: %d cases, %d operations, %d disagreement(s)" % (
        len(jsons), ctx.cov["seq_operations"], len(bad)))
    global_swap_part(ctx, binp, quick)
    return jsons


def global_swap_part(ctx, binp, quick):
    """informational, never gates: sequences that also replace the global logger
    (zap.ReplaceGlobals) between operations — not one of the property's operations, but covered by
    the model and by C18_seq; a difference here is recorded in the evidence only"""
    t, j, err = vlib.harness_cases(ctx, binp, [("globalswap", ["-mode", "globalswap", "-n", 60 if quick else 1500])])
    if err:
        ctx.cov["global_swap"] = {"error": err[-500:]}
        return
    bad, _, err = ctx.judge_cases(L.HEADER, "lc_case", "lc_judge", t, shard=25 if quick else 120, tag="gswap")
    ctx.cov["global_swap"] = {"gating": False, "cases": len(j),
                              "global_replacements": sum(1 for c in j for o in c["ops"] if o["op"] == "Global"),
                              "disagreements": len(bad) if not err else None, "error": err and err[-500:],
                              "first_disagreeing_case": ({"glob": j[bad[0][0]]["glob"], "ops": j[bad[0][0]]["ops"]}
                                                         if bad else None)}
    ctx.log("informational (outside the quantifier, not gating): %d sequences with %d global-logger "
            "replacements, %s disagreement(s)" % (len(j), ctx.cov["global_swap"]["global_replacements"],
                                                  "?" if err else len(bad)))


TIE = """From Coq Require Import List.
From GT Require Import Base.LogConc.
From GT Require Import LogCtxModel.
From GTgen Require Import LogProgGen.
Lemma tie_withfields : gen_withfields = %s. Proof. reflexivity. Qed.
Lemma tie_setlevel : gen_setlevel = %s. Proof. reflexivity. Qed.
"""


def translator_tie(ctx):
    """(T): regenerate the atomic-operation lists of WithFields/SetLevel from the current source
    and compare them with the programs the concurrent theorems are about.  Returns
    (ok, description, xlate binary)."""
    xl, log = ctx.build_harness("xlate_logconc")
    if not xl:
        return False, "translator build failed:\n" + log[-2000:], None
    src = os.path.join(ctx.copy_repo(), "log", "context_utils.go")
    genp = os.path.join(ctx.scratch, "LogProgGen.txt")
    rc, out = vlib.sh([xl, "-src", src, "-gen", genp], timeout=120)
    if rc != 0:
        return False, "translator failed:\n" + out[-2000:], xl
    listing = " ".join(out.split("\n")[:2])
    rc, out2 = ctx.coq_eval("LogProgGen", open(genp).read(), timeout=120)
    if rc != 0:
        return False, "source uses shared-memory operations outside the instruction set (%s):\n%s" % (
            listing, out2[-800:]), xl
    rc, out2 = ctx.coq_eval("LogProgTie", TIE % ("prog_withfields", "prog_setlevel"), timeout=120)
    if rc == 0:
        return True, listing, xl
    rc, _ = ctx.coq_eval("LogProgTieOrig", TIE % ("prog_withfields_orig", "prog_setlevel_orig"), timeout=120)
    if rc == 0:
        return False, ("source has the Load; Store programs (%s) that C18_conc_orig_refuted refutes, "
                       "not the Load; CompareAndSwap-retry programs of C18_conc" % listing), xl
    return False, "atomic-operation lists of the source (%s) differ from prog_withfields / prog_setlevel" % listing, xl


def conc_drop(c, t, i):
    """candidate: goroutine t without its operation i (whole goroutine when it gets empty)"""
    progs = [list(p) for p in c["progs"]]
    del progs[t][i]
    sched = list(c["sched"])
    if not progs[t]:
        if len(progs) <= 2:
            return None
        del progs[t]
        sched = [x - 1 if x > t else x for x in sched if x != t]
    return {"kind": c["kind"], "init": c["init"], "progs": progs, "prefix": sched}


def minimise_conc(ctx, binc, j, max_rounds=6, final=False):
    cur = j
    for rnd in range(max_rounds):
        cands = [conc_drop(cur, t, i) for t in range(len(cur["progs"])) for i in range(len(cur["progs"][t]))]
        cands = [c for c in cands if c]
        if not cands:
            break
        p = os.path.join(ctx.scratch, "cmin%d.jsonl" % rnd)
        with open(p, "w") as f:
            for c in cands:
                f.write(json.dumps(c) + "\n")
        terms, jsons, err = L.run_harness(ctx, binc, "cmin%d" % rnd, ["-mode", "replay", "-in", p] +
                                          (["-final"] if final else []))
        if err:
            break
        bad, _, err = ctx.judge_cases(L.HEADER, "sc_case" if final else "cc_case",
                                      "sc_judge" if final else "cc_judge", terms, shard=8, tag="cmin%d" % rnd)
        ones = [k for k, code in bad if code == 1] if not err else []
        if not ones:
            break
        cur = jsons[ones[0]]
        cur["kind"] = j["kind"].split("/")[0] + "/minimised"
    return cur


def build_conc(ctx):
    """translator tie, then instrument the scratch copy (never /repo) and build the replay harness
    against it.  Returns (binary or None, tie ok, tie message, build log)."""
    ok_tie, tie_msg, xl = translator_tie(ctx)
    ctx.log("translator tie (atomic-operation lists = model programs):", "OK" if ok_tie else "BROKEN", "-", tie_msg.splitlines()[0])
    ctx.cov["translator_tie"] = {"ok": ok_tie, "detail": tie_msg.splitlines()[0]}
    if not xl:
        return None, ok_tie, tie_msg, tie_msg
    src = os.path.join(ctx.copy_repo(), "log", "context_utils.go")
    rc, out = vlib.sh([xl, "-src", src, "-instrument"], timeout=120)
    ctx.add_repo_file("log/zz_verif_sched.go", L.SCHED_HOOK)
    binc, log = (None, out) if rc != 0 else ctx.build_harness("c18conc", tags="verif c18conc")
    return binc, ok_tie, tie_msg, log


def schedule_search(ctx, binc):
    """exhaustive enumeration of the schedules of the catalogue programs on the real code; returns
    the shortest case whose quiescent state violates final_ok according to Coq, or None"""
    budget, limit = (12, 45) if ctx.tier == "quick" else (16, 240)
    terms, jsons, err = L.run_harness(ctx, binc, "search", ["-mode", "search", "-budget", budget, "-limit", limit],
                                      timeout=limit + 60)
    if err or not jsons:
        ctx.cov["schedule_search"] = {"error": (err or "no output")[-500:]}
        return None
    explored = jsons[0].get("explored", 0)
    cand = [(t, j) for t, j in zip(terms, jsons) if j["kind"] == "search"]
    info = {"complete_schedules_explored": explored, "budget_steps": budget, "time_limit_s": limit,
            "candidates": len(cand), "timed_out": any(j["kind"] == "search-timeout" for j in jsons),
            "scheduler_error": next((j["err"] for j in jsons if j.get("err")), None)}
    ctx.cov["schedule_search"] = info
    if not cand:
        ctx.log("schedule search: %d complete schedules of the catalogue explored, no lost update" % explored)
        return None
    bad, _, err = ctx.judge_cases(L.HEADER, "sc_case", "sc_judge", [t for t, _ in cand], shard=50, tag="search")
    if err:
        info["error"] = err[-500:]
        return None
    ones = [k for k, code in bad if code == 1]
    info["violations"] = len(ones)
    ctx.log("schedule search: %d complete schedules explored, %d violate the specification" % (explored, len(ones)))
    if not ones:
        return None
    j = cand[ones[0]][1]                       # the harness orders candidates by schedule length
    return j


def last_resort_stress(ctx, binp):
    """1-2 s of free-running goroutines on the UNinstrumented code (harness built before the copy
    was instrumented); only final states that look like a lost update are written, Coq decides"""
    terms, jsons, err = L.run_harness(ctx, binp, "laststress", ["-mode", "stress", "-n", 12000, "-suspect"],
                                      timeout=120)
    info = {"iterations": 12000, "candidates": len(jsons), "error": err and err[-300:]}
    ctx.cov["last_resort_stress"] = info
    if err or not jsons:
        ctx.log("free-running stress (last resort): 12000 iterations, no lost update")
        return None
    bad, _, err = ctx.judge_cases(L.HEADER, "sc_case", "sc_judge", terms, shard=50, tag="laststress")
    ones = [k for k, code in bad if code == 1] if not err else []
    info["violations"] = len(ones)
    ctx.log("free-running stress (last resort): 12000 iterations, %d lost update(s)" % len(ones))
    if not ones:
        return None
    return min((jsons[k] for k in ones), key=lambda j: sum(len(p) for p in j["progs"]))


def conc_part(ctx, quick, binp=None):
    binc, ok_tie, tie_msg, log = build_conc(ctx)
    if not binc:
        ctx.report({"unchecked": "translator tie (T) / build of the instrumented copy of package log for "
                                 "schedule replay", "detail": log[-3000:], "translator_tie": tie_msg},
                   {"kind": "build"}, failing_input=False)
        return
    # the source has the model's programs: compare step by step with the Coq machine; otherwise
    # (tie broken: a program structure the model does not have) judge only the quiescent state
    final = not ok_tie
    fin = ["-final"] if final else []
    n = 240 if quick else 4000
    terms, jsons, err = vlib.harness_cases(ctx, binc, [("ccorpus", ["-mode", "corpus"] + fin)])
    extra = corpus_cases("conc")
    if not err and extra:
        p = os.path.join(ctx.scratch, "ccorpusfiles.jsonl")
        with open(p, "w") as f:
            for c in extra:
                f.write(json.dumps(c) + "\n")
        t, j, err = L.run_harness(ctx, binc, "ccorpusfiles", ["-mode", "replay", "-in", p] + fin)
        terms, jsons = terms + t, jsons + j
    if not err:
        t, j, err = vlib.harness_cases(ctx, binc, [("crandom", ["-mode", "random", "-n", n] + fin)])
        terms, jsons = terms + t, jsons + j
    sched_err = None
    if not err and any(j.get("err") for j in jsons):
        # a goroutine neither yielded nor returned: it blocks on something the instrumenter does
        # not know; keep the cases that did complete
        sched_err = "scheduler: " + next(j["err"] for j in jsons if j.get("err"))
        keep = [k for k, j in enumerate(jsons) if not j.get("err")]
        terms, jsons = [terms[k] for k in keep], [jsons[k] for k in keep]
    if err:
        ctx.report({"unchecked": "schedule replay run", "detail": err}, {"kind": "harness"}, failing_input=False)
        return
    for j in jsons:
        if j.get("sched") is None:          # Go writes an empty schedule (a nil slice) as null
            j["sched"] = []
    if final:
        bad, nt, err = ctx.judge_cases(L.HEADER, "sc_case", "sc_judge", terms, shard=60 if quick else 400,
                                       tag="conc")
        nt = sum(1 for j in jsons if len(set(j["sched"])) > 1)
    else:
        bad, nt, err = ctx.judge_cases(L.HEADER, "cc_case", "cc_judge", terms, shard=20 if quick else 150,
                                       nontrivial="cc_nontrivial", tag="conc")
    if err:
        ctx.report({"unchecked": "in-kernel evaluation of the schedule replay", "detail": err},
                   {"kind": "coq_eval"}, failing_input=False)
        return
    bad.sort(key=lambda b: (b[1] != 1, b[0]))          # concrete failing inputs get the replay slots
    ones = [i for i, code in bad if code == 1]
    twos = [i for i, code in bad if code != 1]

    def conc_report(j, code, extra=None):
        rep = {"case": {"init": j["init"], "progs": j["progs"], "sched": j["sched"],
                        "observed": j.get("obs", j.get("final")), "all_returned": j["done"]},
               "observed_note": "the shared logger probed after every step of the schedule (one atomic "
                                "operation of goroutine sched[i] per step; final-state cases: only after all "
                                "goroutines returned): fields, mask (bit i = entry at Debug+i)",
               "expected_spec": "when all goroutines have returned: initial fields followed by a permutation of "
                                "all added fields; level of a SetLevel that is last in its goroutine "
                                "(final_ok of LogCtxJudge.v, proved a consequence of C18_conc: C18_judge_final_ok_sound)",
               "translator_tie": tie_msg.splitlines()[0],
               "verdict": {1: "a field or a level change was lost",
                           2: "final state satisfies the specification but the step-by-step observations "
                              "differ from the Coq machine"}[code],
               "replay_cmd": "./check C18 --replay <this file>"}
        if j.get("judge") == "final":
            rep["case"]["judge"] = "final"
        rep.update(extra or {})
        L.report_capped(ctx, rep, {"kind": "conc", "shape": "lost_update" if code == 1 else "model_mismatch"},
                        code == 1, 5)

    found = None
    if ones and final:
        # a minimal witness: the exhaustive search over the catalogue of tiny programs (it stops
        # at the first, smallest, program pair that has a violating schedule)
        found = schedule_search(ctx, binc)
        if found:
            conc_report(found, 1, {"found_by": "exhaustive schedule search over the 2-goroutine catalogue (final "
                                               "state judged with final_ok), run to minimise: the generated replay "
                                               "cases had %d violations" % len(ones)})
    for k, i in enumerate(ones):
        j = minimise_conc(ctx, binc, jsons[i], final=final) if (k == 0 and not found) else jsons[i]
        conc_report(j, 1)
    if not ones and (twos or not ok_tie or sched_err):
        # the step structure of the code differs from the model's programs (or the tie is broken):
        # look for a concrete lost update on the real code, judging quiescent states only
        found = schedule_search(ctx, binc)
        if found:
            conc_report(found, 1, {"found_by": "exhaustive schedule search over the 2-goroutine catalogue "
                                               "(final state judged with final_ok); %d complete schedules explored; "
                                               "%d step-by-step disagreements with the Coq machine in the replay run"
                                               % (found.get("explored", 0), len(twos))})
    if not ones and not found and binp and (twos or not ok_tie or sched_err):
        found = last_resort_stress(ctx, binp)
        if found:
            found["sched"], found["done"] = "free-running (not deterministic)", True
            conc_report(found, 1, {"found_by": "free-running stress of the uninstrumented code (last resort); "
                                               "re-run ./check C18 to look for it again",
                                   "replay_cmd": "./check C18 (VERIF_SEED=%d); not deterministic" % ctx.seed})
    if not ones and not found and sched_err:
        ctx.report({"unchecked": "schedule replay: " + sched_err, "translator_tie": tie_msg},
                   {"kind": "harness"}, failing_input=False)
    if not ones and not found and getattr(ctx, "c18_failing", False):
        # the sequential part already reported concrete failing inputs; the concurrent part only
        # differs from the model (or its tie is broken): recorded in the evidence, the run fails anyway
        ctx.cov["conc_model_mismatches_not_reported"] = {"verdict_2_cases": len(twos), "tie_ok": ok_tie}
    elif not ones and not found:
        for i in twos[:2]:
            conc_report(jsons[i], 2)
        for _ in twos[2:]:
            ctx.violations.append("(not written)")
        if not ok_tie:
            ctx.report({"unchecked": "translator tie (T): gen_withfields = prog_withfields, gen_setlevel = prog_setlevel",
                        "detail": tie_msg, "schedule_search": ctx.cov.get("schedule_search")},
                       {"kind": "tie"}, failing_input=False)
    ctx.cov.update({
        "conc_cases": len(jsons),
        "conc_steps": sum(len(j["sched"]) for j in jsons),
        "conc_judged": "final state only (tie broken)" if final else "step by step against the Coq machine",
        "conc_nontrivial_in_coq": nt,
        "conc_threads_histogram": L.hist(len(j["progs"]) for j in jsons),
        "conc_disagreements": len(bad),
        "conc_samples": jsons[:1] + jsons[5:6],
        "conc_scheduler_error": sched_err,
    })
    ctx.log("schedule replay: %d cases, %d steps, %d interleaved non-trivially, %d disagreement(s)" % (
        len(jsons), ctx.cov["conc_steps"], nt, len(bad)))
    return jsons


def stress_part(ctx):
    """thorough tier: free-running goroutines on the uninstrumented code under the race detector"""
    if not shutil.which("gcc"):
        ctx.cov["stress"] = "skipped: no C compiler for -race"
        return None
    binr, log = ctx.build_harness("c18", race=True)
    if not binr:
        ctx.report({"unchecked": "race-detector build of the stress harness", "detail": log[-3000:]},
                   {"kind": "build"}, failing_input=False)
        return None
    return binr


def stress_run(ctx, binr):
    prefix = os.path.join(ctx.scratch, "cases_stress")
    env = dict(os.environ, GORACE="halt_on_error=0 exitcode=66")
    import subprocess
    try:
        r = subprocess.run([binr, "-seed", str(ctx.seed), "-out", prefix, "-mode", "stress", "-n", "30000"],
                           env=env, stdout=subprocess.PIPE, stderr=subprocess.STDOUT, text=True, timeout=1500)
        rc, out = r.returncode, r.stdout
    except subprocess.TimeoutExpired:
        rc, out = 124, "timeout"
    races = out.count("WARNING: DATA RACE")
    if races:
        ctx.report({"unchecked": "data-race freedom of concurrent WithFields/SetLevel (go -race)",
                    "detail": out[:3000]}, {"kind": "race"}, failing_input=True)
    elif rc != 0:
        ctx.report({"unchecked": "stress run", "detail": out[-3000:]}, {"kind": "harness"}, failing_input=False)
        return
    terms = open(prefix + ".cases").read().splitlines()
    jsons = [json.loads(l) for l in open(prefix + ".jsonl").read().splitlines()]
    bad, _, err = ctx.judge_cases(L.HEADER, "sc_case", "sc_judge", terms, shard=2000, tag="stress")
    if err:
        ctx.report({"unchecked": "in-kernel evaluation of the stress run", "detail": err},
                   {"kind": "coq_eval"}, failing_input=False)
        return
    for k, (i, code) in enumerate(bad):
        j = jsons[i]
        ctx.report({"case": j, "verdict": "free-running goroutines: a field or a level change was lost",
                    "replay_cmd": "./check C18 --tier thorough (VERIF_SEED=%d); not deterministic" % ctx.seed},
                   {"kind": "stress", "shape": "lost_update"}, failing_input=True)
        if k >= 5:
            break
    ctx.cov.update({"stress_iterations": len(jsons), "stress_lost_updates": len(bad), "stress_data_races": races,
                    "stress_threads_histogram": L.hist(j["threads"] for j in jsons)})
    ctx.log("race-detector stress: %d iterations, %d lost update(s), %d race report(s)" % (len(jsons), len(bad), races))


def expected_for(ctx, j, tag):
    ops = "[" + "; ".join(g_op(o) for o in j["ops"]) + "]"
    return L.spec_table(ctx, g_core(j["glob"]), ops, tag)


def g_fields(fs):
    return "[" + "; ".join(str(x) for x in (fs or [])) + "]"


def g_core(g):
    s = "(Base (%d)%%Z %s)" % (g["level"], g_fields(g.get("fields")))
    if g.get("wrap") is not None:
        s = "(Wrap %s (%d)%%Z)" % (s, g["wrap"])
    return s


def g_op(o):
    c = "%d%%nat" % o["ctx"]
    k = o["op"]
    if k in ("Init", "Child", "With"):
        return "O%s %s %s" % (k, c, g_fields(o.get("fields")))
    if k == "SetLevel":
        return "OSetLevel %s (%d)%%Z" % (c, o["level"])
    if k == "EnableDebug":
        return "OEnableDebug " + c
    if k == "Global":
        return "OSetGlobal (Base (%d)%%Z %s)" % (o["level"], g_fields(o.get("fields")))
    return "ODerive " + c


def corpus_cases(kind):
    d = os.path.join(vlib.VERIF, "corpus", "C18")
    out = []
    if os.path.isdir(d):
        for n in sorted(os.listdir(d)):
            if n.endswith(".json"):
                try:
                    c = json.load(open(os.path.join(d, n)))
                except ValueError:
                    continue
                if c.get("corpus_kind") == kind:
                    out.append(c)
    return out


def run(ctx):
    ctx.trusted = TRUSTED
    ctx.assumptions = [
        "the global zap logger is not replaced while contexts are in use (the property speaks of context loggers)",
        "probe levels Debug..Error (below DPanic, where zap's Logger.check applies the early Enabled test)",
        "sync/atomic operations are sequentially consistent; goroutines interleave at atomic-operation granularity",
    ]
    quick = ctx.tier == "quick"
    ctx.obligations_or_violation()
    ok, clog = ctx.coq_build(["theories/LogCtxJudge.vo"])
    if not ok:
        ctx.report({"unchecked": "build of the judge LogCtxJudge.v", "detail": clog[-3000:]},
                   {"kind": "coq_build"}, failing_input=False)
        return
    binp, log = ctx.build_harness("c18")
    if not binp:
        ctx.report({"unchecked": "harness build against the current tree", "detail": log[-3000:]},
                   {"kind": "build"}, failing_input=False)
        return
    binr = None if quick else stress_part(ctx)     # built before the copy is instrumented
    jsons = seq_part(ctx, binp, quick)
    if jsons is None:
        return
    if binr:
        stress_run(ctx, binr)
    cj = conc_part(ctx, quick, binp) or []
    nt = [j for j in jsons if L.seq_nontrivial(j)]
    cnt = [j for j in cj if len(j["sched"]) > 2 * sum(len(p) for p in j["progs"])]
    ctx.cov.update({
        "evaluations": len(jsons) + len(cj),
        "distinct_nontrivial": vlib.distinct_count([[j["glob"], j["ops"]] for j in nt]) +
        vlib.distinct_count([[j["init"], j["progs"], j["sched"]] for j in cnt]),
        "distinct_nontrivial_seq": vlib.distinct_count([[j["glob"], j["ops"]] for j in nt]),
        "distinct_nontrivial_conc": vlib.distinct_count([[j["init"], j["progs"], j["sched"]] for j in cnt]),
        "rule": "sequential cases = operation sequences (<=25 ops: InitLogger/ChildLogger/WithFields/SetLevel/"
                "EnableDebug/derived contexts, 0-3 fields per call with repeating names, levels Debug..Error, "
                "global level Debug..Error, occasionally a wrapped global) with every context probed at every "
                "level before the first and after every operation; non-trivial = some WithFields/ChildLogger with "
                "at least one field is applied after a level was set; distinct by (global, ops). Concurrent "
                "cases = 2-4 goroutines x 1-3 WithFields/SetLevel on contexts sharing a holder, replayed under a "
                "generated schedule with the shared logger probed after every step; non-trivial = the schedule is "
                "longer than two steps per operation, i.e. some CompareAndSwap failed or a returned goroutine was "
                "scheduled; distinct by (initial logger, programs, schedule)",
        "exhaustive": False,
        "samples": [L.view(j) for j in jsons[:2] + jsons[8:9]],
    })


def replay(ctx, path):
    """re-run the recorded case on the current tree, judge it inside Coq, print the verdict"""
    rep = json.load(open(path))
    case = rep.get("case", rep)
    print(json.dumps({k: v for k, v in case.items() if k != "observed"}, indent=1))
    ok, clog = ctx.coq_build(["theories/LogCtxJudge.vo"])
    if not ok:
        print(clog[-2000:])
        return 2
    if "progs" in case and "sched" in case:
        binc, ok_tie, tie_msg, log = build_conc(ctx)
        if not binc:
            print("build failed:\n" + log[-2000:])
            return 2
        p = os.path.join(ctx.scratch, "replay.jsonl")
        with open(p, "w") as f:
            f.write(json.dumps({"kind": "replay", "init": case["init"], "progs": case["progs"],
                                "prefix": case["sched"]}) + "\n")
        final = case.get("judge") == "final"
        terms, jsons, err = L.run_harness(ctx, binc, "replay", ["-mode", "replay", "-in", p] + (["-final"] if final else []))
        if err:
            print(err)
            return 2
        bad, _, err = ctx.judge_cases(L.HEADER, "sc_case" if final else "cc_case",
                                      "sc_judge" if final else "cc_judge", terms, shard=8, tag="replay")
        if err:
            print(err)
            return 2
        print("schedule executed:", jsons[0]["sched"], "all returned:", jsons[0]["done"])
        if final:
            print("shared logger after all goroutines returned:", json.dumps(jsons[0]["final"]))
        else:
            print("shared logger after every step:", json.dumps(jsons[0]["obs"]))
    elif "ops" in case:
        binp, log = ctx.build_harness("c18")
        if not binp:
            print("harness build failed:\n" + log[-2000:])
            return 2
        terms, jsons, err = L.replay_seq(ctx, binp, [case], "replay")
        if err:
            print(err)
            return 2
        bad, _, err = L.judge_seq(ctx, terms, "replay")
        if err:
            print(err)
            return 2
        print("observed now:", json.dumps(jsons[0]["obs"]))
        print("expected (spec):", expected_for(ctx, jsons[0], "replay"))
    else:
        print("no replayable input in this file (%s); re-run with: ./check C18 --tier %s (VERIF_SEED=%s)" % (
            rep.get("unchecked", "stress case"), rep.get("tier"), rep.get("seed")))
        return 0
    if bad:
        print("REPRODUCED: verdict code %d (1 = violates the specification, 2 = differs from the model)" % bad[0][1])
        return 1
    print("not reproduced: the current tree satisfies the specification on this case")
    return 0
