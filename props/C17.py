"""C17 — set: JSON and YAML encodings of Set round-trip membership."""
import json
import vlib

META = {
    "property_id": "C17",
    "level": "proof",
    "coq_targets": ["SetCodecJudge.vo"],
    "technique": "Coq theorem: for every element type, source set, target set and map iteration order, decode(encode(s)) into t has exactly the members of t and s, given a listing codec that round-trips (section hypothesis = library behaviour); in-kernel correspondence on real encoding/json and yaml.v3 round trips",
    "design_ref": "DESIGN.md §4 C17",
    "level_text": "Proof (partial on the library side): SetCodecProofs.v, built on the C07 lemmas, shows for every element type with decidable equality, every well-formed source and target set (nil, empty, pre-filled) and every order in which the runtime may list the map, that the model of Marshal*/Unmarshal* lists each member exactly once (nil slice exactly for the empty set), that decoding succeeds and yields exactly the union, and never removes a member of the target - under the hypothesis that the library's element codec round-trips a listing. That hypothesis is library behaviour no Gallina model can carry; it is validated per case: the real json/yaml encoders and decoders are run on sets of string (empty, unicode, YAML-significant), int, float, bool and struct elements, standalone and as struct fields, and every observation is judged inside Coq against the spec and the model.",
    "level_note": "Trusted: Coq kernel + vm_compute; the hypothesis dec(enc l)=Some l for encoding/json and yaml.v3 element codecs (validated per case, not proved); the model's fidelity (correspondence); Go harness. No axioms.",
}

TRUSTED = [
    "Coq 8.16.1 kernel and VM (vm_compute); no axioms (Print Assumptions: closed under the global context)",
    "section hypothesis: the element codec of encoding/json resp. gopkg.in/yaml.v3 round-trips a listing (dec (enc l) = Some l; nil slice decodes to no items) - library behaviour, validated per case",
    "hand-written models SetModel.v / SetCodecModel.v of set/set.go, tied by correspondence only",
    "Go harness harness/cmd/c17",
]

HEADER = ("From Coq Require Import ZArith List Bool.\nImport ListNotations.\n"
          "From GT Require Import Base.Verdict SetModel SetCodecModel SetCodecJudge.\n")


def nontrivial(j):
    """non-trivial: non-empty source with >= 2 distinct members, or a nil/empty source decoded
    into a pre-filled target, or a pre-filled target overlapping the source"""
    src, tgt = set(j.get("src") or []), set(j.get("tgt") or [])
    return len(src) >= 2 or (not src and bool(tgt)) or bool(src & tgt)


def run(ctx):
    ctx.trusted = TRUSTED
    ctx.assumptions = ["element types are ones encoding/json and yaml.v3 support and round-trip (strings incl. YAML-significant ones, ints, finite floats, bools, small structs); NaN excluded"]
    ctx.obligations_or_violation()
    binp, log = ctx.build_harness("c17")
    if not binp:
        ctx.report({"unchecked": "harness build against the current tree", "detail": log[-3000:]},
                   {"kind": "build"}, failing_input=False)
        return
    quick = ctx.tier == "quick"
    runs = [("corpus", ["-mode", "corpus"]), ("random", ["-mode", "random", "-n", 800 if quick else 40000])]
    terms, jsons, err = vlib.harness_cases(ctx, binp, runs)
    if err:
        ctx.report({"unchecked": "harness run", "detail": err}, {"kind": "harness"}, failing_input=False)
        return
    bad, _, err = ctx.judge_cases(HEADER, "codec_case", "codec_judge", terms, shard=400)
    if err:
        ctx.report({"unchecked": "in-kernel evaluation of the correspondence", "detail": err},
                   {"kind": "coq_eval"}, failing_input=False)
        return
    for i, code in sorted(bad, key=lambda x: (x[1], x[0])):   # failing inputs (code 1) first
        j = jsons[i]
        ctx.report({"case": j, "verdict": {1: "round trip violates the membership specification",
                                           2: "observation differs from the Coq model"}[code]},
                   {"kind": j["kind"], "elem": j["elem"], "codec": j["codec"], "field": j["as_struct_field"],
                    "src_empty": not j.get("src"), "tgt_nil": j["tgt_nil"]},
                   failing_input=(code == 1))
    nt = [j for j in jsons if nontrivial(j)]
    key = lambda j: [j["elem"], j["codec"], j["as_struct_field"], j["universe"], j.get("src"), j["src_nil"], j.get("tgt"), j["tgt_nil"]]
    ctx.cov.update({
        "evaluations": len(jsons),
        "distinct_nontrivial": vlib.distinct_count([key(j) for j in nt]),
        "rule": "cases = (element type, codec json|yaml, standalone|struct field, source set nil/empty/<=50 members, "
                "target nil/empty/pre-filled); observed: encoded document (null?), its listing through the plain "
                "library, decode error, members of the target afterwards. non-trivial = source with >= 2 members, or "
                "empty source into a pre-filled target, or target overlapping the source; distinct by all inputs",
        "elem_histogram": hist(j["elem"] for j in jsons),
        "codec_histogram": hist(j["codec"] + ("/field" if j["as_struct_field"] else "") for j in jsons),
        "source_size_histogram": hist(str(10 * (len(set(j.get("src") or [])) // 10)) + "+" for j in jsons),
        "target_kind_histogram": hist("nil" if j["tgt_nil"] else ("empty" if not j.get("tgt") else "prefilled") for j in jsons),
        "samples": [jsons[1], jsons[30]],
        "disagreements": len(bad),
    })
    ctx.log("correspondence: %d round trips, %d disagreement(s)" % (len(jsons), len(bad)))


def hist(it):
    h = {}
    for x in it:
        h[x] = h.get(x, 0) + 1
    return h


def replay(ctx, path):
    rep = json.load(open(path))
    print(json.dumps(rep.get("case", rep), indent=1))
    print("re-run: VERIF_SEED=%s ./check C17 --tier %s" % (rep.get("seed"), rep.get("tier")))
    return 0
