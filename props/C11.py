"""C11 — set: BitSet is exact bit-set algebra and reports changes truthfully."""
import json
import os
import vlib

META = {
    "property_id": "C11",
    "level": "proof",
    "coq_targets": ["BitSetJudge.vo", "Base/SetLoopTie.vo"],
    "technique": "translator tie (bit_set.go regenerated to Gallina every run, proved equal to the model) + Coq theorems over an executable N-model of bit_set.go (all widths, all argument lists, all op sequences) + in-kernel correspondence of model, abstract spec and real BitSet on generated op sequences and the 8-bit sweep",
    "design_ref": "DESIGN.md §4 C11",
    "level_text": "Proof: BitSetProofs.v shows, for every N (hence every flag width incl. bit 63), every argument list and every operation sequence, that the model of set/bit_set.go computes exactly union / difference / intersection / subset tests and that Add/Remove return true iff the stored bits changed, and that a multi-argument call equals one-at-a-time calls (Props/C11.v, closed under the global context). The model is tied to the current source by running the real generic BitSet over uint8/16/32/64/uint on generated sequences and the exhaustive 8-bit (set, flag) sweep and judging every observation inside Coq against both the model and the abstract spec.",
    "level_note": "Trusted: Coq 8.16.1 kernel + vm_compute; the hand-written model's fidelity is checked (not proved) by the correspondence run; Go harness/generator; Go's uint64 bit operators. No axioms.",
}

TRUSTED = [
    "Coq 8.16.1 kernel and VM (vm_compute); no native_compute; no axioms (Print Assumptions: closed under the global context)",
    "hand-written model coq/theories/BitSetModel.v of set/bit_set.go, tied by correspondence only",
    "Go harness harness/cmd/c11 (generator, observation of bits/results; every sequence runs under recover(), a panicking operation ends it and is a failing input), Go 1.23 toolchain",
    "file set of the translator: harness/internal/srcset (all non-test .go files of package set matching the build context of the harness build)",
    "translator harness/cmd/xlate_bitset + harness/internal/setxl (go/parser -> Gallina for a subset of Go: helper functions, index loops, if/else with return/continue/break, op-assignments); its output is proved equal to the model for all arguments by coq/ties/Tie_C11.v (shape-independent tactics of Base/SetLoopTie.v); the translator itself is validated by the correspondence run",
]


def nontrivial(j):
    """a case is non-trivial when some Add/Remove/HasAny gets a zero, composite (multi-bit) or
    repeated argument, or more than one argument"""
    for o in j["ops"]:
        if o["op"] in ("Add", "Remove", "HasAny"):
            a = o["args"] or []
            if len(a) > 1 or any(x == 0 or (x & (x - 1)) for x in a):
                return True
    return False


def features(j, idx_bad=None):
    return {"kind": j.get("kind")}


def run(ctx):
    ctx.trusted = TRUSTED
    ctx.assumptions = ["sequentially used BitSet values (no concurrency claimed by the property)",
                       "flag types are the unsigned integer types admitted by the package's constraint"]
    ctx.obligations_or_violation()
    binp, log = ctx.build_harness("c11")
    if not binp:
        ctx.report({"unchecked": "harness build against the current tree", "detail": log[-3000:]},
                   {"kind": "build"}, failing_input=False)
        return
    quick = ctx.tier == "quick"
    tie_ok, tie_detail = ctx.translator_tie(
        "xlate_bitset", ["-src", os.path.join(ctx.copy_repo(), "set", "bit_set.go")], "BitSetGen", "Tie_C11")
    ctx.log("translator tie:", "OK" if tie_ok else "BROKEN", "-", tie_detail.splitlines()[0])
    widen = 1
    runs = [("corpus", ["-mode", "corpus"]),
            ("random", ["-mode", "random", "-n", (600 if quick else 20000) * widen]),
            ("sweep", ["-mode", "sweep", "-n", 12 * widen if quick else 256])]
    terms, jsons, err = vlib.harness_cases(ctx, binp, runs)
    if err:
        ctx.report({"unchecked": "harness run", "detail": err}, {"kind": "harness"}, failing_input=False)
        return
    header = ("From Coq Require Import NArith List Bool.\nImport ListNotations.\n"
              "From GT Require Import Base.Verdict BitSetModel BitSetJudge.\n")
    # big sweep cases go one per shard, small ones 500 per shard
    small = [(i, t) for i, t in enumerate(terms) if jsons[i]["kind"] != "sweep8"]
    big = [(i, t) for i, t in enumerate(terms) if jsons[i]["kind"] == "sweep8"]
    bad = []
    for group, shard, tag in ((small, 500, "seq"), (big, 4, "sweep")):
        if not group:
            continue
        b, _, err = ctx.judge_cases(header, "bs_case", "bs_judge", [t for _, t in group],
                                    shard=shard, tag=tag)
        if err:
            ctx.report({"unchecked": "in-kernel evaluation of the correspondence", "detail": err},
                       {"kind": "coq_eval"}, failing_input=False)
            return
        bad += [(group[k][0], code) for k, code in b]
    for i, code in sorted(bad, key=lambda x: (x[1], x[0])):   # failing inputs (code 1) first
        j = jsons[i]
        if ctx.nreplay < 5:
            j = minimise(ctx, header, j)
        rep = {"case": shrink_view(j), "verdict": {1: "observation violates the bit-set specification",
                                                   2: "observation differs from the Coq model"}[code],
               "replay_cmd": "./check C11 --replay <this file>"}
        ctx.report(rep, features(j), failing_input=(code == 1))
    if not tie_ok and not ctx.violations:
        # a broken tie with a clean correspondence run: widen the search for a failing input
        # beyond the caps of the ordinary run: argument lists up to twice the largest integer literal of the
        # source (thresholds such as `len(flags) > 4`), at least 32
        import re
        src = re.sub(r"//[^\n]*", "", open(os.path.join(ctx.copy_repo(), "set", "bit_set.go"), errors="replace").read()) \
            if os.path.isfile(os.path.join(ctx.copy_repo(), "set", "bit_set.go")) else ""
        for name in sorted(os.listdir(os.path.join(ctx.copy_repo(), "set"))):
            if name.endswith(".go") and not name.endswith("_test.go") and name != "bit_set.go":
                src += re.sub(r"//[^\n]*", "", open(os.path.join(ctx.copy_repo(), "set", name), errors="replace").read())
        lits = [int(m) for m in re.findall(r"(?<![\w.])(\d{1,3})(?![\w.])", src) if 2 <= int(m) <= 100]
        maxargs = max([32] + [2 * v + 2 for v in lits])
        t2, j2, err = vlib.harness_cases(ctx, binp, [("widen", ["-mode", "random", "-n", 2500, "-maxargs", maxargs, "-seed", ctx.seed + 7919]),
                                                     ("widensweep", ["-mode", "sweep", "-n", 24, "-seed", ctx.seed + 104729])])
        if not err:
            sm = [(i, t) for i, t in enumerate(t2) if j2[i]["kind"] != "sweep8"]
            bg = [(i, t) for i, t in enumerate(t2) if j2[i]["kind"] == "sweep8"]
            for group, shard, tag in ((sm, 500, "wseq"), (bg, 4, "wsweep")):
                b, _, err = ctx.judge_cases(header, "bs_case", "bs_judge", [t for _, t in group], shard=shard, tag=tag)
                for k, code in (b or []):
                    j = minimise(ctx, header, j2[group[k][0]]) if ctx.nreplay < 5 else j2[group[k][0]]
                    ctx.report({"case": shrink_view(j), "found_by": "widened search after the translator tie broke",
                                "verdict": "observation violates the bit-set specification" if code == 1 else "observation differs from the Coq model"},
                               features(j), failing_input=(code == 1))
            jsons += j2
    if not tie_ok and not ctx.violations:
        ctx.report({"unchecked": "translator tie coq/ties/Tie_C11.v against BitSetGen.v regenerated from set/bit_set.go",
                    "detail": tie_detail, "search": "widened correspondence run (%d cases) found no failing input" % len(jsons)},
                   {"kind": "tie"}, failing_input=False)
    triples = 0
    if not quick:
        triples = triple_sweep(ctx, binp, header)
    ops = sum(len(j["ops"]) for j in jsons)
    nt = [j for j in jsons if nontrivial(j)]
    ctx.cov.update({
        "evaluations": len(jsons),
        "operations_compared": ops,
        "distinct_nontrivial": vlib.distinct_count([[j["width"], j["init"], j["ops"]] for j in nt]),
        "rule": "cases = op sequences (<=30 ops, widths 8/16/32/64/uint, flags zero/single/composite/"
                "partly-present/top-bit) + 8-bit sweep cases (one stored value x all 256 flags x "
                "Add/Remove/Has/HasAny/MaskOf); non-trivial = some Add/Remove/HasAny has a zero, "
                "multi-bit or repeated argument or more than one argument; distinct by (width, init, ops)",
        "exhaustive": (not quick),
        "exhaustive_note": "thorough tier enumerates all 65536 (set, flag) pairs of the 8-bit type; quick samples 12 stored values x all 256 flags",
        "by_kind": {k: sum(1 for j in jsons if j["kind"] == k) for k in sorted({j["kind"] for j in jsons})},
        "width_histogram": {str(w): sum(1 for j in jsons if j["width"] == w) for w in (8, 16, 32, 64)},
        "op_histogram": hist(o["op"] for j in jsons if j["kind"] != "sweep8" for o in j["ops"]),
        "samples": [shrink_view(j) for j in jsons[:2] + jsons[3:5]],
        "disagreements": len(bad),
        "triples_checked": triples,
        "triples_note": "thorough tier: all 2^24 (set, flag, flag) triples of the 8-bit type through Add(f,g)/Remove(f,g), compared by per-set checksum computed on the real code, the model and the spec",
    })
    ctx.log("correspondence: %d cases, %d operations, %d disagreement(s)" % (len(jsons), ops, len(bad)))


def triple_sweep(ctx, binp, header):
    """all (s, f, g) of the 8-bit type: per-s checksum from the real code vs model and spec"""
    terms, jsons, err = vlib.harness_cases(ctx, binp, [("triples", ["-mode", "triples"])])
    if err:
        ctx.report({"unchecked": "triple sweep harness run", "detail": err}, {"kind": "harness"}, failing_input=False)
        return 0
    bad, _, err = ctx.judge_cases(header, "tri_case", "tri_judge", terms, shard=16, tag="tri", timeout=1500)
    if err:
        ctx.report({"unchecked": "in-kernel evaluation of the triple sweep", "detail": err},
                   {"kind": "coq_eval"}, failing_input=False)
        return 0
    for i, code in bad[:2]:
        s = jsons[i]["s"]
        t2, j2, err = vlib.harness_cases(ctx, binp, [("tripledetail", ["-mode", "tripledetail", "-n", s])])
        found = False
        if not err:
            b2, _, err = ctx.judge_cases(header, "bs_case", "bs_judge", t2, shard=16, tag="trid")
            for k, c2 in (b2 or [])[:1]:
                j = minimise(ctx, header, j2[k])
                ctx.report({"case": shrink_view(j), "verdict": "observation violates the bit-set specification"},
                           features(j), failing_input=(c2 == 1))
                found = True
        if not found:
            ctx.report({"unchecked": "triple checksum for stored value %d" % s, "case": jsons[i]},
                       {"kind": "triples8"}, failing_input=False)
    ctx.log("triple sweep: 256 stored values x 65536 (flag, flag) pairs, %d checksum mismatch(es)" % len(bad))
    return 256 * 65536


def g_op(o):
    a = o["args"] or []
    lst = vlib.g_list([vlib.g_N(x) for x in a])
    return {"Make": "BMake " + lst, "Add": "BAdd " + lst, "Remove": "BRemove " + lst,
            "HasAny": "BHasAny " + lst}.get(o["op"]) or (
        ("BMaskOf " if o["op"] == "MaskOf" else "BHas ") + vlib.g_N(a[0]))


def minimise(ctx, header, j):
    """localise a failing sequence to its first failing single step (state before it is the
    implementation's own previous observation), judged again inside Coq"""
    steps, prev = [], j["init"]
    for o, ob in zip(j["ops"], j["obs"]):
        steps.append((prev, o, ob))
        prev = ob["bits"]
    terms = ["{| bc_init := %s; bc_ops := [%s]; bc_obs := [(%s, %s)] |}" % (
        vlib.g_N(p), g_op(o), vlib.g_N(ob["bits"]), vlib.g_bool(ob["res"])) for p, o, ob in steps]
    bad, _, err = ctx.judge_cases(header, "bs_case", "bs_judge", terms, shard=4000, tag="min")
    if err or not bad:
        return j
    k = bad[0][0]
    p, o, ob = steps[k]
    return {"kind": j["kind"] + "/minimised-step", "width": j["width"], "init": p, "ops": [o],
            "obs": [ob], "from_step": k}


def hist(it):
    h = {}
    for x in it:
        h[x] = h.get(x, 0) + 1
    return h


def shrink_view(j):
    if len(j["ops"]) > 40:
        j = dict(j)
        j["ops"] = j["ops"][:12] + [{"op": "...", "args": [len(j["ops"]) - 12]}]
        j["obs"] = j["obs"][:12]
    return j


def replay(ctx, path):
    """re-run the recorded operation sequence on the current tree and print the observations"""
    rep = json.load(open(path))
    print(json.dumps(rep.get("case", rep), indent=1))
    print("re-run with: ./check C11 --tier quick  (VERIF_SEED=%s)" % rep.get("seed"))
    return 0
