"""helpers shared by the C08 / C14 plugins (generator farms)."""
import os

import vlib


def repo_env():
    """environment for building inside the scratch copy of the repository (workspace mode: the
    copy has the repo's go.work; -mod=mod must not be set there)"""
    e = dict(os.environ)
    e.pop("GOFLAGS", None)
    e.pop("GOWORK", None)
    e.update(GOPROXY="off", GOSUMDB="off", GOTOOLCHAIN="local",
             CGO_ENABLED=e.get("CGO_ENABLED", "0"))
    return e


def build_cli(ctx, module, name):
    """build <module>/cmd/<name> of the scratch copy of the current tree (the real CLI, exactly
    the package `go install` would build).  Returns (path or None, log)."""
    repo = ctx.copy_repo()
    out = os.path.join(ctx.scratch, "bin", name)
    os.makedirs(os.path.dirname(out), exist_ok=True)
    rc, log = vlib.sh(["go", "build", "-trimpath", "-o", out, "./cmd/" + name],
                      cwd=os.path.join(repo, module), env=repo_env(), timeout=900)
    return (out if rc == 0 else None), log


def hist(it):
    h = {}
    for x in it:
        h[str(x)] = h.get(str(x), 0) + 1
    return h
