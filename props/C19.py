"""C19 — gencommon: the interface rendered from FindInterface compiles and fits."""
import json
import os

import iface_lib as il
import vlib

META = {
    "property_id": "C19",
    "level": "proof",
    "technique": "Coq theorems over an executable model of gencommon's FindInterface pipeline (parameter naming for all parameter lists, embedded-method merge for all embedding trees incl. interfaces embedding interfaces, fresh names for on-demand imports, type-reference rendering and import activation for all type ASTs) + translator ties (params.go/method.go, ImportString, the merge loop of interface.go regenerated as Gallina and proved equal to the model for all arguments each run, robust to renames/helper extraction/loop forms; basic-kind table) + a build farm: generated packages run through the real FindInterface, every observation judged inside Coq against model and specification, the rendered interface compiled against the original type",
    "design_ref": "DESIGN.md §4 C19",
    "level_text": "Proof: IFace*Proofs.v show for the model of params.go/method.go/interface.go/imports.go (current tree) that parameter names are pairwise distinct valid identifiers keeping the user's names (all parameter lists, any length, any mix of unnamed/_/user-chosen names incl. arg0/ret0/ctx/err), that the collected method set is exactly own + promoted-and-unambiguous methods with the private filter (interfaces that embed interfaces: their method set is a set, shared methods are one method), that the imports FindInterface returns bind pairwise distinct names none of which is a package-level name (proved from calcImports/addNamed, not assumed), and that every rendered type reference denotes the original type under those imports, which contain every qualifier used (Props/C19.v, no axioms); the rendered TEXT parses back to the reference it was printed from (Gallina parser, round-trip theorem) and the parsed tree denotes the original type. Translator tie: the parameter-naming functions, ImportString, calcImports' loop, unusedName, addNamed, every case of ExtractTypeRef, ParamsFromSignatureTuple, MethodFromSignature, Declarations/TypeNames/Signature (closed over their mutual recursion: tie_extract), the own-methods loop, the embedded-method merge loop and the listing condition are regenerated from the source each run and proved equal to the model for all arguments. The rest (the field traversal of namedTypeToInterface, GetActive) is tied by a farm of generated packages per the property's quantifier; compiler acceptance of the rendered interface is observed, not proved (partial).",
    "level_note": "Trusted: Coq 8.16.1 kernel + vm_compute; hand-written model tied by correspondence only; go/types (type ASTs, TypeImplements oracle bits, method set cross-check), go/packages, the Go compiler as the judge of 'compiles and fits'; harness generator. No axioms.",
}

TRUSTED = [
    "Coq 8.16.1 kernel and VM (vm_compute); no native_compute; no axioms",
    "hand-written model coq/theories/IFaceModel.v of gencommon/{params,method,imports,interface}.go; tied by translator (T) for parameter naming, ImportString, calcImports' loop, unusedName, addNamed, ExtractTypeRef, ParamsFromSignatureTuple, MethodFromSignature, Declarations/TypeNames/Signature, the own-methods loop, the merge loop and the listing condition, by correspondence (C) for the rest (the field traversal and final filter of namedTypeToInterface, GetActive)",
    "go/types and golang.org/x/tools/go/packages: the type ASTs, the per-parameter 'implements context.Context / error' bits (gencommon.TypeImplements) and the method set of *T are read off them; the model's formalisation of the selector rule (go_ms) is compared with go/types on every case",
    "the Go 1.23 compiler: acceptance of `type Rendered interface{...}; var _ Rendered = (*T)(nil)` is observed (partial: no Gallina model of the compiler)",
    "translators harness/cmd/xlate_params (go/parser; subset and reference-threading convention in its header; primitives coq/theories/IFaceGenPrims.v incl. the loop bound loop_fuel) and harness/cmd/xlate_basic_kinds; both validated by the correspondence run",
    "Go harness harness/cmd/c19 (program generator, source printer, intent cross-check, import pruning of the rendered file)",
]

HEADER = ("From Coq Require Import List Bool String NArith.\nImport ListNotations.\n"
          "From GT Require Import Base.Verdict IFaceModel IFaceJudge.\nLocal Open Scope string_scope.\n")

VERDICT = {1: "observation violates the specification (names / method set / does not compile and fit)",
           2: "observation satisfies the specification but differs from the Coq model",
           3: "the model's selector rule (go_ms) or interface union (iface_methods) disagrees with go/types on this tree"}


def run_harness(ctx, binp, runs):
    rr = []
    for tag, args in runs:
        work = os.path.join(ctx.scratch, "farm_" + tag)
        rr.append((tag, args + ["-work", work]))
    return vlib.harness_cases(ctx, binp, rr, timeout=1500)


def judge(ctx, terms, tag, fn="c19_judge", nontrivial=None):
    return ctx.judge_cases(HEADER, "c19_case", fn, terms, shard=40, tag=tag, nontrivial=nontrivial)


def minimise(ctx, binp, j, feats):
    """re-run the real code on the program reduced to the methods involved; keep the reduced
    case when it still fails"""
    keep = feats.get("methods_involved") or [o["name"] for o in j["obs"]][:1]
    try:
        d = il.reduce_desc(j, keep)
        pf = il.write_progs(os.path.join(ctx.scratch, "reduce_%d.json" % ctx.nreplay), [d])
        terms, jsons, err = run_harness(ctx, binp, [("reduce%d" % ctx.nreplay, ["-mode", "progs", "-progs", pf])])
        if err:
            return j
        bad, _, err = judge(ctx, terms, "min")
        if err:
            return j
        for i, code in bad:
            c = jsons[i]
            if c["priv"] == j["priv"] and c["emb"] == j["emb"] and code in (1, 2):
                return c
    except Exception as ex:  # reduction is best effort
        ctx.log("reduction failed:", ex)
    return j


def shapes_of(jsons, bad):
    """one entry per distinct shape of failure: [size, index, code, features] of its smallest case"""
    shapes = {}
    for i, code in bad:
        feats = dict(il.classify(jsons[i]), code=code)
        key = json.dumps({k: v for k, v in feats.items()
                          if k not in ("methods_involved", "options", "kind", "embedding_height")}, sort_keys=True)
        size = len(json.dumps(jsons[i]["tree"]))
        if key not in shapes or size < shapes[key][0]:
            shapes[key] = [size, i, code, feats]
    return list(shapes.values())


def translator_ties(ctx, pending):
    """(T) Tie_C19: params.go/method.go translated to Gallina = the model C19_names is about;
    Tie_C19_kinds: every basic kind a parameter can have is rendered as a predeclared type (and as
    the model's TBasic branch prints it), from go/types' table and imports.go's basic-type clause."""
    repo = ctx.copy_repo()
    res = {}
    for cmd, args, gen, tie in (
            ("xlate_params", ["-src", os.path.join(repo, "gencommon")], "ParamsGen", "Tie_C19"),
            ("xlate_basic_kinds", ["-repo", repo], "BasicKindsGen", "Tie_C19_kinds")):
        ok, d = ctx.translator_tie(cmd, args, gen, tie)
        res[tie] = ctx.cov.get("translator_tie") if ok else {"status": "BROKEN", "detail": d[-600:]}
        ctx.log("translator tie %s:" % tie, "OK" if ok else "BROKEN", "-", d.splitlines()[0])
        if not ok:
            g = os.path.join(ctx.gen, gen + ".v")
            pending.append(({"unchecked": "translator tie %s: gencommon is no longer what the theorems are about" % tie,
                             "generated": open(g).read()[-2500:] if os.path.isfile(g) else "",
                             "detail": d[-3000:]}, {"kind": "translator_tie", "tie": tie}))
    ctx.cov["translator_tie"] = res


def run(ctx):
    ctx.trusted = TRUSTED
    il.add_own_findings(ctx, vlib.VERIF)
    ctx.assumptions = [
        "programs inside the property's quantifier: struct targets with 1-8 methods, embedding at most two levels deep, the listed type constructors, unexported methods only on same-package types",
        "the file the ImportHandler is built from compiles: its import specs bind pairwise distinct names, none of them a package-level name of the package, `_` or `.` (specs_okb, a predicate on the input; that the imports FindInterface RETURNS bind distinct names is proved, C19_alias_injective, and judged on every observation)",
        "parameter names given by the user are Go identifiers (the source compiles)",
    ]
    # broken obligations / ties are held back: cases with a concrete failing input (verdict 1) are
    # reported first and get the replay slots; `no-failing-input-found` lines only when a widened
    # farm run finds no such case either
    pending = []
    ok, detail = ctx.proof_obligations()
    ctx.log("proof obligations:", "OK" if ok else "BROKEN", "-", detail.splitlines()[0])
    if not ok:
        pending.append(({"unchecked": "theorem file Props/C19.v", "detail": detail}, {"kind": "proof_obligation"}))
    ok, log = ctx.coq_build(["theories/IFaceJudge.vo", "theories/IFaceGenPrims.vo", "theories/GenBuildModel.vo"])
    if not ok:
        ctx.report({"unchecked": "coq build of the judge / tie primitives", "detail": log[-3000:]},
                   {"kind": "coq_build"}, failing_input=False)
        return
    translator_ties(ctx, pending)
    ctx.add_repo_file("gencommon/export_verif.go", il.EXPORT_VERIF)
    binp, log = ctx.build_harness("c19")
    if not binp:
        ctx.report({"unchecked": "harness build against the current tree", "detail": log[-3000:]},
                   {"kind": "build"}, failing_input=False)
        return
    quick = ctx.tier == "quick"
    runs = [("corpus", ["-mode", "corpus"]),
            ("random", ["-mode", "random", "-n", 20 if quick else 600]),
            ("shapes", ["-mode", "shapes", "-n", 8 if quick else 240])]
    cdir = os.path.join(vlib.VERIF, "corpus", "C19")
    descs = []
    for k, name in enumerate(sorted(os.listdir(cdir)) if os.path.isdir(cdir) else []):
        if name.endswith(".json"):
            c = json.load(open(os.path.join(cdir, name)))
            d = dict(c["desc"], name="f%d" % k, kind="corpus-file", targets=[c["target"]])
            il.rename_self(d, c["desc"]["name"], "f%d" % k)
            descs.append(d)
    if descs:
        runs.insert(1, ("corpusfiles", ["-mode", "progs", "-progs",
                                        il.write_progs(os.path.join(ctx.scratch, "corpus_progs.json"), descs)]))
    terms, jsons, err = run_harness(ctx, binp, runs)
    if err:
        ctx.report({"unchecked": "harness run", "detail": err}, {"kind": "harness"}, failing_input=False)
        return
    ctx.log("farm: %d cases from %d programs" % (len(jsons), len({j["prog"] + j["kind"] for j in jsons})))
    allbad, nt, err = judge(ctx, terms, "cases", fn="c19_judge_all", nontrivial="c19_nontrivial")
    if err:
        ctx.report({"unchecked": "in-kernel evaluation of the correspondence", "detail": err},
                   {"kind": "coq_eval"}, failing_input=False)
        return
    bad = [(i, c) for i, c in allbad if c < 10]
    ood = [(i, c) for i, c in allbad if c >= 10]       # outside the quantifier (input-only predicate)
    info = [(i, c) for i, c in ood if c == 12]         # ... and different from the model
    shapes = shapes_of(jsons, bad)
    ctx.log("judged: %d bad case(s) in %d shape(s)" % (len(bad), len(shapes)))
    widened = None
    # a verdict-1 shape that is an open known finding is not "a failing input for what is broken now"
    def real1(shs):
        return any(code == 1 and not il.is_known(ctx, feats) for _, _, code, feats in shs)
    unknown = [sh for sh in shapes if not il.is_known(ctx, sh[3])]
    if (unknown or pending) and not real1(shapes):
        # something is wrong but no concrete failing input yet: widen the farm before giving up
        # steered by the literals of the source under test (a prefix test on "_", a new reserved name, ...)
        extra = ",".join(il.names_from_literals(os.path.join(ctx.copy_repo(), "gencommon")))
        ctx.log("widened farm: user names from the literals of the source:", extra[:160])
        t2, j2, err = run_harness(ctx, binp, [("widen", ["-mode", "random", "-n", 100, "-seed", ctx.seed + 7919, "-names", extra]),
                                              ("widenshapes", ["-mode", "shapes", "-n", 40, "-seed", ctx.seed + 104729])])
        if not err:
            b2, _, err = judge(ctx, t2, "widen", fn="c19_judge_all")
            if not err:
                w1 = [(len(jsons) + i, c) for i, c in b2 if c == 1]
                jsons_w = jsons + j2
                found = shapes_of(jsons_w, w1)
                widened = {"cases": len(j2), "failing_inputs": len(w1)}
                ctx.log("widened farm: %d more cases, %d with a failing input" % (len(j2), len(w1)))
                if found:
                    for sh in found:
                        sh[3]["found_by"] = "widened farm run"
                    shapes = found + shapes
                    jsons = jsons_w
    have1 = real1(shapes)
    # verdict-1 shapes first (smallest first), then the rest
    shapes.sort(key=lambda sh: (sh[2] != 1, sh[0]))
    also = [r["unchecked"] for r, _ in pending]
    for size, i, code, feats in shapes:
        if have1 and code != 1:
            continue          # a failing input exists: no `no-failing-input-found` lines
        j = jsons[i]
        if code in (1, 2) and ctx.nreplay < 4 and not il.is_known(ctx, feats):
            j2m = minimise(ctx, binp, j, feats)
            if j2m is not j:
                feats = dict(il.classify(j2m), code=code, minimised=True, **({"found_by": feats["found_by"]} if "found_by" in feats else {}))
                j = j2m
        rep = {"case": il.view(j), "verdict": VERDICT.get(code, str(code)),
               "cases_of_this_shape": sum(1 for k, c in bad if c == code),
               "replay_cmd": "./check C19 --replay <this file>"}
        if also:
            rep["also_unchecked"] = also
        if have1:
            rep["other_disagreements_not_listed"] = sum(1 for sh in shapes if sh[2] != 1)
        ctx.report(rep, feats, failing_input=(code == 1))
    if not have1:
        for rep, feats in pending:
            if widened:
                rep = dict(rep, widened_search=widened)
            ctx.report(rep, feats, failing_input=False)
    elif pending:
        ctx.log("also broken (recorded in the replay files):", "; ".join(also))
    err2 = None
    cover = il.shape_coverage(jsons)
    ctx.cov["shape_coverage"] = cover
    missing = [k for k, v in cover.items() if not v]
    if missing:
        ctx.log("WARNING: regression-prone shapes absent from this run:", ", ".join(missing))
    ctx.cov.update({
        "evaluations": len(jsons),
        "programs": len({j["prog"] + "/" + j["kind"] for j in jsons}),
        "methods_rendered": sum(len(j["obs"]) for j in jsons),
        "distinct_nontrivial": vlib.distinct_count([[j["tree"], j["priv"], j["emb"], j["specs"], j["obs"]]
                                                    for j in jsons if nontrivial(j)]),
        "nontrivial_counted_in_coq": nt,
        "rule": "case = (generated package, target struct, option combination); non-trivial (counted in Coq by "
                "c19_nontrivial) = inside the quantifier and: embedded methods merged (tree height > 0 with "
                "IncludeEmbedded), or a method mixing user-chosen and unnamed/_ parameters, or at least one active import",
        "exhaustive": False,
        "by_kind": hist(j["kind"] for j in jsons),
        "by_options": hist(("private " if j["priv"] else "") + ("embedded" if j["emb"] else "") or "none" for j in jsons),
        "embedding_height": hist(str(il.height(j["tree"])) for j in jsons),
        "own_methods": hist(str(len(j["tree"]["own"])) for j in jsons),
        "active_imports": hist(str(len(j["imports"])) for j in jsons),
        "compiled": hist(str(j["compiled"]) for j in jsons),
        "out_of_domain_cases": len(ood),
        "out_of_domain_by_kind": hist(jsons[i]["kind"] for i, _ in ood if i < len(jsons)),
        "out_of_domain_why": hist(il.ood_reason(jsons[i]) for i, _ in ood if i < len(jsons)),
        "out_of_domain_model_differences": len(info) if not err2 else "n/a",
        "samples": [il.view(j) for j in jsons[:1] + jsons[len(jsons) // 2: len(jsons) // 2 + 1]],
        "disagreements": len(bad),
    })
    for s in ctx.cov["samples"]:
        s.pop("desc", None)
    ctx.log("correspondence: %d cases, %d non-trivial, %d disagreement(s); %d case(s) outside the quantifier "
            "(counted in Coq, not gating), %d of them different from the model" % (
                len(jsons), nt, len(bad), len(ood), len(info)))


def nontrivial(j):
    """python mirror of IFaceJudge.c19_nontrivial (the Coq count is reported next to it)"""
    if il.height(j["tree"]) > 2 or not all(il.basic_ok(m) for m in il.all_methods(j["tree"])):
        return False
    if il.height(j["tree"]) > 0 and j["emb"]:
        return True
    if j["imports"]:
        return True
    for m in j["tree"]["own"]:
        ns = il.user_names(m)
        if any(n in ("", "_") for n in ns) and any(n not in ("", "_") for n in ns):
            return True
    return False


def hist(it):
    h = {}
    for x in it:
        h[x] = h.get(x, 0) + 1
    return dict(sorted(h.items()))


def replay(ctx, path):
    """rebuild the recorded program, run the real FindInterface on the current tree, judge again"""
    rep = json.load(open(path))
    case = rep.get("case", rep)
    if not case.get("desc"):
        print(json.dumps(case, indent=1)[:4000])
        return 0
    ctx.coq_build(["theories/IFaceJudge.vo"])
    ctx.add_repo_file("gencommon/export_verif.go", il.EXPORT_VERIF)
    binp, log = ctx.build_harness("c19")
    if not binp:
        print(log[-2000:])
        return 2
    d = dict(case["desc"])
    d["targets"] = [case["target"]]
    pf = il.write_progs(os.path.join(ctx.scratch, "replay.json"), [d])
    terms, jsons, err = run_harness(ctx, binp, [("replay", ["-mode", "progs", "-progs", pf])])
    if err:
        print(err)
        return 2
    bad, _, err = judge(ctx, terms, "replay")
    if err:
        print(err)
        return 2
    codes = dict(bad)
    rc = 0
    for i, j in enumerate(jsons):
        if j["priv"] == case["priv"] and j["emb"] == case["emb"]:
            print(j["rendered"])
            print("compiled:", j["compiled"], j.get("build_errors", ""))
            print("verdict:", VERDICT.get(codes.get(i, 0), "ok"))
            rc = 1 if codes.get(i, 0) else 0
    return rc
