"""C05 — genum: JSON/text/YAML codecs round-trip values and reject all else."""
import json

import genum_lib as gl
import vlib

META = {
    "property_id": "C05",
    "level": "proof",
    "technique": "Coq theorems over the codec layer of the executable genum model (Marshal*/Unmarshal* mirroring the template's control flow: name first, then each parsable trait family in template order; library behaviour enters only as per-document view records) + generator farm under random -json/-yaml/-text/-caseInsensitive/-parsableByTraits combinations: every defined value round-trips through the real encoding/json, encoding.Text*, yaml.v3, and rejection documents are decoded by the real code and judged inside Coq against specification and model + translator ties: the control skeletons of every function the template emits are regenerated from enumTemplate.gotmpl on each run, shown well-formed by computation (coq/ties/Tie_GEnumSkel.v) and evaluated by the judge ; traits.go kind table and family filters tied semantically (Tie_GEnumTraits.v)",
    "design_ref": "DESIGN.md §4 C05",
    "level_text": "Proof: GEnumProofs.v shows for every definition, option set and defined value that the three encoders emit the primary name and that each decoder maps a document whose library view is that name back to the value (round trip), and that a document none of whose faithful readings (string content, integer value, result of a trait type's own unmarshaler) is a constant name or a parsable trait constant is rejected by all three decoders (Props/C05.v, closed under the global context); the pinned YAML decoder (strconv guards inverted) is refuted by a computed witness. The model is tied to the current source by the farm: definitions as in C04 plus string/integer/named/duration/other-enum trait columns, generated under random codec/option combinations, observed through json.Marshal/Unmarshal, MarshalText/UnmarshalText, yaml.Marshal/Unmarshal.",
    "level_note": "Trusted: Coq kernel + vm_compute; encoding/json, yaml.v3 and strconv enter as recorded per-document views (what string / integer the library extracts, whether it hands the document to the generated method), not modelled; model fidelity checked by correspondence; Go harness. No axioms. Packages generated with -yaml=false do not compile on the pinned template (C13) and are skipped.",
}

CASE_TYPE, JUDGE = "c05_case", "judge_c05"


def features(j):
    f = {"kind": (j.get("kind") or "").split("/")[0], "outcome": j.get("outcome")}
    for s in j.get("shape") or []:
        f[s] = True
    # which documents fail: an open finding keyed on a document class matches only when nothing else fails
    ds = explain(j)
    if isinstance(ds, dict):
        f["failing"] = j.get("outcome")
    else:
        f["failing"] = "+".join(sorted({("json_null" if d["codec"] == "json" else "yaml_nonscalar") if d.get("null") else "document"
                                        for d in ds})) or "none"
    return f


def explain(j):
    e = j["file"]["enums"][j["enum"]]
    o = j["file"]["opts"]
    if j["outcome"] != "built":
        return {"expected": "generation and compilation succeed", "observed": j["outcome"],
                "log": j.get("gen_log") or j.get("build_log")}
    names = {c["name"]: int(c["val"]) for c in e["consts"]}
    lnames = {c["name"].lower(): int(c["val"]) for c in e["consts"]}
    out = []
    for d in j["obs"].get("docs") or []:
        if not d.get("called"):
            continue
        s = d.get("str")
        exp = None
        if (d.get("from") or "").startswith("value:"):
            exp = "ok:" + d["from"][6:]
        elif d.get("null"):
            exp = "err"   # the JSON literal null / a YAML sequence or mapping holds neither a name nor a trait value
        elif s is not None and s in names:
            exp = "ok:%d" % names[s]
        elif s is not None and o["ci"] and s.lower() in lnames:
            exp = "ok:%d" % lnames[s.lower()]
        else:
            cells = [cl for c in e["consts"] for cl in (c.get("cells") or [])]
            holds = any((cl["kind"] == "str" and cl.get("str", "") == s) or
                        (cl["kind"] == "int" and cl.get("int") in (d.get("u64"), d.get("i64"))) or
                        (cl["kind"] == "bool" and d.get("bool") is not None and bool(d["bool"]) == bool(cl.get("bool")))
                        for cl in cells)
            if not holds and not any(n.get("ok") for n in d.get("native") or []):
                exp = "err"
        if exp is not None and d["res"] != exp:
            out.append({"codec": d["codec"], "document": d["doc"], "null": bool(d.get("null")), "expected": exp, "observed": d["res"],
                        "library_view": {k: d.get(k) for k in ("str", "u64", "i64")}})
            if len(out) >= 40:
                break
    return out


def run(ctx):
    ctx.trusted = gl.TRUSTED_COMMON + [
        "encoding/json, gopkg.in/yaml.v3, strconv: recorded per document as views (string / uint64 / int64 readings, own-unmarshaler results, whether the generated method was invoked)"]
    ctx.assumptions = [
        "definitions as in C04; trait columns of string / integer / locally named / time.Duration / other generated enum types",
        "documents are JSON values (scalars, null, arrays, objects), text, YAML scalars / sequences / mappings that the library hands to the generated Unmarshal* method",
        "SCOPE DECISION: YAML `null`, `~` and the empty document never reach UnmarshalYAML — yaml.v3 leaves the target untouched and returns nil; this is behaviour of the library, not of the generated decoder, cannot be changed from generated code, and is not judged (such documents are recorded with called = false and counted in documents_not_reaching_decoder)",
        "floating-point trait types (float32/float64 families of the template) are outside the modelled space: their blocks appear in the skeletons, a definition with such a column is Unsupported in the model and never generated by the farm",
        "int and uint are 64 bits wide (conversion model conv_int); strings.ToLower as in C04",
        "option combinations without -yaml are observed only once the C13 repair (IsEnum outside the YAML block) is in the tree",
    ]
    ctx.obligations_or_violation()
    if not gl.build_judge(ctx):
        return
    gl.use_skeletons(ctx)
    quick = ctx.tier == "quick"
    terms, jsons, err = gl.run_batches(ctx, "c05", 26, 8, 75)
    if err:
        ctx.report({"unchecked": "generator farm run against the current tree", "detail": err},
                   {"kind": "harness"}, failing_input=False)
        return
    bad, nt, err = ctx.judge_cases(gl.header_of(ctx), CASE_TYPE, gl.judge_of(ctx, JUDGE), terms, shard=6 if quick else 20,
                                   nontrivial="c05_nontrivial")
    if err:
        ctx.report({"unchecked": "in-kernel evaluation of the correspondence", "detail": err},
                   {"kind": "coq_eval"}, failing_input=False)
        return
    bad = gl.split_codes(ctx, jsons, bad)
    gl.report_all(ctx, "c05", CASE_TYPE, JUDGE, jsons, bad, features, explain, widen_n=40, shard=6, maxlist=12)
    docs = [d for j in jsons for d in (j["obs"].get("docs") or [])]
    skipped = [j for j in jsons if j["outcome"] == "compile_error" and not j["file"]["opts"]["yaml"]]
    ctx.cov.update({
        "evaluations": len(jsons),
        "definition_files": len({(j["pkg"], hash(j["file"].get("source"))) for j in jsons}),
        "documents_decoded": len(docs),
        "documents_by_codec": gl.hist(d["codec"] for d in docs),
        "documents_by_result": gl.hist(d["res"].split(":")[0] for d in docs if d.get("called")),
        "documents_not_reaching_decoder": sum(1 for d in docs if not d.get("called")),
        "round_trip_documents": sum(1 for d in docs if (d.get("from") or "").startswith("value:")),
        "distinct_nontrivial": vlib.distinct_count([[j["file"]["enums"][j["enum"]]["consts"], j["file"]["opts"]]
                                                    for j in jsons if nontrivial(j)]),
        "nontrivial_in_coq": nt,
        "rule": "case = one enum type of one definition file generated under one option combination; non-trivial = "
                "a parsable trait family is in play or at least one document was rejected; distinct by (constants, options)",
        "exhaustive": False,
        "by_kind": gl.hist(j["kind"] for j in jsons),
        "by_outcome": gl.hist(j["outcome"] for j in jsons),
        "skipped_yaml_false_builds": len(skipped),
        "option_histogram": gl.hist("json=%d yaml=%d text=%d ci=%d" % (
            j["file"]["opts"]["json"], j["file"]["opts"]["yaml"], j["file"]["opts"]["text"], j["file"]["opts"]["ci"])
            for j in jsons),
        "shape_histogram": gl.hist(s for j in jsons for s in (j.get("shape") or [])),
        "samples": [gl.slim(j, maxlist=5) for j in jsons[:1] + jsons[3:4]],
        "disagreements": len(bad),
    })
    ctx.log("correspondence: %d enums from %d files, %d documents, %d disagreement(s), %d skipped (-yaml=false build)" % (
        len(jsons), ctx.cov["definition_files"], len(docs), len(bad), len(skipped)))


def nontrivial(j):
    e = j["file"]["enums"][j["enum"]]
    par = set(j["file"]["opts"].get("parsable") or [])
    cols = set()
    for c in e["consts"]:
        for cl in c.get("cells") or []:
            cols.add(cl["var"].lstrip("_"))
    return bool(par & cols) or any(d["res"] == "err" for d in (j["obs"].get("docs") or []))


def replay(ctx, path):
    return gl.replay_file(ctx, path, "c05", CASE_TYPE, JUDGE, lambda j: json.dumps(explain(j), indent=1))
