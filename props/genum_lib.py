"""Shared driver code of the genum properties C04, C05, C12 (generator farm + in-kernel judge)."""
import copy
import json
import os

import vlib

HEADER = ("From Coq Require Import String ZArith List Bool.\nImport ListNotations.\n"
          "From GT Require Import Base.Verdict Base.GEnumStr GEnumModel GEnumJudge.\n"
          "Local Open Scope string_scope.\nLocal Open Scope list_scope.\n")

TRUSTED_COMMON = [
    "Coq 8.16.1 kernel and VM (vm_compute); no native_compute; no axioms (Print Assumptions: closed under the global context)",
    "hand-written model coq/theories/GEnumModel.v of genum/gen/{generate,values,traits}.go and enumTemplate.gotmpl, tied by the generator-farm correspondence only",
    "go/types + go/constant evaluation of constant expressions (cross-checked: the farm writes source from intended values and compares them with the compiled constants)",
    "Go harness harness/cmd/genumfarm (definition generator, renderer, observer dumplib), Go 1.23 toolchain, fmt %d, strings.ToLower on ASCII names",
]


def build_judge(ctx):
    """GEnumJudge.vo is not in the cone of Props/Cxx.v: (re)build it explicitly"""
    ok, log = ctx.coq_build(["theories/GEnumJudge.vo"])
    if not ok:
        ctx.report({"unchecked": "build of coq/theories/GEnumJudge.v", "detail": log[-3000:]},
                   {"kind": "coq_build"}, failing_input=False)
    return ok


def farm_bin(ctx):
    if getattr(ctx, "_farm_bin", None):
        return ctx._farm_bin, ""
    binp, log = ctx.build_harness("genumfarm")
    ctx._farm_bin = binp
    if binp:
        p = os.path.join(ctx.scratch, "farm.go.sum")
        with open(p, "w") as f:
            f.write(ctx.go_sum())
        ctx._farm_sum = p
        ctx._farm_runs = 0
    return binp, log


def stored_corpus(pid):
    """corpus/<pid>/*.json: minimised past disagreements (one definition file each), always run first"""
    d = os.path.join(vlib.VERIF, "corpus", pid)
    out = []
    if os.path.isdir(d):
        for n in sorted(os.listdir(d)):
            if n.endswith(".json"):
                fd = json.load(open(os.path.join(d, n)))
                fd["kind"] = "corpus"
                out.append(fd)
    return out


def run_batches(ctx, mode, quick_n, thorough_batches, thorough_n):
    """the farm of a check: one batch (corpus + quick_n files) in the quick tier, the corpus batch plus
    thorough_batches batches of thorough_n files (seeds derived from VERIF_SEED) in the thorough tier"""
    stored = stored_corpus(ctx.pid)
    if ctx.tier == "quick":
        return run_farm(ctx, mode, n=quick_n, corpus=True, defs=stored or None)
    terms, jsons = [], []
    for b in range(thorough_batches):
        t, j, err = run_farm(ctx, mode, n=thorough_n, corpus=(b == 0), seed=ctx.seed * 1000 + b, tag="farm%d" % b,
                             defs=(stored or None) if b == 0 else None)
        if err:
            return terms, jsons, err
        terms += t
        jsons += j
        ctx.log("farm batch %d/%d: %d enums" % (b + 1, thorough_batches, len(j)))
    return terms, jsons, None


def run_farm(ctx, mode, n=0, corpus=False, defs=None, tag="farm", timeout=3000, seed=None):
    """one farm batch: returns (terms, jsons, err)"""
    binp, log = farm_bin(ctx)
    if not binp:
        return [], [], "harness build failed:\n" + log[-3000:]
    ctx._farm_runs += 1
    work = os.path.join(ctx.scratch, "farm-%s-%d" % (tag, ctx._farm_runs))
    os.makedirs(work)
    args = ["-mode", mode, "-n", n, "-repo", ctx.copy_repo(), "-work", work, "-gosum", ctx._farm_sum]
    if corpus:
        args.append("-corpus")
    if seed is not None:
        args += ["-seed", seed]
    if defs is not None:
        dp = os.path.join(work, "defs.json")
        with open(dp, "w") as f:
            json.dump(defs, f)
        args += ["-defs", dp]
    terms, jsons, err = vlib.harness_cases(ctx, binp, [("%s%d" % (tag, ctx._farm_runs), args)], timeout=timeout)
    import shutil
    shutil.rmtree(work, ignore_errors=True)
    return terms, jsons, err


def single_enum_file(j):
    """the definition file of case j reduced to the one enum the case is about"""
    fd = copy.deepcopy(j["file"])
    fd["enums"] = [fd["enums"][j["enum"]]]
    fd["kind"] = "minimise"
    fd.pop("source", None)
    return fd


def explicit(fd):
    """spell every constant as `Name T = value` in one block (dropping constants must not shift iota)"""
    fd = copy.deepcopy(fd)
    for bi, e in enumerate(fd["enums"]):
        for c in e["consts"]:
            c["form"], c["rhs"], c["skip"], c["block"] = "explicit", c["val"], 0, bi
    return fd


def lowest_name(fd):
    cs = fd["enums"][0]["consts"]
    return min(cs, key=lambda c: (int(c["val"]), c["name"]))["name"] if cs else None


def keep_lowest(orig):
    """candidates must keep the constant whose line names the traits (the least (value, name))"""
    low = lowest_name(orig)
    has_cells = any(c.get("cells") for c in orig["enums"][0]["consts"])
    return lambda fd: (not has_cells) or lowest_name(fd) == low


def minimise(ctx, mode, case_type, judge, j, code, keep=None, rounds=4):
    """delta-debugging on the constants of the failing enum: each round runs one farm batch with
    every candidate definition (one constant or one half removed) and keeps the smallest one
    that is still judged with the same code inside Coq"""
    try:
        cur = explicit(single_enum_file(j))
        keep = keep or keep_lowest(cur)
        terms, jsons, err = run_farm(ctx, mode, defs=[cur], tag="min")
        if err or not terms:
            return j
        bad, _, err = ctx.judge_cases(HEADER, case_type, judge, terms, shard=50, tag="min")
        if err or not any(c == code for _, c in bad):
            return j   # the explicit spelling does not fail: keep the original
        best = jsons[bad[0][0]]
        for _ in range(rounds):
            consts = cur["enums"][0]["consts"]
            if len(consts) <= 1:
                break
            cands = []
            half = len(consts) // 2
            if half >= 2:
                cands.append(consts[:half])
                cands.append(consts[half:])
            for i in range(len(consts)):
                cands.append(consts[:i] + consts[i + 1:])
            defs = []
            for cs in cands:
                fd = copy.deepcopy(cur)
                fd["enums"][0]["consts"] = copy.deepcopy(cs)
                if keep(fd):
                    defs.append(fd)
            defs = defs[:48]
            if not defs:
                break
            terms, jsons, err = run_farm(ctx, mode, defs=defs, tag="min")
            if err:
                break
            bad, _, err = ctx.judge_cases(HEADER, case_type, judge, terms, shard=50, tag="min")
            if err:
                break
            hits = [i for i, c in bad if c == code]
            if not hits:
                break
            i = min(hits, key=lambda k: len(jsons[k]["file"]["enums"][0]["consts"]))
            best = jsons[i]
            cur = explicit(single_enum_file(best))
        best = dict(best)
        best["kind"] = j.get("kind", "") + "/minimised"
        return best
    except Exception as ex:  # minimisation is best effort
        ctx.log("minimise failed: %r" % (ex,))
        return j


def slim(j, keep_obs=True, maxlist=40):
    """replay/evidence view of a case: definition source + options + (shortened) observations"""
    out = {k: j.get(k) for k in ("mode", "kind", "type", "outcome", "shape", "nconsts", "bits", "signed")}
    f = j["file"]
    out["options"] = f["opts"]
    out["source"] = f.get("source")
    out["definition"] = f["enums"][j["enum"]] if j["enum"] < len(f["enums"]) else None
    for k in ("gen_log", "build_log", "const_value_mismatch"):
        if j.get(k):
            out[k] = j[k]
    if keep_obs and j.get("obs"):
        o = {}
        for k, v in j["obs"].items():
            if isinstance(v, list) and len(v) > maxlist:
                o[k] = v[:maxlist] + ["... %d more" % (len(v) - maxlist)]
            else:
                o[k] = v
        out["observed"] = o
    return out


def hist(it):
    h = {}
    for x in it:
        h[str(x)] = h.get(str(x), 0) + 1
    return dict(sorted(h.items()))


def size_bucket(n):
    if n <= 5:
        return "1-5"
    if n <= 13:
        return "6-13"
    if n <= 18:
        return "14-18"
    return "19-40"


def replay_file(ctx, path, mode, case_type, judge, explain):
    """re-run the definition of a replay file on the current tree and judge it again"""
    rep = json.load(open(path))
    case = rep.get("case") or {}
    fd = rep.get("definition_file")
    if not fd:
        print(json.dumps(rep, indent=1)[:4000])
        print("replay file carries no definition (it records a broken obligation)")
        return 0
    terms, jsons, err = run_farm(ctx, mode, defs=[fd], tag="replay")
    if err:
        print(err)
        return 2
    bad, _, err = ctx.judge_cases(HEADER, case_type, judge, terms, shard=50, tag="replay")
    if err:
        print(err)
        return 2
    print("definition:\n" + (jsons[0]["file"].get("source") or ""))
    print("options:", json.dumps(jsons[0]["file"]["opts"]))
    for i, j in enumerate(jsons):
        code = dict(bad).get(i, 0)
        print("enum %s: outcome=%s verdict=%s" % (j["type"], j["outcome"],
              {0: "ok", 1: "VIOLATES the specification", 2: "differs from the Coq model"}[code]))
        if code:
            print(explain(j))
    return 1 if bad else 0


def known(ctx, feats):
    """does an open finding of this property match the features?"""
    for k in ctx.findings:
        if k.get("property") == ctx.pid and k.get("status") == "open":
            mt = k.get("match", {})
            if mt and all(feats.get(a) == b for a, b in mt.items()):
                return True
    return False


def report_all(ctx, mode, case_type, judge, jsons, bad, features, explain, widen_n, shard=12, maxlist=12):
    """Order of the report: verdict-1 cases (the observation violates the specification = a concrete
    failing input) first — they take the replay slots, the first unlisted one is minimised.  Cases
    that only differ from the model (verdict 2) are listed in the evidence when the run already has
    a failing input; when it has none, a widened farm run (other seed, widen_n more files) looks
    for one, and only if that finds nothing are they reported `no-failing-input-found`."""
    pid = ctx.pid

    def rep_of(j, code):
        return {"case": slim(j, maxlist=maxlist),
                "definition_file": single_enum_file(j) if "/minimised" not in (j.get("kind") or "") else j["file"],
                "differences": explain(j),
                "verdict": {1: "observed behaviour violates the %s specification (failing input)" % pid,
                            2: "observed behaviour satisfies the specification but differs from the Coq model"}[code],
                "replay_cmd": "./check %s --replay <this file>" % pid}

    def report_v1(cases):
        found = False
        for j in cases:
            f = features(j)
            if not found and not known(ctx, f):
                j = minimise(ctx, mode, case_type, judge, j, 1)
                f = features(j)
            if ctx.report(rep_of(j, 1), f, failing_input=True) == "violation":
                found = True
        return found

    v1 = [jsons[i] for i, code in bad if code == 1]
    v2 = [jsons[i] for i, code in bad if code != 1]
    # unlisted failing inputs first (they get the replay files), then the ones matching open findings
    v1.sort(key=lambda j: known(ctx, features(j)))
    have_failing = report_v1(v1)
    ctx.cov["spec_violations"] = len(v1)
    ctx.cov["model_only_disagreements"] = len(v2)
    if not v2:
        return
    ctx.cov["model_only_samples"] = [slim(j, maxlist=4) for j in v2[:2]]
    if not have_failing:
        ctx.log("%d case(s) differ from the model only; widening the farm run to look for a failing input" % len(v2))
        terms, wj, err = run_farm(ctx, mode, n=widen_n, corpus=False, seed=ctx.seed + 7919, tag="widen")
        if not err:
            wbad, _, err = ctx.judge_cases(HEADER, case_type, judge, terms, shard=shard, tag="widen")
            if not err:
                wv1 = [wj[i] for i, code in wbad if code == 1 and not known(ctx, features(wj[i]))]
                ctx.cov["widened_run"] = {"evaluations": len(wj), "spec_violations": len(wv1)}
                have_failing = report_v1(wv1)
    if have_failing:
        ctx.log("%d further case(s) satisfy the specification but differ from the model (listed in the evidence)" % len(v2))
        return
    for j in v2:
        ctx.report(rep_of(j, 2), features(j), failing_input=False)
