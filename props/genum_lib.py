"""Shared driver code of the genum properties C04, C05, C12 (generator farm + in-kernel judge)."""
import copy
import json
import os
import time

import vlib

HEADER = ("From Coq Require Import String ZArith List Bool.\nImport ListNotations.\n"
          "From GT Require Import Base.Verdict Base.GEnumStr GEnumModel GEnumJudge.\n"
          "Local Open Scope string_scope.\nLocal Open Scope list_scope.\n")

TRUSTED_COMMON = [
    "Coq 8.16.1 kernel and VM (vm_compute); no native_compute; no axioms (Print Assumptions: closed under the global context)",
    "model coq/theories/GEnumModel.v: the functions the template emits (decoders, encoders, Parse<T>, table functions, accessor) are interpreters of control skeletons regenerated from genum/gen/enumTemplate.gotmpl on every run (translator harness/cmd/xlate_genum_skel: text/template/parse + go/parser, trusted to print what it reads; the tie proves skels_ok of its output and the theorems hold for every such record; both translators read the package genum/gen through harness/internal/srcset — build context, every file — and the tie also proves srcfacts_ok: one embedded template, no function map, no init, no package-level mutable state); extract_underlying / family filters tied to genum/gen/traits.go by harness/cmd/xlate_genum_traits (C05, C12); the generator layer (generate.go, values.go: constant collection, Less, ValueDeduplicatedSet, processDuplicates, validations, ParsableValuesOf) is hand-written and tied by the generator-farm correspondence only",
    "go/types + go/constant evaluation of constant expressions (cross-checked: the farm writes source from intended values and compares them with the compiled constants)",
    "Go harness harness/cmd/genumfarm (definition generator, renderer, observer dumplib), Go 1.23 toolchain, fmt %d, strings.ToLower on ASCII names",
]


def build_judge(ctx):
    """GEnumJudge.vo and GEnumCodecTraits.vo (imported by the tie file) are not in the cone of every
    Props/Cxx.v: (re)build them explicitly"""
    ok, log = ctx.coq_build(["theories/GEnumJudge.vo", "theories/GEnumCodecTraits.vo"])
    if not ok:
        ctx.report({"unchecked": "build of coq/theories/GEnumJudge.v", "detail": log[-3000:]},
                   {"kind": "coq_build"}, failing_input=False)
    return ok


MINIMISE_BUDGET_S = 80

GEN_NAME, TIE_NAME = "GEnumSkelGen", "Tie_GEnumSkel"
GEN_HEADER = "From GTgen Require Import GEnumSkelGen.\n"


def _tie_fail(ctx, tie_name, cmd, what, detail):
    f = {"unchecked": "translator tie harness/cmd/%s + coq/ties/%s.v" % (cmd, tie_name), "what": what, "detail": detail[-3500:]}
    ctx._tie_failures = getattr(ctx, "_tie_failures", []) + [f]
    ctx.log("translator tie %s: BROKEN - %s" % (tie_name, what))
    ctx.cov.setdefault("translator_ties", {})[tie_name] = {"translator": "harness/cmd/" + cmd, "ok": False, "what": what}
    return None


def _run_tie(ctx, cmd, gen_name, tie_name, source, diagnose=None):
    """build + run a translator on the scratch copy of the current tree, compile the regenerated file and the
    committed tie file against it; returns the regenerated text, or None (failure recorded for report_all)"""
    binp, log = ctx.build_harness(cmd)
    if not binp:
        return _tie_fail(ctx, tie_name, cmd, "translator build failed", log)
    out = os.path.join(ctx.gen, gen_name + ".v")
    rc, o1 = vlib.sh([binp, "-repo", ctx.copy_repo(), "-out", out], timeout=300)
    if rc != 0:
        return _tie_fail(ctx, tie_name, cmd, "%s left the subset the translator reads" % source, o1)
    gen_src = open(out).read()
    rc, o2 = ctx.coq_eval(gen_name, gen_src)
    if rc != 0:
        return _tie_fail(ctx, tie_name, cmd, "the regenerated %s.v does not compile" % gen_name, o1 + o2)
    tie_src = open(os.path.join(vlib.COQ, "ties", tie_name + ".v")).read()
    bad = vlib.FORBIDDEN.search(vlib.strip_comments(tie_src))
    if bad:
        return _tie_fail(ctx, tie_name, cmd, "forbidden vernacular in the tie file: " + bad.group(0), "")
    rc, o3 = ctx.coq_eval(tie_name, tie_src)
    if rc != 0:
        extra = diagnose(gen_src) if diagnose else ""
        opaque = [l.strip() for l in gen_src.splitlines() if "paque" in l]
        return _tie_fail(ctx, tie_name, cmd, "the tie lemmas no longer hold of what was regenerated from %s%s" % (source, extra),
                         "\n".join(opaque[:12]) + "\n" + o3)
    n_print = len(vlib.re.findall(r"^Print Assumptions", tie_src, vlib.re.M))
    if o3.count("Closed under the global context") != n_print:
        return _tie_fail(ctx, tie_name, cmd, "the tie depends on axioms", o3)
    n = len(vlib.OBLIG.findall(vlib.strip_comments(tie_src)))
    ctx.cov["obligations"] = ctx.cov.get("obligations", 0) + n
    ctx.cov["discharged"] = ctx.cov.get("discharged", 0) + n
    ctx.cov.setdefault("translator_ties", {})[tie_name] = {
        "translator": "harness/cmd/" + cmd, "regenerated": gen_name + ".v", "tie_file": "coq/ties/%s.v" % tie_name,
        "lemmas": n, "ok": True, "regenerated_sha256": vlib.hashlib.sha256(gen_src.encode()).hexdigest()[:16]}
    ctx.log("translator tie %s: OK - %d lemmas over the file regenerated from %s" % (tie_name, n, source))
    return gen_src


def skeleton_tie(ctx, traits_go=True):
    """(T) ties of C04/C05/C12.
    1. harness/cmd/xlate_genum_skel regenerates the control skeletons of the functions the template emits
       (GEnumSkelGen.gen_skels) from the scratch copy of the current tree; coq/ties/Tie_GEnumSkel.v shows by computation
       that the record satisfies GEnumModel.skels_ok and instantiates the property theorems at it.
    2. (C05, C12) harness/cmd/xlate_genum_traits regenerates the kind table of extractUnderlying and the filter
       conditions of the GetParsable… methods of genum/gen/traits.go; coq/ties/Tie_GEnumTraits.v shows that the model's
       extract_underlying / family / family_own are those functions.
    Returns the Gallina name of the skeleton record the farm's judge is to evaluate ("gen_skels" when tie 1 holds, the
    hand-written "cur_skels" otherwise) and the header line importing it.  Broken ties are remembered in
    ctx._tie_failures and reported after the farm run (report_all), so that the report can point at a failing input
    when the farm finds one."""
    ctx._tie_failures = []
    ctx._skel_flags = {}

    def diagnose(gen_src):
        diag = ("From Coq Require Import String List Bool.\nFrom GT Require Import GEnumModel.\n" + GEN_HEADER +
                "Eval vm_compute in (dskel_ok CoJSON (sk_json gen_skels), dskel_ok CoText (sk_text gen_skels), "
                "dskel_ok CoYAML (sk_yaml gen_skels), parse_skel_ok (sk_parse gen_skels), small_ok gen_skels, srcfacts_ok gen_srcfacts).\n"
                "Eval vm_compute in gen_srcfacts.\n")
        _, o4 = ctx.coq_eval("GEnumSkelDiag", diag)
        m = vlib.re.search(r"=\s*(\(.*?\))\s*:", o4, vlib.re.S)
        return (": well-formedness of (json, text, yaml decoder, Parse, small functions, package source facts) = " +
                (" ".join(m.group(1).split()) if m else "?") + "\n" + o4[-1500:])

    if traits_go:
        _run_tie(ctx, "xlate_genum_traits", "GEnumTraitsGen", "Tie_GEnumTraits", "genum/gen/traits.go")
    gen_src = _run_tie(ctx, "xlate_genum_skel", GEN_NAME, TIE_NAME, "genum/gen/enumTemplate.gotmpl", diagnose)
    if gen_src is None:
        return "cur_skels", ""
    flags = ("From Coq Require Import String List Bool.\nFrom GT Require Import GEnumModel.\n" + GEN_HEADER +
             "Eval vm_compute in (null_checked (ds_steps (sk_yaml gen_skels))).\n")
    _, o5 = ctx.coq_eval("GEnumSkelFlags", flags)
    ctx._skel_flags["yaml_scalar_checked"] = "= true" in o5
    ctx.cov["translator_ties"][TIE_NAME]["flags"] = dict(ctx._skel_flags)
    ctx.cov["translator_tie"] = ctx.cov["translator_ties"][TIE_NAME]
    return "gen_skels", GEN_HEADER


def use_skeletons(ctx):
    """run the translator ties and select the skeleton record the judge evaluates"""
    ctx._skels, ctx._skel_header = skeleton_tie(ctx, traits_go=ctx.pid in ("C05", "C12"))


def header_of(ctx):
    return HEADER + getattr(ctx, "_skel_header", "")


def judge_of(ctx, judge):
    return "(%s_sk %s)" % (judge, getattr(ctx, "_skels", "cur_skels"))


def split_codes(ctx, jsons, bad):
    """code 3 = the case is outside the quantified space (domain predicates of GEnumJudge): counted, never a
    pass; too many of them are a harness defect"""
    ood = [i for i, c in bad if c == 3]
    rest = [(i, c) for i, c in bad if c != 3]
    ctx.cov["out_of_domain_cases"] = len(ood)
    ctx.cov["in_domain_cases"] = len(jsons) - len(ood)
    if len(ood) > max(3, len(jsons) // 8):
        ctx.report({"unchecked": "the generator farm produced %d of %d definitions outside the quantified space" % (len(ood), len(jsons)),
                    "samples": [slim(jsons[i], keep_obs=False) for i in ood[:3]]}, {"kind": "harness"}, failing_input=False)
    return rest


def farm_bin(ctx):
    if getattr(ctx, "_farm_bin", None):
        return ctx._farm_bin, ""
    binp, log = ctx.build_harness("genumfarm")
    ctx._farm_bin = binp
    if binp:
        p = os.path.join(ctx.scratch, "farm.go.sum")
        with open(p, "w") as f:
            f.write(ctx.go_sum())
        ctx._farm_sum = p
        ctx._farm_runs = 0
    return binp, log


def stored_corpus(pid):
    """corpus/<pid>/*.json: minimised past disagreements (one definition file each), always run first"""
    d = os.path.join(vlib.VERIF, "corpus", pid)
    out = []
    if os.path.isdir(d):
        for n in sorted(os.listdir(d)):
            if n.endswith(".json"):
                fd = json.load(open(os.path.join(d, n)))
                fd["kind"] = "corpus"
                out.append(fd)
    return out


def run_batches(ctx, mode, quick_n, thorough_batches, thorough_n):
    """the farm of a check: one batch (corpus + quick_n files) in the quick tier, the corpus batch plus
    thorough_batches batches of thorough_n files (seeds derived from VERIF_SEED) in the thorough tier"""
    stored = stored_corpus(ctx.pid)
    if ctx.tier == "quick":
        return run_farm(ctx, mode, n=quick_n, corpus=True, defs=stored or None)
    terms, jsons = [], []
    for b in range(thorough_batches):
        t, j, err = run_farm(ctx, mode, n=thorough_n, corpus=(b == 0), seed=ctx.seed * 1000 + b, tag="farm%d" % b,
                             defs=(stored or None) if b == 0 else None)
        if err:
            return terms, jsons, err
        terms += t
        jsons += j
        ctx.log("farm batch %d/%d: %d enums" % (b + 1, thorough_batches, len(j)))
    return terms, jsons, None


def source_literals(ctx):
    """integer literals of the generator source under test (thresholds, widths): the widened search aims at them"""
    import re as _re
    lits = set()
    d = os.path.join(ctx.copy_repo(), "genum", "gen")
    for n in sorted(os.listdir(d)):
        if n.endswith(".go") or n.endswith(".gotmpl"):
            for m in _re.finditer(r"(?<![\w.])(\d{1,7})(?![\w.])", open(os.path.join(d, n), errors="replace").read()):
                v = int(m.group(1))
                if 2 <= v <= 5000000:
                    lits.add(v)
    return sorted(lits)[:32]


def run_farm(ctx, mode, n=0, corpus=False, defs=None, tag="farm", timeout=3000, seed=None, wide=False):
    """one farm batch: returns (terms, jsons, err)"""
    binp, log = farm_bin(ctx)
    if not binp:
        return [], [], "harness build failed:\n" + log[-3000:]
    ctx._farm_runs += 1
    work = os.path.join(ctx.scratch, "farm-%s-%d" % (tag, ctx._farm_runs))
    os.makedirs(work)
    args = ["-mode", mode, "-n", n, "-repo", ctx.copy_repo(), "-work", work, "-gosum", ctx._farm_sum]
    if corpus:
        args.append("-corpus")
    if seed is not None:
        args += ["-seed", seed]
    if wide:
        args += ["-wide", "-steer", ",".join(str(x) for x in source_literals(ctx))]
    if defs is not None:
        dp = os.path.join(work, "defs.json")
        with open(dp, "w") as f:
            json.dump(defs, f)
        args += ["-defs", dp]
    terms, jsons, err = vlib.harness_cases(ctx, binp, [("%s%d" % (tag, ctx._farm_runs), args)], timeout=timeout)
    import shutil
    shutil.rmtree(work, ignore_errors=True)
    return terms, jsons, err


def refers_to_sibling(fd):
    """some trait cell of the file is typed as another enum of the same file (pkg.E<k>): the enums of such a file
    belong to one invocation and cannot be separated"""
    import re as _re
    return any(_re.fullmatch(r"pkg\.E\d+", cl.get("ty", "")) for e in fd["enums"] for c in e["consts"] for cl in (c.get("cells") or []))


def single_enum_file(j):
    """the definition file of case j reduced to the one enum the case is about (the whole file when its enums
    refer to each other)"""
    fd = copy.deepcopy(j["file"])
    if refers_to_sibling(fd):
        fd["kind"] = "minimise"
        fd.pop("source", None)
        return fd
    fd["enums"] = [fd["enums"][j["enum"]]]
    fd["kind"] = "minimise"
    fd.pop("source", None)
    return fd


def explicit(fd):
    """spell every constant as `Name T = value` in one block (dropping constants must not shift iota)"""
    fd = copy.deepcopy(fd)
    for bi, e in enumerate(fd["enums"]):
        for c in e["consts"]:
            c["form"], c["rhs"], c["skip"], c["block"] = "explicit", c["val"], 0, bi
    return fd


def lowest_name(fd):
    cs = fd["enums"][0]["consts"]
    return min(cs, key=lambda c: (int(c["val"]), c["name"]))["name"] if cs else None


def keep_lowest(orig):
    """candidates must keep the constant whose line names the traits (the least (value, name))"""
    low = lowest_name(orig)
    has_cells = any(c.get("cells") for c in orig["enums"][0]["consts"])
    return lambda fd: (not has_cells) or lowest_name(fd) == low


def minimise(ctx, mode, case_type, judge, j, code, keep=None, rounds=4):
    """delta-debugging on the constants of the failing enum: each round runs one farm batch with
    every candidate definition (one constant or one half removed) and keeps the smallest one
    that is still judged with the same code inside Coq"""
    try:
        if refers_to_sibling(j["file"]):
            return j   # enums of one invocation that refer to each other: reported as they are
        cur = explicit(single_enum_file(j))
        keep = keep or keep_lowest(cur)
        terms, jsons, err = run_farm(ctx, mode, defs=[cur], tag="min")
        if err or not terms:
            return j
        bad, _, err = ctx.judge_cases(header_of(ctx), case_type, judge_of(ctx, judge), terms, shard=50, tag="min")
        if err or not any(c == code for _, c in bad):
            return j   # the explicit spelling does not fail: keep the original
        best = jsons[bad[0][0]]
        for _ in range(rounds):
            consts = cur["enums"][0]["consts"]
            if len(consts) <= 1:
                break
            # minimisation is a courtesy: no new round once the check has used its quick-tier budget
            if ctx.tier == "quick" and time.time() - ctx.t0 > MINIMISE_BUDGET_S:
                ctx.log("minimisation stopped after %.0fs (budget); reporting the %d-constant definition" % (
                    time.time() - ctx.t0, len(consts)))
                break
            cands = []
            half = len(consts) // 2
            if half >= 2:
                cands.append(consts[:half])
                cands.append(consts[half:])
            for i in range(len(consts)):
                cands.append(consts[:i] + consts[i + 1:])
            defs = []
            for cs in cands:
                fd = copy.deepcopy(cur)
                fd["enums"][0]["consts"] = copy.deepcopy(cs)
                if keep(fd):
                    defs.append(fd)
            defs = defs[:48]
            if not defs:
                break
            terms, jsons, err = run_farm(ctx, mode, defs=defs, tag="min")
            if err:
                break
            bad, _, err = ctx.judge_cases(header_of(ctx), case_type, judge_of(ctx, judge), terms, shard=50, tag="min")
            if err:
                break
            hits = [i for i, c in bad if c == code]
            if not hits:
                break
            i = min(hits, key=lambda k: len(jsons[k]["file"]["enums"][0]["consts"]))
            best = jsons[i]
            cur = explicit(single_enum_file(best))
        best = dict(best)
        best["kind"] = j.get("kind", "") + "/minimised"
        return best
    except Exception as ex:  # minimisation is best effort
        ctx.log("minimise failed: %r" % (ex,))
        return j


def slim(j, keep_obs=True, maxlist=40):
    """replay/evidence view of a case: definition source + options + (shortened) observations"""
    out = {k: j.get(k) for k in ("mode", "kind", "type", "outcome", "shape", "nconsts", "bits", "signed")}
    f = j["file"]
    out["options"] = f["opts"]
    out["source"] = f.get("source")
    out["definition"] = f["enums"][j["enum"]] if j["enum"] < len(f["enums"]) else None
    for k in ("gen_log", "build_log", "const_value_mismatch"):
        if j.get(k):
            out[k] = j[k]
    if keep_obs and j.get("obs"):
        o = {}
        for k, v in j["obs"].items():
            if isinstance(v, list) and len(v) > maxlist:
                o[k] = v[:maxlist] + ["... %d more" % (len(v) - maxlist)]
            else:
                o[k] = v
        out["observed"] = o
    return out


def hist(it):
    h = {}
    for x in it:
        h[str(x)] = h.get(str(x), 0) + 1
    return dict(sorted(h.items()))


def size_bucket(n):
    if n <= 5:
        return "1-5"
    if n <= 13:
        return "6-13"
    if n <= 18:
        return "14-18"
    return "19-40"


def replay_file(ctx, path, mode, case_type, judge, explain):
    """re-run the definition of a replay file on the current tree and judge it again"""
    rep = json.load(open(path))
    case = rep.get("case") or {}
    fd = rep.get("definition_file")
    if not fd:
        print(json.dumps(rep, indent=1)[:4000])
        print("replay file carries no definition (it records a broken obligation)")
        return 0
    if not build_judge(ctx):
        return 2
    use_skeletons(ctx)
    terms, jsons, err = run_farm(ctx, mode, defs=[fd], tag="replay")
    if err:
        print(err)
        return 2
    bad, _, err = ctx.judge_cases(header_of(ctx), case_type, judge_of(ctx, judge), terms, shard=50, tag="replay")
    if err:
        print(err)
        return 2
    print("definition:\n" + (jsons[0]["file"].get("source") or ""))
    print("options:", json.dumps(jsons[0]["file"]["opts"]))
    for i, j in enumerate(jsons):
        code = dict(bad).get(i, 0)
        print("enum %s: outcome=%s verdict=%s" % (j["type"], j["outcome"],
              {0: "ok", 1: "VIOLATES the specification", 2: "differs from the Coq model",
               3: "outside the quantified space"}[code]))
        if code:
            print(explain(j))
    return 1 if [c for _, c in bad if c != 3] else 0


def known(ctx, feats):
    """does an open finding of this property match the features?"""
    for k in ctx.findings:
        if k.get("property") == ctx.pid and k.get("status") == "open":
            mt = k.get("match", {})
            if mt and all(feats.get(a) == b for a, b in mt.items()):
                return True
    return False


def report_all(ctx, mode, case_type, judge, jsons, bad, features, explain, widen_n, shard=12, maxlist=12):
    """Order of the report: verdict-1 cases (the observation violates the specification = a concrete
    failing input) first — they take the replay slots, the first unlisted one is minimised.  Cases
    that only differ from the model (verdict 2) are listed in the evidence when the run already has
    a failing input; when it has none, a widened farm run (other seed, widen_n more files) looks
    for one, and only if that finds nothing are they reported `no-failing-input-found`."""
    pid = ctx.pid

    def rep_of(j, code):
        return {"case": slim(j, maxlist=maxlist),
                "definition_file": single_enum_file(j) if "/minimised" not in (j.get("kind") or "") else j["file"],
                "differences": explain(j),
                "verdict": {1: "observed behaviour violates the %s specification (failing input)" % pid,
                            2: "observed behaviour satisfies the specification but differs from the Coq model"}[code],
                "replay_cmd": "./check %s --replay <this file>" % pid}

    def report_v1(cases):
        found = False
        for j in cases:
            f = features(j)
            if not found and not known(ctx, f):
                j = minimise(ctx, mode, case_type, judge, j, 1)
                f = features(j)
            if ctx.report(rep_of(j, 1), f, failing_input=True) == "violation":
                found = True
        return found

    def report_tie():
        """a broken translator tie is itself a violation; it carries no failing input of its own"""
        for tf in getattr(ctx, "_tie_failures", None) or []:
            if any(v != "(not written)" for v in ctx.violations) and getattr(ctx, "_have_failing_input", False):
                tf = dict(tf, note="the farm run of this check found a failing input (reported above)")
            ctx.report(tf, {"kind": "translator_tie"}, failing_input=False)
        ctx._tie_failures = []

    v1 = [jsons[i] for i, code in bad if code == 1]
    v2 = [jsons[i] for i, code in bad if code != 1]
    # unlisted failing inputs first (they get the replay files), then the ones matching open findings
    v1.sort(key=lambda j: known(ctx, features(j)))
    def wide_search(found):
        """a tie is broken and no failing input is known: search beyond the caps of the ordinary generator (more
        constants, more trait columns, long / non-ASCII names, values around width boundaries), steered by the
        integer literals of the source under test; bounded: widen_n files, one farm run"""
        if found or not getattr(ctx, "_tie_failures", None):
            return False
        ctx.log("a translator tie is broken and no failing input is known: widened search beyond the generator's caps")
        terms, wj, err = run_farm(ctx, mode, n=min(widen_n, 16), corpus=False, seed=ctx.seed + 104729, tag="wide", wide=True)
        if err:
            ctx.log("widened search failed: " + err[-300:])
            return False
        wbad, _, err = ctx.judge_cases(header_of(ctx), case_type, judge_of(ctx, judge), terms, shard=shard, tag="wide")
        if err:
            return False
        wv1 = [wj[i] for i, code in wbad if code == 1 and not known(ctx, features(wj[i]))]
        ctx.cov["wide_search"] = {"evaluations": len(wj), "spec_violations": len(wv1), "steered_by": source_literals(ctx)}
        got = report_v1(wv1)
        ctx._have_failing_input = got
        return got

    have_failing = report_v1(v1)
    ctx._have_failing_input = have_failing
    ctx.cov["spec_violations"] = len(v1)
    ctx.cov["model_only_disagreements"] = len(v2)
    if not v2:
        wide_search(have_failing)
        report_tie()
        return
    ctx.cov["model_only_samples"] = [slim(j, maxlist=4) for j in v2[:2]]
    if not have_failing:
        ctx.log("%d case(s) differ from the model only; widening the farm run to look for a failing input" % len(v2))
        terms, wj, err = run_farm(ctx, mode, n=widen_n, corpus=False, seed=ctx.seed + 7919, tag="widen")
        if not err:
            wbad, _, err = ctx.judge_cases(header_of(ctx), case_type, judge_of(ctx, judge), terms, shard=shard, tag="widen")
            if not err:
                wv1 = [wj[i] for i, code in wbad if code == 1 and not known(ctx, features(wj[i]))]
                ctx.cov["widened_run"] = {"evaluations": len(wj), "spec_violations": len(wv1)}
                have_failing = report_v1(wv1)
    ctx._have_failing_input = have_failing
    have_failing = wide_search(have_failing) or have_failing
    report_tie()
    if have_failing:
        ctx.log("%d further case(s) satisfy the specification but differ from the model (listed in the evidence)" % len(v2))
        return
    for j in v2:
        ctx.report(rep_of(j, 2), features(j), failing_input=False)
