"""C07 — set: Set is a mathematical set under every operation sequence."""
import json
import os
import vlib

META = {
    "property_id": "C07",
    "level": "proof",
    "coq_targets": ["SetJudge.vo", "SetGenPrims.vo", "Base/SetLoopTie.vo", "SetTieLemmas.vo", "SetHeapPrims.vo", "SetHeapModel.vo"],
    "technique": "two translator ties (set.go regenerated to Gallina every run in value semantics and in store semantics with map identities, each proved equal to the hand-written model for all arguments by shape-independent tactics) + Coq refinement proof: the list-backed model of set.go refines a membership predicate for every element type with decidable equality, every operation sequence and every map iteration order; in-kernel correspondence of model, abstract set and the real Set[T] on generated op sequences with full membership probes",
    "design_ref": "DESIGN.md §4 C07",
    "level_text": "Proof: SetProofs.v shows for every element type T with a boolean equality reflecting =, every argument list (repeats, absent, empty) and every operation sequence from the nil set that the model of set/set.go keeps a duplicate-free key list, that Has/HasAny/Slice/Add/AddSet/Remove/RemoveSet are exactly all-members / some-member / each-member-once / union / difference with changed-flags true iff membership changed, for every order in which Go may range over a map, and that the whole run refines the abstract set (Props/C07.v, closed under the global context). The model is tied to the current source by running the real Set[int|string|struct] on generated sequences and judging every observation inside Coq against both the model and the abstract set.",
    "level_note": "Trusted: Coq 8.16.1 kernel + vm_compute; the translator harness/cmd/xlate_set (its two renderings of set.go - value semantics and store semantics with map identities - are proved equal to the hand-written models on every run, for all arguments); Go map semantics for comparable keys with reflexive == (no NaN keys: outside the quantifier); range over a map = fold over its key list in an arbitrary order; Go harness. No axioms.",
}

TRUSTED = [
    "Coq 8.16.1 kernel and VM (vm_compute); no native_compute; no axioms (Print Assumptions: closed under the global context)",
    "hand-written model coq/theories/SetModel.v of set/set.go, tied by correspondence only",
    "Go map semantics for comparable keys whose == is reflexive",
    "ranging over a map is modelled (model and both translator renderings) as a fold over the map's key list at loop entry, in an arbitrary order (order oracle: C07_run_oracle, C07_addset, C07_removeset); exact for loop bodies that delete at most the current key from, and insert only already present keys into, the map being ranged over - the case of s.AddSet(s) / s.RemoveSet(s) with the current bodies; the correspondence run exercises both",
    "store rendering (harness/cmd/xlate_set -part store): Set values are references into a heap, make allocates, assignments copy references, writes go to the location; a write to the nil map (a panic in Go) leaves the heap unchanged - the tie to the store-level operations of SetHeapModel.v, which allocate before writing, excludes it",
    "Go harness harness/cmd/c07 (generator, element->index mapping, probes; every operation runs under recover(), a panicking operation ends the sequence and is a failing input), Go 1.23 toolchain",
    "file set of the translators: harness/internal/srcset (all non-test .go files of package set matching the build context of the harness build, as go/build selects them)",
    "translator harness/cmd/xlate_set + harness/internal/setxl (go/parser -> Gallina over the map and slice primitives of SetGenPrims.v for Make/Slice/Add/AddSet/Remove/RemoveSet/Has/HasAny and the helpers they call; a map copied into a local is an alias of the same map); its output is proved equal to the model for all arguments by coq/ties/Tie_C07.v (shape-independent tactics of Base/SetLoopTie.v, canonical forms of SetTieLemmas.v); the translator itself is validated by the correspondence run",
]

HEADER = ("From Coq Require Import ZArith List Bool.\nImport ListNotations.\n"
          "From GT Require Import Base.Verdict SetModel SetMultiModel SetJudge.\n")


def nontrivial(j):
    """non-trivial: some call has a repeated argument, or targets a nil/empty set, or is a
    Has/HasAny with >= 2 arguments"""
    prev_empty = True
    for o, ob in zip(j["ops"], j["obs"]):
        a = o.get("args") or []
        if len(a) != len(set(a)):
            return True
        if o["op"] in ("Has", "HasAny") and len(a) >= 2:
            return True
        if prev_empty and o["op"] in ("Remove", "RemoveSet", "Add", "AddSet", "RemoveSelf", "AddSelf"):
            return True
        prev_empty = not ob["members"]
    return False


def features(j, step=None):
    f = {"kind": j.get("kind"), "elem": j.get("elem")}
    if step is not None:
        o = j["ops"][step]
        a = o.get("args") or []
        f.update({"op": o["op"], "repeated_arg": len(a) != len(set(a)), "nargs": len(a)})
    return f


def judge(ctx, terms, tag):
    return ctx.judge_cases(HEADER, "set_case", "set_judge", terms, shard=150, tag=tag)


def rerun(ctx, binp, cands, tag):
    """execute candidate cases on the real code and judge them; returns list of (cand_json, code)"""
    path = os.path.join(ctx.scratch, "cand_%s.jsonl" % tag)
    with open(path, "w") as f:
        for c in cands:
            f.write(json.dumps(c) + "\n")
    terms, jsons, err = vlib.harness_cases(ctx, binp, [("cand_" + tag, ["-mode", "file", "-in", path])])
    if err:
        return None
    bad, _, err = judge(ctx, terms, "cand_" + tag)
    if err:
        return None
    codes = dict(bad)
    return [(jsons[i], codes.get(i, 0)) for i in range(len(jsons))]


def minimise(ctx, binp, j):
    """first failing step, re-executed from a state rebuilt with Make(previous members)"""
    cands = []
    for k, o in enumerate(j["ops"]):
        prev = j["obs"][k - 1]["members"] if k else None
        ops = ([{"op": "Make", "args": prev}] if prev is not None and (prev or not j["obs"][k - 1]["slice_nil"]) else []) + [o]
        cands.append({"kind": j["kind"] + "/minimised", "elem": j["elem"], "universe": j["universe"], "ops": ops})
    res = rerun(ctx, binp, cands, "min%d" % ctx.nreplay)
    if res:
        for c, code in res:
            if code:
                return c, code, len(c["ops"]) - 1
    return j, None, None


def run(ctx):
    ctx.trusted = TRUSTED
    ctx.assumptions = ["element types are Go comparable types with reflexive == (no NaN keys)",
                       "single-goroutine use of a Set value (the property makes no concurrency claim)"]
    ctx.obligations_or_violation()
    binp, log = ctx.build_harness("c07")
    if not binp:
        ctx.report({"unchecked": "harness build against the current tree", "detail": log[-3000:]},
                   {"kind": "build"}, failing_input=False)
        return
    quick = ctx.tier == "quick"
    tie_ok, tie_detail = ctx.translator_tie(
        "xlate_set", ["-part", "set", "-src", os.path.join(ctx.copy_repo(), "set", "set.go")], "SetGen", "Tie_C07")
    ctx.log("translator tie:", "OK" if tie_ok else "BROKEN", "-", tie_detail.splitlines()[0])
    tie1 = ctx.cov.get("translator_tie")
    # the same source once more with map identities (Set values = references into a heap): storage shared
    # between two sets is expressible there; tied to the store-level operations of SetHeapModel.v
    st_ok, st_detail = ctx.translator_tie(
        "xlate_set", ["-part", "store", "-src", os.path.join(ctx.copy_repo(), "set", "set.go")], "SetStoreGen", "Tie_C07_store")
    ctx.log("translator tie (store semantics):", "OK" if st_ok else "BROKEN", "-", st_detail.splitlines()[0])
    ctx.cov["translator_tie"] = {"value_semantics": tie1 or {"status": "BROKEN"},
                                 "store_semantics": ctx.cov.get("translator_tie") if st_ok else {"status": "BROKEN"}}
    if not st_ok:
        tie_detail = (tie_detail if not tie_ok else "") + "\n[store semantics] " + st_detail
        tie_ok = False
    runs = [("corpus", ["-mode", "corpus"]),
            ("random", ["-mode", "random", "-n", 700 if quick else 30000])]
    if not quick:   # thorough: the large universes as a random stream too (quick has them as fixed corpus)
        runs.append(("big", ["-mode", "big", "-n", 3000, "-sizes", steer_sizes(ctx)]))
    terms, jsons, err = vlib.harness_cases(ctx, binp, runs)
    if err:
        ctx.report({"unchecked": "harness run", "detail": err}, {"kind": "harness"}, failing_input=False)
        return
    bad, _, err = judge(ctx, terms, "seq")
    if err:
        ctx.report({"unchecked": "in-kernel evaluation of the correspondence", "detail": err},
                   {"kind": "coq_eval"}, failing_input=False)
        return
    mjs = multi(ctx, binp, 350 if quick else 15000)
    if not quick:
        mjs += multi(ctx, binp, 1500, seed_offset=977, mode="bigmulti", extra=["-sizes", steer_sizes(ctx)])
    if not tie_ok and not ctx.violations:
        # a broken tie with a clean correspondence run: widen the search for a failing input — first along
        # SIZE (sets larger than one map bucket, argument lists up to 16, sizes steered by the literals of
        # the source), then more of the ordinary sequences
        sizes = steer_sizes(ctx)
        ctx.log("widening: universe sizes", sizes)
        t2, j2, err = vlib.harness_cases(ctx, binp, [("widenbig", ["-mode", "big", "-n", 500, "-sizes", sizes, "-seed", ctx.seed + 31]),
                                                     ("widen", ["-mode", "random", "-n", 2500, "-seed", ctx.seed + 7919])])
        if not err:
            b2, _, err = judge(ctx, t2, "widen")
            for i, code in (b2 or []):
                j, step = j2[i], None
                if ctx.nreplay < 5:
                    mj, mcode, mstep = minimise(ctx, binp, j)
                    if mcode:
                        j, code, step = mj, mcode, mstep
                ctx.report({"case": j, "failing_step": step, "found_by": "widened search after the translator tie broke",
                            "verdict": "observation violates the mathematical-set specification" if code == 1 else "observation differs from the Coq model"},
                           features(j, step), failing_input=(code == 1))
            jsons += j2
        if not ctx.violations:
            mjs += multi(ctx, binp, 250, seed_offset=977, mode="bigmulti", extra=["-sizes", sizes])
        if not ctx.violations:
            mjs += multi(ctx, binp, 1500, seed_offset=104729)
    if not tie_ok and not ctx.violations:
        ctx.report({"unchecked": "translator ties coq/ties/Tie_C07.v / Tie_C07_store.v against SetGen.v / SetStoreGen.v regenerated from set/set.go",
                    "detail": tie_detail, "search": "widened correspondence run (%d sequences, %d programs) found no failing input" % (len(jsons), len(mjs))},
                   {"kind": "tie"}, failing_input=False)
    for i, code in sorted(bad, key=lambda x: (x[1], x[0])):   # failing inputs (code 1) first
        j, step = jsons[i], None
        if ctx.nreplay < 5:
            mj, mcode, mstep = minimise(ctx, binp, j)
            if mcode:
                j, code, step = mj, mcode, mstep
        ctx.report({"case": j, "failing_step": step,
                    "verdict": {1: "observation violates the mathematical-set specification",
                                2: "observation differs from the Coq model"}[code],
                    "replay_cmd": "./check C07 --replay <this file>"},
                   features(j, step), failing_input=(code == 1))
    nt = [j for j in jsons if nontrivial(j)]
    ops = sum(len(j["ops"]) for j in jsons) + sum(len(j["mops"]) for j in mjs)
    ctx.cov.update({
        "evaluations": len(jsons) + len(mjs),
        "multi_variable_programs": len(mjs),
        "multi_variable_note": "programs over 2-3 set variables where AddSet/RemoveSet take another variable (or the same one) as argument and every variable is probed after every step: catches storage shared between two sets",
        "multi_op_histogram": hist(o["op"] for j in mjs for o in j["mops"]),
        "operations_compared": ops,
        "distinct_nontrivial": vlib.distinct_count([[j["elem"], j["universe"], j["ops"]] for j in nt]),
        "rule": "cases = op sequences (1-40 ops) over universes of 3-8 int/string/struct elements from nil, "
                "empty and pre-filled sets, argument lists of 0-6 items with repeats and absent elements "
                "(Has/HasAny >= 1 argument), incl. AddSet/RemoveSet with nil and with the set itself; after each "
                "op: result + sorted Slice + nil-ness + Has(u)/HasAny(u) for all u. non-trivial = a repeated "
                "argument, a Has/HasAny with >= 2 arguments, or a mutation of a nil/empty set; distinct by (elem, universe, ops)",
        "elem_histogram": hist(j["elem"] for j in jsons),
        "op_histogram": hist(o["op"] for j in jsons for o in j["ops"]),
        "length_histogram": hist(str(10 * (len(j["ops"]) // 10)) + "+" for j in jsons),
        "samples": jsons[:1] + jsons[9:10],
        "disagreements": len(bad),
    })
    ctx.log("correspondence: %d cases, %d operations, %d disagreement(s)" % (len(jsons), ops, len(bad)))


def steer_sizes(ctx):
    """universe sizes for the widened search: the fixed ladder beyond one map bucket plus sizes around every
    integer literal / constant of the package's source (thresholds such as `len(s) > 8`)"""
    import re
    sizes = {9, 17, 33, 65, 129}
    d = os.path.join(ctx.copy_repo(), "set")
    for name in sorted(os.listdir(d)):
        if not name.endswith(".go") or name.endswith("_test.go"):
            continue
        txt = re.sub(r"//[^\n]*", "", open(os.path.join(d, name), errors="replace").read())
        txt = re.sub(r"/\*.*?\*/", "", txt, flags=re.S)
        for m in re.finditer(r"(?<![\w.])(\d{1,3})(?![\w.])", txt):
            v = int(m.group(1))
            if 2 <= v <= 150:
                sizes.update({v + 1, 2 * v + 1, 2 * v + 2})
    return ",".join(str(v) for v in sorted(x for x in sizes if 2 <= x <= 320))


def multi(ctx, binp, n, seed_offset=0, mode="multi", extra=()):
    args = ["-mode", mode, "-n", n] + list(extra) + (["-seed", ctx.seed + seed_offset] if seed_offset else [])
    terms, jsons, err = vlib.harness_cases(ctx, binp, [("multi%d" % seed_offset, args)])
    if err:
        ctx.report({"unchecked": "harness run (multi)", "detail": err}, {"kind": "harness"}, failing_input=False)
        return []
    bad, _, err = ctx.judge_cases(HEADER, "mset_case", "mset_judge", terms, shard=60, tag="multi")
    if err:
        ctx.report({"unchecked": "in-kernel evaluation of the correspondence (multi)", "detail": err},
                   {"kind": "coq_eval"}, failing_input=False)
        return jsons
    for i, code in sorted(bad, key=lambda x: (x[1], x[0])):   # failing inputs (code 1) first
        j = jsons[i]
        if ctx.nreplay < 5:
            j, code = minimise_multi(ctx, binp, j, code)
        ctx.report({"case": j, "verdict": {1: "observation violates the mathematical-set specification (several variables)",
                                           2: "observation differs from the Coq model"}[code]},
                   {"kind": "multi", "elem": j["elem"], "ops": sorted({o["op"] for o in j["mops"]})},
                   failing_input=(code == 1))
    ctx.log("multi-variable programs: %d, %d disagreement(s)" % (len(jsons), len(bad)))
    return jsons


def minimise_multi(ctx, binp, j, code):
    """delta-debug the program on the real code: shortest failing prefix, then drop single operations while
    the re-executed program still fails.  Every round executes and judges ALL its candidates in one batch
    (one harness run, one in-kernel evaluation)."""
    state = {"round": 0}

    def batch(cands):
        """cands: list of op lists -> list of (case json, code) for the failing ones, in order"""
        if not cands:
            return []
        state["round"] += 1
        path = os.path.join(ctx.scratch, "mcand_%d_%d.jsonl" % (ctx.nreplay, state["round"]))
        with open(path, "w") as f:
            for ops in cands:
                f.write(json.dumps({"kind": "multi/minimised", "elem": j["elem"], "universe": j["universe"],
                                    "vars": j["vars"], "mops": ops}) + "\n")
        tag = "mcand%d_%d" % (ctx.nreplay, state["round"])
        terms, js, err = vlib.harness_cases(ctx, binp, [(tag, ["-mode", "multifile", "-in", path])])
        if err:
            return []
        bad, _, err = ctx.judge_cases(HEADER, "mset_case", "mset_judge", terms, shard=60, tag=tag)
        if err:
            return []
        return [(k, js[k], c) for k, c in sorted(bad)]

    ops = j["mops"]
    hits = batch([ops[:k] for k in range(1, len(ops) + 1)])
    if not hits:
        return j, code
    k, best, bcode = hits[0]
    ops = ops[:k + 1]
    for _ in range(len(ops)):
        n = len(ops) - 1                      # the last (failing) step stays
        if n < 1:
            break
        cands, size = [], max(n // 2, 1)
        while size >= 1:                      # drop chunks of n/2, n/4, ..., 1 operations
            cands += [ops[:a] + ops[a + size:] for a in range(0, n, size) if a + size <= n]
            size //= 2
        hits = batch(cands)
        if not hits:
            break
        k, best, bcode = min(hits, key=lambda h: len(cands[h[0]]))
        ops = cands[k]
    return best, bcode


def hist(it):
    h = {}
    for x in it:
        h[x] = h.get(x, 0) + 1
    return h


def replay(ctx, path):
    rep = json.load(open(path))
    c = rep["case"]
    binp, log = ctx.build_harness("c07")
    if not binp:
        print(log[-2000:])
        return 2
    res = rerun(ctx, binp, [{"kind": c["kind"], "elem": c["elem"], "universe": c["universe"], "ops": c["ops"]}], "replay")
    if not res:
        print("replay failed to run")
        return 2
    j, code = res[0]
    print(json.dumps(j, indent=1))
    print("verdict code on the current tree:", code, "(0 = property holds on this input)")
    if code:
        print("VIOLATION property=C07 replay=%s" % path)
    return 1 if code else 0
