"""gerr_lib — helpers shared by the gerror checks (C15, C06, C09)."""
import json
import os

import vlib

HEADER = ("From Coq Require Import NArith List Bool.\nImport ListNotations.\n"
          "From GT Require Import Base.Verdict Base.GErrStr GErrModel GErrSpec GErrJudge.\n")
# NB: no scope is opened here: vlib parses the printed (index, code) pairs as plain nat numerals.
# Case terms are emitted as `(...)%N` by the harnesses.

METHODS = ["Base", "SourceOnly", "Stack", "Src", "DTag", "Msg", "SrcDTagMsg", "SrcDTag", "SrcMsg",
           "DTagMsg", "SrcS", "DTagS", "MsgS", "SrcDTagMsgS", "SrcDTagS", "SrcMsgS", "DTagMsgS",
           "Convert", "ConvertS"]
STACK_TAKING = {"Stack", "SrcS", "DTagS", "MsgS", "SrcDTagMsgS", "SrcDTagS", "SrcMsgS", "DTagMsgS",
                "ConvertS"}


USES = {"Base": (), "SourceOnly": (), "Stack": (), "Src": ("src",), "DTag": ("dtag",), "Msg": ("fmt",),
        "SrcDTagMsg": ("src", "dtag", "fmt"), "SrcDTag": ("src", "dtag"), "SrcMsg": ("src", "fmt"),
        "DTagMsg": ("dtag", "fmt"), "SrcS": ("src",), "DTagS": ("dtag",), "MsgS": ("fmt",),
        "SrcDTagMsgS": ("src", "dtag", "fmt"), "SrcDTagS": ("src", "dtag"), "SrcMsgS": ("src", "fmt"),
        "DTagMsgS": ("dtag", "fmt"), "Convert": ("err",), "ConvertS": ("err",)}


def uses(method):
    """which of its arguments a method passes on to CloneBase (src, dtag, fmt, err)"""
    return set(USES[method])


GO_SPACE = set("\t\n\v\f\r \x85\xa0\u1680\u2028\u2029\u202f\u205f\u3000") | {chr(c) for c in range(0x2000, 0x200b)}


def go_trim(s):
    """strings.TrimSpace (unicode.IsSpace), not Python's wider str.strip"""
    i, j = 0, len(s)
    while i < j and s[i] in GO_SPACE:
        i += 1
    while j > i and s[j - 1] in GO_SPACE:
        j -= 1
    return s[i:j]


def hist(it):
    h = {}
    for x in it:
        h[x] = h.get(x, 0) + 1
    return dict(sorted(h.items(), key=lambda kv: str(kv[0])))


def fail(ctx, what, detail, kind):
    ctx.report({"unchecked": what, "detail": detail[-3000:]}, {"kind": kind}, failing_input=False)


def judge(ctx, case_type, judge_fn, terms, canary, shard=250, nontrivial=None, tag="cases", header=None):
    """ctx.judge_cases with a canary: a case known to be judged bad is put first and last; if the
    machinery does not report both, the evaluation is not trusted (guards against a silent pass
    when output parsing or the judge itself breaks).  Returns (bad, nontrivial_count, err) with
    indices relative to `terms`."""
    allt = [canary] + list(terms) + [canary]
    bad, nt, err = ctx.judge_cases(header or HEADER, case_type, judge_fn, allt, shard=shard,
                                   nontrivial=nontrivial, tag=tag)
    if err:
        return [], 0, err
    idx = {i for i, _ in bad}
    if 0 not in idx or len(allt) - 1 not in idx:
        return [], 0, "canary cases were not reported by the in-kernel judge: evaluation not trusted"
    return [(i - 1, c) for i, c in bad if 0 < i < len(allt) - 1], nt, None


def run_replay(ctx, binp, cases, tag):
    """run the harness in replay mode over a list of JSON case inputs; returns (terms, jsons, err)"""
    p = os.path.join(ctx.scratch, "replay_%s.json" % tag)
    with open(p, "w") as f:
        json.dump(cases, f)
    return vlib.harness_cases(ctx, binp, [("rp_" + tag, ["-mode", "replay", "-in", p])])


def minimise_chain(ctx, binp, case_type, judge, canary, j, want_code, rounds=6):
    """delta-debug the step list of a failing chain: re-run the implementation on prefixes and
    single-step deletions, judge them in Coq again, keep the shortest one with the same code."""
    best = j
    for rnd in range(rounds):
        steps = best["steps"]
        n = len(steps)
        if n <= 1:
            break
        cands = []
        for k in range(1, n):
            cands.append(steps[:k])
        for k in range(n):
            cands.append(steps[:k] + steps[k + 1:])
        inputs = []
        for c in cands:
            d = {key: val for key, val in best.items() if key not in ("steps", "obs", "fac_after", "kind")}
            d["steps"] = c
            inputs.append(d)
        terms, jsons, err = run_replay(ctx, binp, inputs, "min%d_%d" % (ctx.nreplay, rnd))
        if err:
            break
        bad, _, err = globals()["judge"](ctx, case_type, judge, terms, canary, shard=400,
                                         tag="min%d_%d" % (ctx.nreplay, rnd))
        if err:
            break
        hits = [jsons[i] for i, code in bad if code == want_code]
        if not hits:
            break
        new = min(hits, key=lambda c: len(c["steps"]))
        if len(new["steps"]) >= n:
            break
        best = new
        best["kind"] = j.get("kind", "") + "/minimised"
    return best


def write_corpus_hit(pid, j):
    """remember a minimised disagreement for later runs (corpus/Cxx/*.json, replay-mode input).
    Only runs against /repo itself may add to the committed corpus; experiment runs (VERIF_REPO) write
    to their own output directory."""
    d = os.path.join(vlib.VERIF if vlib.OUT == vlib.VERIF else vlib.OUT, "corpus", pid)
    os.makedirs(d, exist_ok=True)
    body = json.dumps(j, sort_keys=True)
    import hashlib
    p = os.path.join(d, hashlib.sha1(body.encode()).hexdigest()[:12] + ".json")
    if not os.path.isfile(p):
        with open(p, "w") as f:
            f.write(body + "\n")
    return p


def load_corpus(pid):
    d = os.path.join(vlib.VERIF, "corpus", pid)
    out = []
    if os.path.isdir(d):
        for n in sorted(os.listdir(d)):
            if n.endswith(".json"):
                try:
                    out.append(json.load(open(os.path.join(d, n))))
                except ValueError:
                    pass
    return out


# ---------------------------------------------------------------- generator (gerror CLI) support
def build_gerror_cli(ctx):
    """build the real gerror CLI from the scratch copy of the current tree (workspace mode, as
    the repository itself builds it).  Returns (path, log)."""
    out = os.path.join(ctx.scratch, "bin", "gerror")
    if os.path.isfile(out):
        return out, ""
    os.makedirs(os.path.dirname(out), exist_ok=True)
    env = dict(os.environ)
    env.update(GOPROXY="off", GOSUMDB="off", GOTOOLCHAIN="local", CGO_ENABLED="0")
    env.pop("GOFLAGS", None)
    env.pop("GOWORK", None)
    rc, log = vlib.sh(["go", "build", "-o", out, "./gerror/cmd/gerror"], cwd=ctx.copy_repo(), env=env,
                      timeout=900)
    return (out if rc == 0 else None), log


def run_gerror_cli(ctx, cli, pkgdir, gofile, types, skip_convert=False, tags="gerrgen", out=None):
    """run the CLI as go:generate would (cwd = package dir, GOFILE set).  Returns (rc, log)."""
    env = vlib.go_env()
    env["GOFLAGS"] = "-mod=mod -tags=%s" % tags if tags else "-mod=mod"
    env["GOFILE"] = gofile
    env["GOPACKAGE"] = "main"
    env["PWD"] = pkgdir      # gencommon resolves GOFILE against $PWD, not the process cwd
    args = [cli, "--types=" + ",".join(types)]
    if skip_convert:
        args.append("--skipConvertGen")
    if out:
        args += ["--out", out]
    return vlib.sh(args, cwd=pkgdir, env=env, timeout=300)


def xlate(ctx, args):
    """build (once) and run the wiring translator; returns (rc, output)"""
    binp = getattr(ctx, "_xlate_bin", None)
    if not binp:
        binp, log = ctx.build_harness("xlate_gerr_wiring")
        if not binp:
            return 1, "translator build failed:\n" + log
        ctx._xlate_bin = binp
    return vlib.sh([binp] + args, timeout=120)


def tie_base_wiring(ctx):
    """(T) regenerate the wiring table of GError's 19 methods from gerror/gerror.go and check it
    equal to GErrModel.base_wiring by computation.  Returns (ok, detail)."""
    src = os.path.join(ctx.copy_repo(), "gerror", "gerror.go")
    rc, out = xlate(ctx, ["-base", src, "-name", "gen_base_wiring"])
    if rc != 0:
        return False, "translator could not read gerror/gerror.go: " + out
    v = ("From Coq Require Import List.\nImport ListNotations.\nFrom GT Require Import GErrModel.\n"
         + out +
         "\nLemma tie_base_wiring : map gen_base_wiring all_methods = map base_wiring all_methods.\n"
         "Proof. vm_compute. reflexivity. Qed.\n")
    rc, out2 = ctx.coq_eval("GErrWiringGen_base_%s" % ctx.pid, v, timeout=300)
    if rc != 0:
        return False, out2
    return True, "gen_base_wiring (from gerror/gerror.go, 19 methods) = GErrModel.base_wiring by vm_compute"


# ---------------------------------------------------------------- report ordering
class Reporter:
    """Orders the reports of a check: cases whose observation violates the specification
    (verdict 1 = a concrete failing input) are reported first and get the replay slots.  Broken
    obligations / ties / correspondence-only disagreements (verdict 2) are *deferred*: they are
    reported, with `no-failing-input-found`, only when no unlisted verdict-1 case exists after a
    widened generator run; otherwise they are named inside the failing inputs' replay files."""

    def __init__(self, ctx):
        self.ctx = ctx
        self.pending = []      # (replay dict, features)
        self.nviol = 0         # unlisted verdict-1 violations reported so far

    def defer(self, what, detail, kind, extra=None):
        rep = {"unchecked": what, "detail": (detail or "")[-3000:]}
        if extra:
            rep.update(extra)
        self.pending.append((rep, {"kind": kind, "clause": kind}))

    def obligations(self, props_rel=None):
        ok, detail = self.ctx.proof_obligations(props_rel)
        self.ctx.log("proof obligations:", "OK" if ok else "BROKEN", "-", detail.splitlines()[0])
        if not ok:
            self.defer("theorem file %s" % (props_rel or "Props/%s.v" % self.ctx.pid), detail, "proof_obligation")
        return ok

    def failing(self, replay, features):
        if self.pending:
            replay = dict(replay)
            replay["also_unchecked"] = [p[0].get("unchecked") for p in self.pending]
        r = self.ctx.report(replay, features, failing_input=True)
        if r == "violation":
            self.nviol += 1
        return r

    def need_widened(self):
        return bool(self.pending) and self.nviol == 0

    def flush(self):
        """to be called last: the deferred items, when no failing input was found"""
        if self.nviol == 0:
            for rep, feat in self.pending:
                self.ctx.report(rep, feat, failing_input=False)
        elif self.pending:
            self.ctx.log("not reported separately (failing inputs above carry them): " +
                         "; ".join(str(p[0].get("unchecked")) for p in self.pending))
        self.ctx.cov["deferred_items"] = [p[0].get("unchecked") for p in self.pending]


# ---------------------------------------------------------------- function tie (go/ast -> Gallina)
def tie_functions(ctx):
    """(T) CloneBase, FactoryOf, GError.Is, Unwrap, ExtractFactoryReference and their unexported
    helpers are translated from the current source to Gallina (harness/cmd/xlate_gerr_wiring -fns)
    and proved equal to the hand model for ALL arguments (semantic tie lemmas, props/gerr_tie_lib.py,
    coq/theories/GErrTie.v).  Returns the dict of gerr_tie_lib.tie_functions, cached per run."""
    if getattr(ctx, "_fn_tie", None) is None:
        try:
            import gerr_tie_lib
            ctx._fn_tie = gerr_tie_lib.tie_functions(ctx)
        except Exception as e:  # noqa: a broken tie library is a broken tie
            ctx._fn_tie = {"ok": False, "variant": None, "appends_clipped": None, "lemmas": 0,
                           "detail": "function tie could not be run: %r" % (e,)}
    return ctx._fn_tie
