"""iface_lib — helpers of the C19 check (gencommon FindInterface farm).

Kept here rather than in tools/vlib.py (shared, not ours): the verification-only export added to
the scratch copy of gencommon, the classification of a failing case into `features`, and the
reduction of a failing program description to the methods that matter.
"""
import copy
import json
import os
import re

EXPORT_VERIF = '''//go:build verif

package gencommon

import (
	"go/ast"

	"golang.org/x/tools/go/packages"
)

// CalcImportsVerif exposes calcImports to the verification harness (scratch copy only).
func CalcImportsVerif(pkg *packages.Package, fAST *ast.File) *ImportHandler {
	return calcImports(pkg, fAST)
}
'''

GENERATED = re.compile(r"^(arg|ret|ctx|err)\d*$")


def all_methods(tree):
    out = list(tree.get("own") or [])
    for e in tree.get("emb") or []:
        out += all_methods(e)
    return out


def height(tree):
    return max([1 + height(e) for e in tree.get("emb") or []] or [0])


BASIC = {"bool", "string", "int", "int8", "int16", "int32", "int64", "uint", "uint8", "uint16", "uint32",
         "uint64", "uintptr", "byte", "rune", "float32", "float64", "complex64", "complex128"}


def basic_ok(x):
    """no type outside the constructors the property lists (mirror of IFaceJudge.ty_in_domain)"""
    if isinstance(x, dict):
        if x.get("k") == "basic" and x.get("name") not in BASIC:
            return False
        return all(basic_ok(v) for v in x.values())
    if isinstance(x, list):
        return all(basic_ok(v) for v in x)
    return True


def find_decl(tree, name):
    lvl = [tree]
    while lvl:
        for t in lvl:
            for m in t.get("own") or []:
                if m["name"] == name:
                    return m
        lvl = [e for t in lvl for e in (t.get("emb") or [])]
    return None


def user_names(m):
    return [p["name"] for p in (m.get("ps") or []) + (m.get("rs") or [])]


def classify(j):
    """shape of a bad case: which part of the property the observation breaks (computed from the
    recorded observation only, never from the property id)"""
    f = {"kind": j.get("kind"), "options": ("private+" if j["priv"] else "") + ("embedded" if j["emb"] else "")}
    dup, lost = [], []
    for o in j["obs"]:
        names = o["in"] + o["out"]
        if len(set(names)) != len(names):
            dup.append(o["name"])
        decl = find_decl(j["tree"], o["name"])
        if decl:
            seen = set()
            for u, fin in zip(user_names(decl), names):
                if u in ("", "_"):
                    continue
                if u not in seen and fin != u:
                    lost.append(o["name"])
                seen.add(u)
    f["duplicate_parameter_names"] = bool(dup)
    f["user_name_not_kept"] = bool(lost)
    if dup:
        o = [o for o in j["obs"] if o["name"] == dup[0]][0]
        names = o["in"] + o["out"]
        d = [n for n in names if names.count(n) > 1]
        f["generated_name_equals_user_name"] = bool(GENERATED.match(d[0])) and d[0] in user_names(
            find_decl(j["tree"], o["name"]) or {})
        f["duplicate_across_inputs_and_outputs"] = any(n in o["out"] for n in d) and any(n in o["in"] for n in d)
    got = {o["name"] for o in j["obs"]}
    gms = set(j.get("go_method_set") or [])
    f["renders_method_outside_go_method_set"] = bool(got - gms)
    own = {m["name"] for m in j["tree"].get("own") or []}
    several = sorted(n for n in got - own if sum(1 for d in min_depths(j["tree"], n) if d) >= 2)
    f["collected_name_defined_under_several_fields"] = bool(several)
    f["wrong_type_for_method"] = any("wrong type for method" in e for e in j.get("build_errors") or [])
    fields = set(j["tree"].get("fields") or [])
    f["renders_method_hidden_by_field"] = bool(got & fields)
    f["embedding_height"] = height(j["tree"])
    f["compiled"] = j["compiled"]
    # a method Go promotes from exactly one embedded field (visible under the options) that is not rendered
    missing = set()
    if j["emb"]:
        for n in gms - got - own:
            if (j["priv"] or n[:1].isupper()) and sum(1 for d in min_depths(j["tree"], n) if d) == 1:
                missing.add(n)
    f["promoted_method_not_rendered"] = bool(missing)
    shared = shared_iface_names(j["tree"])
    f["missing_method_shared_by_embedded_interfaces"] = bool(missing & shared)
    f["method_rendered_twice"] = len(got) != len(j["obs"])
    als = [i["Alias"] for i in j.get("imports") or []]
    f["duplicate_import_alias"] = len(set(als)) != len(als)
    f["import_alias_equals_package_level_name"] = bool(set(als) & set(j.get("locals") or []))
    # an active import (not one of the file's own specs) whose name is bound already: by a spec of the
    # file for another path, by a package-level declaration, or by another active import
    spec_names = {}
    for sp in j.get("specs") or []:
        spec_names[sp["path"]] = sp.get("rename") or (j.get("pkg_imports") or {}).get(sp["path"]) or sp["path"].rsplit("/", 1)[-1]
    taken = False
    for i in j.get("imports") or []:
        if i["Path"] in spec_names:
            continue
        others = [n for p_, n in spec_names.items() if p_ != i["Path"]]
        others += [k["Alias"] for k in j.get("imports") or [] if k["Path"] != i["Path"]]
        taken = taken or i["Alias"] in others or i["Alias"] in (j.get("locals") or [])
    f["on_demand_import_takes_bound_name"] = taken
    f["panicked"] = bool(j.get("panic"))
    if j.get("panic"):
        f["panic_in"] = j.get("panic_in", "?")
        f["nil_dereference"] = "nil pointer" in j["panic"]
        f["embedded_type_of_unloaded_package"] = "embedded_type_of_unloaded_package" in (j.get("notes") or [])
        f["embeds_predeclared_type"] = "embeds_predeclared_type" in (j.get("notes") or [])
    f["methods_involved"] = sorted(set(dup + lost) | (got - gms) | set(several) | (got & fields) | missing)
    return f


def iface_decl_names(it):
    """names declared below an interface declaration, with repetitions"""
    out = [m["name"] for m in it.get("explicit") or []]
    for e in it.get("emb") or []:
        out += iface_decl_names(e)
    return out


def shared_iface_names(tree):
    """names that some interface node of the tree inherits from two or more of its parts"""
    out = set()
    if tree.get("iface"):
        ns = iface_decl_names(tree["iface"])
        out |= {n for n in ns if ns.count(n) > 1}
    for e in tree.get("emb") or []:
        out |= shared_iface_names(e)
    return out


def reduce_desc(j, keep):
    """program description keeping only the methods named in `keep` (all types keep their
    embedding structure); the target keeps one method so that it still has 1-8 methods"""
    d = copy.deepcopy(j["desc"])
    d["name"] = "r0"
    d["kind"] = j.get("kind", "") + "/reduced"
    keep = set(keep)
    for s in d["structs"]:
        ms = [m for m in s.get("methods") or [] if m["name"] in keep]
        if s["name"] == j["target"] and not ms and s.get("methods"):
            ms = s["methods"][:1]          # the target keeps at least one method (quantifier: 1-8)
        s["methods"] = ms
    for it in d.get("ifaces") or []:
        it["methods"] = [m for m in it.get("methods") or [] if m["name"] in keep] or (it.get("methods") or [])[:1]
    d["targets"] = [j["target"]]

    def fix_self(x):
        # the package is renamed: rewrite self references inside type descriptions
        if isinstance(x, dict):
            if x.get("k") == "named" and x.get("pkg", "").endswith("/" + j["desc"]["name"]):
                x["pkg"] = x["pkg"][: -len(j["desc"]["name"])] + "r0"
            for v in x.values():
                fix_self(v)
        elif isinstance(x, list):
            for v in x:
                fix_self(v)
    fix_self(d)
    return d


def rename_self(desc, old, new):
    """a program description is renamed: rewrite the self references inside its type descriptions"""
    def go(x):
        if isinstance(x, dict):
            if x.get("k") == "named" and x.get("pkg", "").endswith("/" + old):
                x["pkg"] = x["pkg"][: -len(old)] + new
            for v in x.values():
                go(v)
        elif isinstance(x, list):
            for v in x:
                go(v)
    go(desc)
    return desc


def view(j):
    """what goes into a replay file / evidence sample: the case without the bulky parts"""
    v = {k: j[k] for k in ("kind", "prog", "target", "priv", "emb", "obs", "imports", "go_method_set",
                           "compiled", "rendered", "panic", "panic_in") if k in j}
    if j.get("build_errors"):
        v["build_errors"] = j["build_errors"]
    if j.get("notes"):
        v["notes"] = j["notes"]
    v["desc"] = j.get("desc")
    return v


def write_progs(path, descs):
    with open(path, "w") as f:
        json.dump(descs, f)
    return path


# ---------------------------------------------------------------- regression-prone shapes
def _types(x):
    """all type descriptions inside a method / parameter list (pre-order)"""
    if isinstance(x, dict):
        if "k" in x:
            yield x
        for v in x.values():
            yield from _types(v)
    elif isinstance(x, list):
        for v in x:
            yield from _types(v)


def _named_from(t, suffix):
    return t.get("k") == "named" and t.get("pkg", "").endswith(suffix)


def method_shapes(m):
    s = set()
    ps, rs = m.get("ps") or [], m.get("rs") or []
    if m.get("variadic") and ps:
        e = ps[-1]["t"].get("elem") or {}
        if e.get("k") == "ptr":
            e = e.get("elem") or {}
        if _named_from(e, "/sib/ren"):
            s.add("variadic_named_renamed_import")
    for t in _types([ps, rs]):
        if t["k"] == "map" and (t.get("elem") or {}).get("k") == "slice":
            p = t["elem"].get("elem") or {}
            g = p.get("elem") or {}
            if p.get("k") == "ptr" and g.get("k") == "named" and any(
                    a.get("k") == "named" and "/sib/" in a.get("pkg", "") for a in _types(g.get("args") or [])):
                s.add("map_slice_ptr_generic_sibling_args")
        if _named_from(t, "/sib/odd-dir") or _named_from(t, "/sib/v2"):
            s.add("dir_differs_from_package")
        if t["k"] == "func" and len(t.get("rs") or []) >= 2:
            s.add("func_param_multiple_results")
        if t["k"] == "array" and t.get("lenconst"):
            s.add("array_constant_length")
    if any(i > 0 and p["name"] in ("", "_") and p.get("ctx") for i, p in enumerate(ps)):
        s.add("unnamed_context_not_first")
    names = [p["name"] for p in ps + rs]
    if len(names) >= 2 and all(GENERATED.match(n) for n in names):
        s.add("user_names_equal_generated_everywhere")
    return s


def min_depths(tree, name):
    """for each embedded field of the target: the shallowest depth at which its subtree declares name"""
    def depth(t, d):
        if any(m["name"] == name for m in t.get("own") or []):
            return d
        ds = [x for x in (depth(e, d + 1) for e in t.get("emb") or []) if x]
        return min(ds) if ds else 0
    return [depth(e, 1) for e in tree.get("emb") or []]


def same_name_many_fields(tree):
    """a name provided under >= 3 embedded fields, not all at the same depth, unique at its shallowest"""
    own = {m["name"] for m in tree.get("own") or []}
    for n in {m["name"] for m in all_methods(tree)} - own:
        ds = [d for d in min_depths(tree, n) if d]
        if len(ds) >= 3 and len(set(ds)) > 1 and ds.count(min(ds)) == 1:
            return True
    return False


def field_hides_method(tree):
    """a single embedded field, and a plain field of the target named like a method below it"""
    embs = tree.get("emb") or []
    if len(embs) != 1:
        return False
    below = {m["name"] for m in all_methods(embs[0])}
    own_embedded = {e["self"].get("name") for e in embs}
    return any(f in below for f in (tree.get("fields") or []) if f not in own_embedded)


def shape_coverage(jsons):
    """how many cases contain each regression-prone shape (own methods of the target; the
    constant-length array is only visible in the generator's description)"""
    keys = ["variadic_named_renamed_import", "map_slice_ptr_generic_sibling_args", "dir_differs_from_package",
            "unnamed_context_not_first", "func_param_multiple_results", "array_constant_length",
            "user_names_equal_generated_everywhere", "same_name_under_three_fields_shallowest_unique",
            "single_embed_field_named_like_embedded_method", "embedded_interface_union_with_shared_method",
            "embedded_interface_union_two_levels_deep"]
    out = {k: 0 for k in keys}
    for j in jsons:
        found = set()
        for m in j["tree"]["own"]:
            found |= method_shapes(m)
        for st in (j.get("desc") or {}).get("structs") or []:
            if st["name"] == j["target"]:
                for m in st.get("methods") or []:
                    found |= {x for x in method_shapes(m) if x == "array_constant_length"}
        if j["emb"] and field_hides_method(j["tree"]):
            found.add("single_embed_field_named_like_embedded_method")
        if j["emb"] and any(e.get("iface") and shared_iface_names(e) for e in j["tree"].get("emb") or []):
            found.add("embedded_interface_union_with_shared_method")
        if j["emb"] and any(not e.get("iface") and shared_iface_names(e) for e in j["tree"].get("emb") or []):
            found.add("embedded_interface_union_two_levels_deep")
        if j["emb"] and same_name_many_fields(j["tree"]):
            found.add("same_name_under_three_fields_shallowest_unique")
        for k in found:
            out[k] += 1
    return out


def add_own_findings(ctx, verif_dir):
    """known_findings.json (the merged file, shared) is rebuilt by the coordinator; entries of our own
    fragment known_findings.d/C19.json that are not in it yet are added to the run's list"""
    p = os.path.join(verif_dir, "known_findings.d", "C19.json")
    if not os.path.isfile(p):
        return
    have = {f.get("id") for f in ctx.findings if f.get("property") == "C19"}
    for f in json.load(open(p)).get("findings", []):
        if f.get("id") not in have:
            ctx.findings.append(f)


def is_known(ctx, feats):
    """would ctx.report file these features under an open known finding? (same rule as vlib)"""
    for f in ctx.findings:
        if f.get("property") != "C19" or f.get("status") != "open":
            continue
        mt = f.get("match", {})
        if mt and all(feats.get(k) == v for k, v in mt.items()):
            return True
    return False


IDENT = re.compile(r"^[^\W\d]\w*$")


def ood_reason(j):
    """why a case is outside the quantifier (python mirror of IFaceJudge.in_domain, for the evidence)"""
    if height(j["tree"]) > 2:
        return "embedding deeper than two levels"
    if not all(basic_ok(m) for m in all_methods(j["tree"])):
        return "type outside the listed constructors"
    names = []
    for s in j.get("specs") or []:
        names.append(s.get("rename") or (j.get("pkg_imports") or {}).get(s["path"]) or s["path"].rsplit("/", 1)[-1])
    if len(set(names)) != len(names) or set(names) & set(j.get("locals") or []) or set(names) & {"_", "."}:
        return "import specs of the file do not bind distinct fresh names"
    return "parameter name that is not an identifier, or other"


KEYWORDS = {"break", "case", "chan", "const", "continue", "default", "defer", "else", "fallthrough", "for", "func", "go",
            "goto", "if", "import", "interface", "map", "package", "range", "return", "select", "struct", "switch", "type", "var"}


def names_from_literals(gencommon_dir, limit=40):
    """parameter names built from the string literals of the naming code under test (params.go, method.go
    and whatever else the package holds): when a tie breaks, the widened farm draws user names from what the
    changed source mentions — a literal `_` gives `_`, `_x`, `x_`, `_0`, `__`; `arg` gives arg, arg0, arg1, argx …"""
    lits = set()
    for name in sorted(os.listdir(gencommon_dir)):
        if not name.endswith(".go") or name.endswith("_test.go"):
            continue
        try:
            src = open(os.path.join(gencommon_dir, name), encoding="utf-8").read()
        except OSError:
            continue
        for m in re.finditer(r'"([A-Za-z0-9_]{1,10})"|`([A-Za-z0-9_]{1,10})`|\'(.)\'', src):
            lits.add(m.group(1) or m.group(2) or m.group(3))
    out = []
    for lit in sorted(lits):
        for cand in (lit, lit + "x", "x" + lit, lit + "0", lit + "1", lit + lit, lit.upper(), lit.capitalize()):
            if re.match(r"^[A-Za-z_][A-Za-z0-9_]*$", cand) and cand != "_" and cand not in KEYWORDS and cand not in out:
                out.append(cand)
    # the shortest first: they are the likeliest prefixes / special cases
    out.sort(key=lambda x: (len(x), x))
    return out[:limit]
