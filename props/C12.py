"""C12 — genum: trait accessors and parse-by-trait agree with the declaration."""
import json

import genum_lib as gl
import vlib

META = {
    "property_id": "C12",
    "level": "proof",
    "technique": "Coq theorems over the trait layer of the executable genum model (extractTraitDescs, per-line instances, processDuplicates, validateParsableTraits, family classification, accessor and Parse switch rows) + generator farm: enum definitions with 1-5 trait columns of every kind of the quantifier, duplicate / cell-less lines, random parsable subsets, run through the real CLI, compiled, accessors / Parse<T>(trait value) / decoding of library-rendered trait values observed and judged inside Coq against specification and model + translator ties: the control skeletons of every function the template emits are regenerated from enumTemplate.gotmpl on each run, shown well-formed by computation (coq/ties/Tie_GEnumSkel.v) and evaluated by the judge ; traits.go kind table and family filters tied semantically (Tie_GEnumTraits.v)",
    "design_ref": "DESIGN.md §4 C12",
    "level_text": "Proof: GEnumProofs.v shows for every generated enum with traits that each accessor returns the cell written on the primary definition line of a defined value and the zero value otherwise, that Parse<T> of a parsable trait constant returns the owning value, and that the JSON/YAML/text decoders do so for every document whose faithful reading is that constant (Props/C12.v, closed under the global context). The model is tied to the current source by the farm (untyped and typed string/integer/bool/rune, time.Duration through a renamed import, locally named string/int types, other generated enums; `_`-prefixed and exported trait names; duplicates with and without trait cells; lines without cells; every kind of parsable subset).",
    "level_note": "Trusted: Coq kernel + vm_compute; go/types (trait types, ExprString), constant evaluation; codec libraries as recorded views; model fidelity checked by correspondence; Go harness. No axioms. Open findings: parsable bool traits have no codec fallback family; two parsable traits with equal cells on one line yield a duplicate case.",
}

CASE_TYPE, JUDGE = "c12_case", "judge_c12"


def features(j):
    f = {"kind": (j.get("kind") or "").split("/")[0], "outcome": j.get("outcome")}
    for s in j.get("shape") or []:
        f[s] = True
    # which observables fail (classified from the differences): an open finding matches only when
    # nothing else fails in the case
    f["failing"] = "+".join(sorted({d["category"] for d in differences(j)})) or "none"
    return f


def primary_of(e):
    groups = {}
    for c in e["consts"]:
        groups.setdefault(int(c["val"]), []).append(c)
    out = {}
    for v, g in groups.items():
        live = sorted((c for c in g if not c["dep"]), key=lambda c: c["name"])
        out[v] = live[0] if live else sorted(g, key=lambda c: c["name"])[0]
    return out


def lowest(e):
    return min(e["consts"], key=lambda c: (int(c["val"]), c["name"]))


def denotes(d, cl):
    if cl["kind"] == "str" and d.get("str") is not None and d["str"] == cl.get("str", ""):
        return True
    if cl["kind"] == "int" and cl.get("int") in (d.get("u64"), d.get("i64")):
        return True
    if cl["kind"] == "bool" and d.get("bool") is not None and bool(d["bool"]) == bool(cl.get("bool")):
        return True
    for n in d.get("native") or []:
        if n.get("ok") and n["ty"] == cl["ty"] and n.get("p"):
            p = n["p"]
            if (p["k"] == "int" and cl["kind"] == "int" and p.get("i") == cl.get("int")) or \
               (p["k"] == "str" and cl["kind"] == "str" and p.get("s", "") == cl.get("str", "")):
                return True
    return False


def differences(j):
    """the observables that depart from the specification, each with a category (mirrors
    GEnumJudge.c12_spec_ok; used for the report and to key findings, never to judge)"""
    e = j["file"]["enums"][j["enum"]]
    o = j["file"]["opts"]
    if j["outcome"] != "built":
        return [{"category": j["outcome"],
                 "expected": "generation and compilation succeed (or a diagnostic for a definition the documented rules reject)",
                 "observed": j["outcome"], "log": (j.get("gen_log") or j.get("build_log") or "")[-600:]}]
    cols = [cl["var"].lstrip("_") if cl["var"].startswith("_") else cl["var"] for cl in (lowest(e).get("cells") or [])]
    cols = [(cl["var"][1:] if cl["var"].startswith("_") else cl["var"]) for cl in (lowest(e).get("cells") or [])]
    colty = {cols[k]: cl for k, cl in enumerate(lowest(e).get("cells") or [])}
    par = set(o.get("parsable") or []) if not o.get("notraits") else set()
    prim = primary_of(e)

    def pcell(col, v):
        c = prim.get(v)
        if c is None or col not in cols:
            return None
        k = cols.index(col)
        cells = c.get("cells") or []
        return cells[k] if k < len(cells) else None

    def pcells(c):
        return [cl for k, cl in enumerate(c.get("cells") or []) if k < len(cols) and cols[k] in par]

    names = {c["name"]: int(c["val"]) for c in e["consts"]}
    lnames = {c["name"].lower() for c in e["consts"]}
    out = []
    zero = {"str": {"k": "str"}, "int": {"k": "int", "i": "0"}, "bool": {"k": "bool"}}
    for a in j["obs"].get("acc") or []:
        for ev, p in zip(a["e"], a["p"]):
            cl = pcell(a["col"], int(ev))
            if cl is None:
                exp = zero[colty[a["col"]]["kind"]] if a["col"] in colty else None
            else:
                exp = {"k": cl["kind"]}
                if cl["kind"] == "str" and cl.get("str"):
                    exp["s"] = cl["str"]
                if cl["kind"] == "int":
                    exp["i"] = cl["int"]
                if cl["kind"] == "bool" and cl.get("bool"):
                    exp["b"] = True
            if exp is not None and p != exp:
                out.append({"category": "accessor", "observable": "%s() of %s" % (a["col"], ev), "expected": exp, "observed": p})
    for t in j["obs"].get("tparse") or []:
        if pcell(t["col"], int(t["e"])) is not None and t["res"] != "ok:" + t["e"]:
            out.append({"category": "parse_by_trait", "observable": "Parse(%s() of %s)" % (t["col"], t["e"]),
                        "input": t["in"], "expected": "ok:" + t["e"], "observed": t["res"]})
    for d in j["obs"].get("docs") or []:
        fr = d.get("from") or ""
        if not d.get("called"):
            continue
        if fr.startswith("value:") and d["res"] != "ok:" + fr[6:]:
            out.append({"category": "round_trip", "observable": "%s round trip" % d["codec"], "document": d["doc"],
                        "expected": "ok:" + fr[6:], "observed": d["res"]})
        if fr.startswith("trait:"):
            col, v = fr[6:].rsplit(":", 1)
            cl = pcell(col, int(v))
            if cl is None or d["res"] == "ok:" + v:
                continue
            owners = {int(c["val"]) for c in e["consts"] if any(denotes(d, x) for x in pcells(c))}
            s = d.get("str")
            named = s is not None and (s in names or (o["ci"] and s.lower() in lnames))
            if named or any(w != int(v) for w in owners):
                if d["res"] == "panic":
                    out.append({"category": "panic", "document": d["doc"]})
                continue
            cat = "trait_decode"
            if cl["kind"] == "bool":
                cat = "bool_trait_decode"
            elif cl["ty"] == "time.Duration" and d["codec"] == "yaml":
                cat = "yaml_duration_trait_decode"
            out.append({"category": cat, "observable": "%s decode of trait %s of value %s" % (d["codec"], col, v),
                        "document": d["doc"], "expected": "ok:" + v, "observed": d["res"]})
    return out


def explain(j):
    ds = differences(j)
    return ds[:10] + ([{"note": "%d further differences" % (len(ds) - 10)}] if len(ds) > 10 else [])


def run(ctx):
    ctx.trusted = gl.TRUSTED_COMMON + [
        "go/types trait type classification enters as the oracle d_types (basic kind of the underlying type, own-unmarshaler bits), types.ExprString as cl_expr",
        "encoding/json, yaml.v3, strconv as per-document views"]
    ctx.assumptions = [
        "trait names are given on the line of the lowest value; every trait cell is a constant of the column's type (untyped columns: untyped cells)",
        "parsable trait values are pairwise distinct per column; definitions the generator rejects with a diagnostic (value shared by two parsable traits of different values, inconsistent cell counts) generate nothing and satisfy the property vacuously",
        "trait strings are not spelled like constant names; documents whose readings match parsable traits of two different values (YAML 12 vs \"12\") carry no obligation (C12_unambiguous_def gives the definition-level criterion)",
        "trait types that are enums generated by the same invocation are generated in a separate file first (the farm's AuxA/AuxB); YAML null never reaches the decoder (see C05); floating-point trait types are outside the modelled space; int/uint are 64 bits",
    ]
    ctx.obligations_or_violation()
    if not gl.build_judge(ctx):
        return
    gl.use_skeletons(ctx)
    quick = ctx.tier == "quick"
    terms, jsons, err = gl.run_batches(ctx, "c12", 20, 8, 75)
    if err:
        ctx.report({"unchecked": "generator farm run against the current tree", "detail": err},
                   {"kind": "harness"}, failing_input=False)
        return
    bad, nt, err = ctx.judge_cases(gl.header_of(ctx), CASE_TYPE, gl.judge_of(ctx, JUDGE), terms, shard=6 if quick else 20,
                                   nontrivial="c12_nontrivial")
    if err:
        ctx.report({"unchecked": "in-kernel evaluation of the correspondence", "detail": err},
                   {"kind": "coq_eval"}, failing_input=False)
        return
    bad = gl.split_codes(ctx, jsons, bad)
    gl.report_all(ctx, "c12", CASE_TYPE, JUDGE, jsons, bad, features, explain, widen_n=30, shard=6, maxlist=12)
    docs = [d for j in jsons for d in (j["obs"].get("docs") or [])]
    skipped = [j for j in jsons if j["outcome"] == "compile_error" and not j["file"]["opts"]["yaml"]]
    ctx.cov.update({
        "evaluations": len(jsons),
        "definition_files": len({(j["pkg"], hash(j["file"].get("source"))) for j in jsons}),
        "accessor_results_compared": sum(len(a["e"]) for j in jsons for a in (j["obs"].get("acc") or [])),
        "parse_by_trait_calls": sum(len(j["obs"].get("tparse") or []) for j in jsons),
        "trait_documents_decoded": sum(1 for d in docs if (d.get("from") or "").startswith("trait:")),
        "documents_by_codec": gl.hist(d["codec"] for d in docs),
        "distinct_nontrivial": vlib.distinct_count([[j["file"]["enums"][j["enum"]]["consts"], j["file"]["opts"]]
                                                    for j in jsons if nontrivial(j)]),
        "nontrivial_in_coq": nt,
        "rule": "case = one enum type with trait columns generated under one option combination; non-trivial = it has "
                "trait columns and (a parsable trait or a duplicated value); distinct by (constants, options)",
        "exhaustive": False,
        "by_kind": gl.hist(j["kind"] for j in jsons),
        "by_outcome": gl.hist(j["outcome"] for j in jsons),
        "skipped_yaml_false_builds": len(skipped),
        "columns_histogram": gl.hist(len((j["obs"].get("acc") or [])) for j in jsons),
        "shape_histogram": gl.hist(s for j in jsons for s in (j.get("shape") or [])),
        "samples": [gl.slim(j, maxlist=5) for j in jsons[:1] + jsons[6:7]],
        "disagreements": len(bad),
    })
    ctx.log("correspondence: %d enums from %d files, %d accessor results, %d parse-by-trait calls, %d documents, %d disagreement(s)" % (
        len(jsons), ctx.cov["definition_files"], ctx.cov["accessor_results_compared"],
        ctx.cov["parse_by_trait_calls"], len(docs), len(bad)))


def nontrivial(j):
    e = j["file"]["enums"][j["enum"]]
    has_cols = any(c.get("cells") for c in e["consts"])
    par = bool(j["file"]["opts"].get("parsable"))
    dup = len({c["val"] for c in e["consts"]}) != len(e["consts"])
    return has_cols and (par or dup)


def replay(ctx, path):
    return gl.replay_file(ctx, path, "c12", CASE_TYPE, JUDGE, lambda j: json.dumps(explain(j), indent=1))
