"""C12 — genum: trait accessors and parse-by-trait agree with the declaration."""
import json

import genum_lib as gl
import vlib

META = {
    "property_id": "C12",
    "level": "proof",
    "technique": "Coq theorems over the trait layer of the executable genum model (extractTraitDescs, per-line instances, processDuplicates, validateParsableTraits, family classification, accessor and Parse switch rows) + generator farm: enum definitions with 1-5 trait columns of every kind of the quantifier, duplicate / cell-less lines, random parsable subsets, run through the real CLI, compiled, accessors / Parse<T>(trait value) / decoding of library-rendered trait values observed and judged inside Coq against specification and model",
    "design_ref": "DESIGN.md §4 C12",
    "level_text": "Proof: GEnumProofs.v shows for every generated enum with traits that each accessor returns the cell written on the primary definition line of a defined value and the zero value otherwise, that Parse<T> of a parsable trait constant returns the owning value, and that the JSON/YAML/text decoders do so for every document whose faithful reading is that constant (Props/C12.v, closed under the global context). The model is tied to the current source by the farm (untyped and typed string/integer/bool/rune, time.Duration through a renamed import, locally named string/int types, other generated enums; `_`-prefixed and exported trait names; duplicates with and without trait cells; lines without cells; every kind of parsable subset).",
    "level_note": "Trusted: Coq kernel + vm_compute; go/types (trait types, ExprString), constant evaluation; codec libraries as recorded views; model fidelity checked by correspondence; Go harness. No axioms. Open findings: parsable bool traits have no codec fallback family; two parsable traits with equal cells on one line yield a duplicate case.",
}

CASE_TYPE, JUDGE = "c12_case", "judge_c12"


def features(j):
    f = {"kind": (j.get("kind") or "").split("/")[0], "outcome": j.get("outcome")}
    for s in j.get("shape") or []:
        f[s] = True
    return f


def explain(j):
    e = j["file"]["enums"][j["enum"]]
    if j["outcome"] != "built":
        return {"expected": "generation and compilation succeed (or a diagnostic for a definition the documented rules reject)",
                "observed": j["outcome"], "log": (j.get("gen_log") or j.get("build_log") or "")[-600:]}
    out = []
    for t in j["obs"].get("tparse") or []:
        if t["res"] != "ok:" + t["e"]:
            out.append({"observable": "Parse(%s() of %s)" % (t["col"], t["e"]), "input": t["in"],
                        "expected": "ok:" + t["e"] + " when the primary line of the value carries the trait",
                        "observed": t["res"]})
    for d in j["obs"].get("docs") or []:
        fr = d.get("from") or ""
        if d.get("called") and fr.startswith("trait:"):
            col, v = fr[6:].rsplit(":", 1)
            if d["res"] != "ok:" + v:
                out.append({"observable": "%s decode of trait %s of value %s" % (d["codec"], col, v),
                            "document": d["doc"], "expected": "ok:" + v, "observed": d["res"]})
        if d.get("called") and fr.startswith("value:") and d["res"] != "ok:" + fr[6:]:
            out.append({"observable": "%s round trip" % d["codec"], "document": d["doc"],
                        "expected": "ok:" + fr[6:], "observed": d["res"]})
    return out[:8] + ([{"note": "accessor tables: see case.observed.acc"}] if not out else [])


def run(ctx):
    ctx.trusted = gl.TRUSTED_COMMON + [
        "go/types trait type classification enters as the oracle d_types (basic kind of the underlying type, own-unmarshaler bits), types.ExprString as cl_expr",
        "encoding/json, yaml.v3, strconv as per-document views"]
    ctx.assumptions = [
        "trait names are given on the line of the lowest value; every trait cell is a constant of the column's type (untyped columns: untyped cells)",
        "parsable trait values are pairwise distinct per column; definitions the generator rejects with a diagnostic (value shared by two parsable traits of different values, inconsistent cell counts) generate nothing and satisfy the property vacuously",
        "trait strings are not spelled like constant names; documents whose readings match parsable traits of two different values (YAML 12 vs \"12\") carry no obligation",
    ]
    ctx.obligations_or_violation()
    quick = ctx.tier == "quick"
    terms, jsons, err = gl.run_farm(ctx, "c12", n=28 if quick else 700, corpus=True)
    if err:
        ctx.report({"unchecked": "generator farm run against the current tree", "detail": err},
                   {"kind": "harness"}, failing_input=False)
        return
    bad, nt, err = ctx.judge_cases(gl.HEADER, CASE_TYPE, JUDGE, terms, shard=6 if quick else 20,
                                   nontrivial="c12_nontrivial")
    if err:
        ctx.report({"unchecked": "in-kernel evaluation of the correspondence", "detail": err},
                   {"kind": "coq_eval"}, failing_input=False)
        return
    for i, code in bad:
        j = jsons[i]
        if ctx.nreplay < 2 and not gl.known(ctx, features(j)):
            j = gl.minimise(ctx, "c12", CASE_TYPE, JUDGE, j, code)
        rep = {"case": gl.slim(j, maxlist=12),
               "definition_file": gl.single_enum_file(j) if "/minimised" not in j["kind"] else j["file"],
               "differences": explain(j),
               "verdict": {1: "observed behaviour violates the C12 specification (failing input)",
                           2: "observed behaviour satisfies the specification but differs from the Coq model"}[code],
               "replay_cmd": "./check C12 --replay <this file>"}
        ctx.report(rep, features(j), failing_input=(code == 1))
    docs = [d for j in jsons for d in (j["obs"].get("docs") or [])]
    skipped = [j for j in jsons if j["outcome"] == "compile_error" and not j["file"]["opts"]["yaml"]]
    ctx.cov.update({
        "evaluations": len(jsons),
        "definition_files": len({j["pkg"] for j in jsons}),
        "accessor_results_compared": sum(len(a["e"]) for j in jsons for a in (j["obs"].get("acc") or [])),
        "parse_by_trait_calls": sum(len(j["obs"].get("tparse") or []) for j in jsons),
        "trait_documents_decoded": sum(1 for d in docs if (d.get("from") or "").startswith("trait:")),
        "documents_by_codec": gl.hist(d["codec"] for d in docs),
        "distinct_nontrivial": vlib.distinct_count([[j["file"]["enums"][j["enum"]]["consts"], j["file"]["opts"]]
                                                    for j in jsons if nontrivial(j)]),
        "nontrivial_in_coq": nt,
        "rule": "case = one enum type with trait columns generated under one option combination; non-trivial = it has "
                "trait columns and (a parsable trait or a duplicated value); distinct by (constants, options)",
        "exhaustive": False,
        "by_kind": gl.hist(j["kind"] for j in jsons),
        "by_outcome": gl.hist(j["outcome"] for j in jsons),
        "skipped_yaml_false_builds": len(skipped),
        "columns_histogram": gl.hist(len((j["obs"].get("acc") or [])) for j in jsons),
        "shape_histogram": gl.hist(s for j in jsons for s in (j.get("shape") or [])),
        "samples": [gl.slim(j, maxlist=5) for j in jsons[:1] + jsons[6:7]],
        "disagreements": len(bad),
    })
    ctx.log("correspondence: %d enums from %d files, %d accessor results, %d parse-by-trait calls, %d documents, %d disagreement(s)" % (
        len(jsons), ctx.cov["definition_files"], ctx.cov["accessor_results_compared"],
        ctx.cov["parse_by_trait_calls"], len(docs), len(bad)))


def nontrivial(j):
    e = j["file"]["enums"][j["enum"]]
    has_cols = any(c.get("cells") for c in e["consts"])
    par = bool(j["file"]["opts"].get("parsable"))
    dup = len({c["val"] for c in e["consts"]}) != len(e["consts"])
    return has_cols and (par or dup)


def replay(ctx, path):
    return gl.replay_file(ctx, path, "c12", CASE_TYPE, JUDGE, lambda j: json.dumps(explain(j), indent=1))
