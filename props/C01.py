"""C01 — gsync: a Wait channel is never released while the count stayed above zero."""
import wg_lib

META = {
    "property_id": "C01",
    "level": "proof",
    "technique": "Coq: inductive invariant over all schedules of an interleaving machine of SelectableWaitGroup (any number of goroutines, any programs), executable trace monitor c01_ok; tied to the source by an IR term regenerated from the source (eq_refl) whose Coq denotation is proved to be the machine and by deterministic schedule replay on the instrumented real code judged in-kernel by the same monitor",
    "design_ref": "DESIGN.md §4 C01",
    "level_text": "Proof: WGProofs.v shows by an inductive invariant over the schedule that for every number of goroutines, every client program and every schedule the trace of the machine modelling Add/Wait (one micro-step per atomic load / compare-and-swap / close) satisfies the monitor c01_ok: a channel returned by Wait is closed only if the conservative lower bound of the count was <= 0 at some position since the Wait call; WGSpecProofs.v shows that on every well-formed trace (checked executably on each recorded trace, proved for machine traces) c01_ok is exactly that sentence stated over positions (c01_spec) (Props/C01.v; closed under the global context). The machine is tied to the current source by (T) the IR term regenerated from gsync/selectable_wait_group.go = the hand copy (eq_refl), whose small-step denotation (Base/ConcIR.v) is proved to have the same memory and trace as the machine for every program and schedule (WGDenote.v) and (C) replay of enumerated and random schedules on the real code under a baton-passing scheduler: every recorded trace is judged by c01_ok inside Coq and compared step by step with the machine's trace.",
    "level_note": "Trusted: Coq kernel + vm_compute; interleaving semantics with sequentially consistent atomics; the instrumenter/translator xlate_conc, the vsched scheduler and the harness; the free-running Go scheduler is only exercised by a -race stress run (partial). No axioms.",
}


def run(ctx):
    wg_lib.run_check(ctx, "C01")


def replay(ctx, path):
    return wg_lib.replay(ctx, "C01", path)
