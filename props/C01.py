"""C01 — gsync: a Wait channel is never released while the count stayed above zero."""
import wg_lib

META = {
    "property_id": "C01",
    "level": "proof",
    "technique": "Coq: inductive invariant over all schedules of an interleaving machine of SelectableWaitGroup (any number of goroutines, any programs), executable trace monitors (conservative lower bound c01_ok = c01_spec on well-formed traces; real count c01z_ok); tied to the source by a SIMULATION CHECK-LIST proved on every run for the IR regenerated from the source (helpers, loop forms, locals as written), which makes the machine the denotation of that IR, and by deterministic schedule replay - enumerated, random and adversarially directed (starved compare-and-swap, ABA) - on the instrumented real code judged in-kernel by the same monitor",
    "design_ref": "DESIGN.md §4 C01",
    "level_text": "Proof: for every number of goroutines, every client program and every schedule the trace of the machine modelling Add/Wait (one micro-step per atomic load / compare-and-swap / close) satisfies (a) C01: a channel returned by Wait is closed only if the conservative lower bound of the count (returned increments + called decrements) was <= 0 at some position since the Wait call - the reading the property's quantifier prescribes; c01_ok is exactly that sentence over positions on every well-formed trace (WGSpecProofs) - and (b) C01_count_zero: the same with the REAL count: some position between the start of the Wait and the observation shows Count() = 0 (WGCountZero.v). Inductive invariants WGInv.v / WGCountZero.InvZ; Props/C01.v, closed under the global context. Tie (T): harness/cmd/xlate_conc re-states Add/Wait/Count and every helper they call in the IR of Base/ConcIR2.v; WGSim.wg_sim_ok - a finite check-list about single micro-steps of the IR's denotation with symbolic inputs - is PROVED for the regenerated term on every run (tactic wg_sim_tac), and WGSim.wg_sim turns it into: same memory and same trace as the machine for every program and schedule; so C01 is a theorem about what the source says now, and renames, helper extraction, loop-form changes, guard clauses, constant extraction do not break the tie while any change of the shared-memory behaviour does. Tie (C): replay of enumerated, random and directed schedules on the real code under a baton-passing scheduler, every recorded trace judged by c01_ok inside Coq and compared step by step (events, return values, Count(), closed channels, canonical sites) with the machine's trace.",
    "level_note": "Trusted: Coq kernel + vm_compute; interleaving semantics with sequentially consistent atomics; the translator/instrumenter xlate_conc, the denotation of its IR (Base/ConcIR2.v) and the memory interface wg_mem, the vsched scheduler and the harness. Domain restriction: counts are mathematical integers (no int overflow). The free-running Go scheduler is only exercised by a -race stress run (partial). No axioms.",
}


def run(ctx):
    wg_lib.run_check(ctx, "C01")


def replay(ctx, path):
    return wg_lib.replay(ctx, "C01", path)
