"""gconf_lib — shared by the gconfig checks C03, C16, C10: refresh of the dimension-enum
fixtures from the current tree, harness building, tree utilities and the delta-debugging
minimiser that replays candidate inputs on the real library."""
import json
import os
import re

import vlib

HEADER = ("From Coq Require Import List String Ascii.\nImport ListNotations.\n"
          "From GT Require Import Base.Verdict GConfModel GConfJudge.\n"
          "Local Open Scope string_scope.\n")


def prepare(ctx):
    """harness module in the scratch dir; the dimension enums used by the harness are the
    generated ones of gconfig/internal of the *current* tree (package renamed)."""
    h = ctx.harness_module()
    src = os.path.join(ctx.copy_repo(), "gconfig", "internal")
    dst = os.path.join(h, "cmd", "c03", "gcdims")
    if os.path.isdir(src):
        for n in ("dimensions.go", "dimensions.genum.go"):
            p = os.path.join(src, n)
            if os.path.isfile(p):
                txt = open(p).read()
                txt = re.sub(r"(?m)^package\s+\w+", "package gcdims", txt, count=1)
                with open(os.path.join(dst, n), "w") as f:
                    f.write(txt)
    return h


# theory files the tie files of coq/ties need compiled (they are not in the cone of Props/Cxx.v)
TIE_THEORIES = {"c03": ["GConfGenProofs", "GConfLoopProofs", "GConfLoadModel", "GConfTieTactics"],
                "c16": ["GConfGenProofs", "GConfLoopProofs", "GConfLoadModel", "GConfTieTactics", "TmplGenPrims", "TmplReProofs",
                        "TmplProofs"],
                "c10": ["GConfCacheGenPrims", "GConfConvModel", "GConfGenProofs", "GConfLoopProofs", "GConfTieTactics"]}


def build(ctx, cmd, race=False, judge="GConfJudge"):
    ok, log = ctx.coq_build(["theories/%s.vo" % t for t in [judge] + TIE_THEORIES.get(cmd, [])])
    if not ok:
        ctx.report({"unchecked": "build of the judgement file %s.v" % judge, "detail": log[-3000:]},
                   {"kind": "coq_build"}, failing_input=False)
        return None
    prepare(ctx)
    binp, log = ctx.build_harness(cmd, race=race)
    if not binp:
        ctx.report({"unchecked": "harness build of cmd/%s against the current tree" % cmd,
                    "detail": log[-3000:]}, {"kind": "build"}, failing_input=False)
    return binp


# ---------------------------------------------------------------- trees (JSON form of gcx.Tree)
def tsize(t):
    return 1 + sum(tsize(c) for c in t.get("l", [])) + sum(tsize(e["v"]) for e in t.get("m", []))


def tdepth(t):
    ch = [tdepth(c) for c in t.get("l", [])] + [tdepth(e["v"]) for e in t.get("m", [])]
    return 1 + (max(ch) if ch else 0)


def has_empty_map(t):
    if t["t"] == "m" and not t.get("m"):
        return True
    return any(has_empty_map(c) for c in t.get("l", [])) or any(has_empty_map(e["v"]) for e in t.get("m", []))


def shrink_candidates(t, root=True):
    """all trees obtained from t by one shrinking step (remove a map entry / list item, hoist
    a child into its parent's place, cut a subtree to a scalar); the root stays a map"""
    out = []
    if t["t"] == "m":
        es = t.get("m", [])
        for i in range(len(es)):
            out.append({"t": "m", "m": es[:i] + es[i + 1:]})
        for i, e in enumerate(es):
            if not root or e["v"]["t"] == "m":
                out.append(e["v"])
            for c in shrink_candidates(e["v"], False):
                out.append({"t": "m", "m": es[:i] + [{"k": e["k"], "v": c}] + es[i + 1:]})
    elif t["t"] == "x":
        # a map with a non-string key (entries keyed by canonical key text): keep one such key
        es = t.get("m", [])
        nonstr = lambda l: any(not e["k"].startswith("s:") for e in l)
        for i in range(len(es)):
            rest = es[:i] + es[i + 1:]
            if rest and nonstr(rest):
                out.append({"t": "x", "m": rest})
        for i, e in enumerate(es):
            if not root:
                out.append(e["v"])
            for c in shrink_candidates(e["v"], False):
                out.append({"t": "x", "m": es[:i] + [{"k": e["k"], "v": c}] + es[i + 1:]})
    elif t["t"] == "l":
        ls = t.get("l", [])
        for i in range(len(ls)):
            out.append({"t": "l", "l": ls[:i] + ls[i + 1:]})
        for i, c0 in enumerate(ls):
            out.append(c0)
            for c in shrink_candidates(c0, False):
                out.append({"t": "l", "l": ls[:i] + [c] + ls[i + 1:]})
    if not root and t["t"] in ("m", "l", "x"):
        out.append({"t": "s", "v": "x"})
    if not root and t["t"] in ("s", "a") and t.get("v") != "x":
        out.append({"t": "s", "v": "x"})
    return out


def replay_inputs(ctx, binp, inputs, tag, extra_args=()):
    """run the harness in replay mode over a list of input dicts; returns (terms, jsons, err)"""
    path = os.path.join(ctx.scratch, "replay_%s.jsonl" % tag)
    with open(path, "w") as f:
        for i in inputs:
            f.write(json.dumps(i) + "\n")
    return vlib.harness_cases(ctx, binp, [(tag, ["-mode", "replay", "-in", path] + list(extra_args))])


def minimise(ctx, binp, header, case_type, judge, inp, code, variants, size, rounds=12, cap=120,
             tag="min", keep=None, budget_s=30.0, replay_args=()):
    """greedy delta debugging: `variants(inp)` lists one-step smaller inputs; each round replays
    them (smallest first, in chunks of `cap`) on the real library, judges them in Coq and moves to
    the smallest one that still has the same code (and satisfies `keep`).  Stops when no variant
    fails, after `rounds` rounds or `budget_s` seconds.  Returns (input, json case of the minimum
    reached or None if no smaller failing input was found)."""
    import time
    t0 = time.time()
    best, best_case = inp, None
    n = 0
    for rnd in range(rounds):
        cands = variants(best)
        cands.sort(key=size)
        moved = False
        for off in range(0, min(len(cands), 4 * cap), cap):
            if time.time() - t0 > budget_s:
                return best, best_case
            chunk = cands[off:off + cap]
            n += 1
            terms, jsons, err = replay_inputs(ctx, binp, chunk, "%s%d" % (tag, n), extra_args=replay_args)
            if err or len(terms) != len(chunk):
                return best, best_case
            bad, _, err = ctx.judge_cases(header, case_type, judge, terms, shard=30, tag="%s%d" % (tag, n))
            if err:
                return best, best_case
            hit = [i for i, c in bad if c == code and (keep is None or keep(jsons[i]))]
            if hit:
                k = min(hit, key=lambda i: size(chunk[i]))
                best, best_case = chunk[k], jsons[k]
                moved = True
                break
        if not moved:
            break
    return best, best_case


def hist(it):
    h = {}
    for x in it:
        h[x] = h.get(x, 0) + 1
    return {str(k): h[k] for k in sorted(h, key=str)}


def spread(bad, key):
    """reorder (index, code) pairs so that the first of every distinct key() come first"""
    seen, first, rest = set(), [], []
    for b in bad:
        k = key(b)
        if k in seen:
            rest.append(b)
        else:
            seen.add(k)
            first.append(b)
    return first + rest


def corpus_inputs(pid):
    """inputs stored under corpus/<pid>/*.json (minimised past disagreements), sorted by name"""
    d = os.path.join(vlib.VERIF, "corpus", pid)
    out = []
    if os.path.isdir(d):
        for n in sorted(os.listdir(d)):
            if n.endswith(".json"):
                out.append(json.load(open(os.path.join(d, n))))
    return out


def corpus_run(ctx, pid):
    """a harness run entry replaying corpus/<pid> (None when the directory is empty)"""
    inputs = corpus_inputs(pid)
    if not inputs:
        return None
    path = os.path.join(ctx.scratch, "corpus_%s.jsonl" % pid)
    with open(path, "w") as f:
        for i in inputs:
            f.write(json.dumps(i) + "\n")
    return ("corpusfiles", ["-mode", "replay", "-in", path])


# ---------------------------------------------------------------- report ordering
def harness_cases_seed(ctx, binpath, runs, seed, tagsuffix="", timeout=1800, crashes=None):
    """vlib.harness_cases with an explicit seed (for the widened run).  A run (mode) whose process
    dies — e.g. the Go runtime's `fatal error: concurrent map read and map write`, which no recover
    can catch — does not stop the others when `crashes` (a list) is given: it is recorded there as
    (tag, text) and the cases of the remaining runs are still judged."""
    terms, jsons = [], []
    for tag, args in runs:
        prefix = os.path.join(ctx.scratch, "cases_%s%s" % (tag, tagsuffix))
        rc, out = vlib.sh([binpath, "-seed", str(seed), "-out", prefix] + [str(a) for a in args], timeout=timeout)
        if rc != 0:
            msg = "harness %s failed (rc %d):\n%s" % (tag, rc, out[-3000:])
            if crashes is None:
                return terms, jsons, msg
            first = [l for l in out.splitlines() if l.startswith(("fatal error", "panic:"))]
            crashes.append((tag, (first[0] + "\n" if first else "") + msg))
            continue
        t = open(prefix + ".cases").read().splitlines()
        j = [json.loads(l) for l in open(prefix + ".jsonl").read().splitlines()]
        if len(t) != len(j):
            return terms, jsons, "harness %s wrote %d terms but %d json cases" % (tag, len(t), len(j))
        terms += t
        jsons += j
    return terms, jsons, None


def is_known(ctx, features):
    """does an open known finding of this property match the features?  (such cases are listed as
    KNOWN-FINDING by ctx.report; minimising them first would only cost time)"""
    for f in getattr(ctx, "findings", []):
        mt = f.get("match", {})
        if f.get("property") == ctx.pid and f.get("status") == "open" and mt and all(features.get(k) == v for k, v in mt.items()):
            return True
    return False


class Deferred:
    """Things that broke without a concrete failing input at hand (proof obligation, translator tie,
    verdict-2 cases).  They are reported — with `no-failing-input-found` — only when the run,
    widened if necessary, finds no verdict-1 case; otherwise the verdict-1 cases get the replay
    slots and what else broke is recorded in their replay files and in the evidence."""

    def __init__(self, ctx):
        self.ctx = ctx
        self.items = []

    def add(self, replay, features):
        self.items.append((replay, features))

    def obligations(self):
        ok, detail = self.ctx.proof_obligations()
        self.ctx.log("proof obligations:", "OK" if ok else "BROKEN", "-", detail.splitlines()[0])
        if not ok:
            self.add({"unchecked": "theorem file Props/%s.v" % self.ctx.pid, "detail": detail},
                     {"kind": "proof_obligation"})
        return ok

    def names(self):
        return [r.get("unchecked", "?") for r, _ in self.items]


def correspondence(ctx, d, binp, spec):
    """Run, judge and report.  spec: header, case_type, judge, nontrivial, runs, widen (factor ->
    runs), shard, classify (json, code) -> 'fail' | 'model' | 'oracle' | 'info', shape, features,
    view, to_input, variants, size, verdict (code -> text), minimise (bool fn of json), min_kw.
    Order of reports: verdict-1 cases first (they get the replay slots, minimised); deferred
    items and verdict-2/oracle cases only if no verdict-1 case exists after a widened run.
    Returns (terms, jsons, bad, nontrivial_count, info_count, widened) or None on a harness error."""
    def run_and_judge(runs, seed, suffix):
        crashes = []
        terms, jsons, err = harness_cases_seed(ctx, binp, runs, seed, suffix, crashes=crashes)
        for tag, text in crashes:
            # the process of one mode died: reported (after the failing inputs of the other modes, if any)
            ctx.log("harness mode %s died: %s" % (tag, text.splitlines()[0][:200]))
            d.add({"unchecked": "harness run of mode %s: the process died (%s)" % (tag, text.splitlines()[0][:200]),
                   "detail": text}, {"kind": "harness_crash"})
        if err:
            ctx.report({"unchecked": "harness run", "detail": err}, {"kind": "harness"}, failing_input=False)
            return None
        bad, nt, err = ctx.judge_cases(spec["header"], spec["case_type"], spec["judge"], terms,
                                       shard=spec["shard"], nontrivial=spec.get("nontrivial"),
                                       tag="cases" + suffix)
        if err:
            ctx.report({"unchecked": "in-kernel evaluation of the correspondence", "detail": err},
                       {"kind": "coq_eval"}, failing_input=False)
            return None
        return terms, jsons, bad, nt

    r = run_and_judge(spec["runs"], ctx.seed, "")
    if r is None:
        return None
    terms, jsons, bad, nt = r
    ctx.log("harness ran: %d cases" % len(jsons))
    cls = lambda js, b: spec["classify"](js[b[0]], b[1])
    fails = [(jsons, b) for b in bad if cls(jsons, b) == "fail"]
    soft = [(jsons, b) for b in bad if cls(jsons, b) in ("model", "oracle")]
    info = len([b for b in bad if cls(jsons, b) == "info"])
    widened = None
    if not fails and (d.items or soft) and spec.get("widen"):
        # something broke without a failing input: look harder before saying so
        ctx.log("no failing input yet for: %s — widened run" % "; ".join(d.names() + ["%d verdict-2 case(s)" % len(soft)] * bool(soft)))
        # quick: four times as many generated cases; thorough: as many again, another seed
        w = run_and_judge(spec["widen"](4 if ctx.tier == "quick" else 1), ctx.seed + 7919, "_wide")
        if w is not None:
            wterms, wjsons, wbad, wnt = w
            widened = {"cases": len(wjsons), "seed": ctx.seed + 7919,
                       "verdict_1": len([b for b in wbad if cls(wjsons, b) == "fail"])}
            fails = [(wjsons, b) for b in wbad if cls(wjsons, b) == "fail"]
            soft += [(wjsons, b) for b in wbad if cls(wjsons, b) in ("model", "oracle")]
    ctx.cov["widened_run"] = widened
    shape = spec["shape"]
    fails = spread(fails, lambda fb: shape(fb[0][fb[1][0]]))
    also = d.names()
    for js, (i, code) in fails:
        j = js[i]
        if ctx.nreplay < 3 and spec["minimise"](j) and not is_known(ctx, spec["features"](j)):
            sh = shape(j)
            _, mj = minimise(ctx, binp, spec["header"], spec["case_type"], spec["judge"], spec["to_input"](j),
                             code, spec["variants"], spec["size"], keep=lambda c: shape(c) == sh,
                             **spec.get("min_kw", {}))
            ctx.log("minimisation of a %s case: size %s -> %s" % (
                sh, spec["size"](spec["to_input"](j)),
                spec["size"](spec["to_input"](mj)) if mj is not None else "no smaller failing input found"))
            if mj is not None:
                mj["kind"] = j["kind"] + "/minimised"
                j = mj
        rep = {"case": spec["view"](j), "input": spec["to_input"](j), "verdict": spec["verdict"](code),
               "replay_cmd": "./check %s --replay <this file>" % ctx.pid}
        if also:
            rep["also_broken_in_this_run"] = also
        ctx.report(rep, spec["features"](j), failing_input=True)
    if fails:
        if also or soft:
            ctx.cov["not_reported_separately"] = {"unchecked": also, "verdict_2_or_oracle_cases": len(soft)}
    else:
        for replay, feats in d.items:
            ctx.report(replay, feats, failing_input=False)
        for js, (i, code) in soft[:3]:
            j = js[i]
            kind = cls(js, (i, code))
            ctx.report({"case": spec["view"](j), "input": spec["to_input"](j),
                        "unchecked": "correspondence model = implementation" if kind == "model" else
                                     "generator's by-construction expectation = specification",
                        "verdict": spec["verdict"](code)},
                       dict(spec["features"](j), kind=kind), failing_input=False)
        for _ in soft[3:]:
            ctx.violations.append("(not written)")
    return terms, jsons, bad, nt, info, widened


def count_domain(ctx, header, case_type, terms, jsons, shard, floor=0.9):
    """How many cases does the judge put inside the property's quantifier?  (The domain predicate is
    a predicate on the input only: GConfJudge.in_domain.)  Cases generated as in-domain (every kind
    but `ood`) that the judge puts outside would be scored without gating, so their share must stay
    under 1 - floor; otherwise the run is reported (no failing input: the generator or the domain
    predicate drifted)."""
    out, _, err = ctx.judge_cases(header, case_type, "c03_out_of_domain", terms, shard=shard, tag="domain")
    if err:
        ctx.cov["in_domain"] = {"error": err[-300:]}
        return
    outside = {i for i, _ in out}
    gen_in = [i for i, j in enumerate(jsons) if j["kind"].split("/")[0] != "ood"]
    lost = [i for i in gen_in if i in outside]
    ctx.cov["in_domain"] = {
        "judged_inside_the_quantifier": len(jsons) - len(outside),
        "judged_outside (compared with the model only, never gating)": len(outside),
        "generated_as_in_domain": len(gen_in),
        "generated_as_in_domain_but_judged_outside": len(lost),
        "floor": floor,
        "predicate": "GConfJudge.in_domain: dimension values parse (default/env/flag), wfb (= WF, decided) holds of the document, root is a map",
    }
    if gen_in and len(gen_in) - len(lost) < floor * len(gen_in):
        ctx.report({"unchecked": "coverage floor: %d of %d cases generated inside the quantifier were judged outside it"
                                 % (len(lost), len(gen_in)),
                    "samples": [jsons[i].get("yaml", "")[:300] for i in lost[:3]]},
                   {"kind": "coverage"}, failing_input=False)
