"""C16 — gconfig: env templates resolve exactly and only on selected branches."""
import json
import os

import gconf_lib as gl
import vlib

META = {
    "property_id": "C16",
    "level": "proof",
    "technique": "Coq theorems over a hand-written recogniser of the env-template pattern (accepts exactly the documented grammar, rejects every string that is not template-shaped), the three-way resolution, and its composition with the dimension resolution of C03 + two translator ties (the pattern literal read with regexp/syntax = the regular expression whose language is proved to be the matcher's; MatchAndResolve and parseTemplatedElements regenerated as Gallina = the three-way resolution and the template pass subst) + in-kernel correspondence with the real gconfig on generated templates/near-misses placed in C03 documents under set / set-empty / unset environments",
    "design_ref": "DESIGN.md §4 C16",
    "level_text": "Proof: TmplProofs.v characterises the language of the hand-written matcher match_env (mirror of the anchored pattern in yaml_templates.go): it accepts a string iff the string is `${{` ws `env:` ws NAME ws [`|`] ws [DEFAULT] ws `}}` and returns the maximal NAME and the trimmed DEFAULT; every string of the documented grammar (any name in [A-Za-z0-9_]+, any default, any inner spacing) yields exactly (name, default); strings with leading/trailing text, single braces or without `env:` are rejected and left untouched; resolution is value-if-set (even empty), else default with surrounding double quotes stripped, else an error; and loading = template pass over the *resolved* document of C03, so a template in an unselected branch can never fail loading (Props/C16.v, closed under the global context); the language of the matcher is proved equal to the language of the source's regular expression under the textbook matching relation. Tied to the source (T) by xlate_tmplre (pattern literal -> regular-expression term, Tie_C16: gen_pattern = hand_pattern) and xlate_gconf -set templates (MatchAndResolve, parseTemplatedElements, Builder.FromBytes and their helpers -> Gallina; Tie_C16_resolve proves for all arguments, whatever helpers and loop forms the source uses: regenerated MatchAndResolve = resolve_str; the regenerated parseTemplatedElements is right given a recursive call right on the children, so subst satisfies its recursion equation, which has a unique solution; regenerated FromBytes = load_full: dimensions resolved first, templates substituted in the resolved document only), the model-level theorems C16_model_unselected_irrelevant / C16_model_error_iff (unselected branches cannot influence loading, stated on the model load_full and an independent resolution relation), and (C) by loading generated documents through the public API and judging each observation inside Coq.",
    "level_note": "Trusted: Coq 8.16.1 kernel + vm_compute; Go's regexp engine implements the pattern as the hand-written recogniser does (validated by the correspondence run, not proved); fidelity of TmplModel.v/GConfModel.v (correspondence); yaml.v3 round trip; os.LookupEnv recorded per case. No axioms.",
    "allowed_axioms": [],
}

TRUSTED = [
    "Coq 8.16.1 kernel and VM (vm_compute); no axioms",
    "Go's regexp engine decides membership in the pattern's language as the textbook matching relation TmplReModel.matches does and reports leftmost-first submatches as TmplModel.match_env returns them (maximal name, trimmed default): validated on every generated string, not proved; the pattern itself is read from the source by the translator harness/cmd/xlate_tmplre (go/parser + regexp/syntax) and tied by reflexivity",
    "hand-written models coq/theories/TmplModel.v (yaml_templates.go) and GConfModel.v (builder.go), tied by correspondence only",
    "gopkg.in/yaml.v3 round trip of the generated documents (checked per case); os.LookupEnv (the environment is recorded per case)",
    "Go harness harness/cmd/c16 (generator with by-construction expectation), Go 1.23 toolchain",
]

HEADER = gl.HEADER.replace("GConfModel GConfJudge.", "GConfModel GConfJudge TmplModel TmplJudge.")
CASE, JUDGE = "c03_case", "c16_judge"


def shape(j):
    """shape of a failing case (from what was observed only, so that it is stable under replay)"""
    if j["load"] == "err":
        return "load_fails"
    if j["load"] in ("panic", "buildpanic"):
        return "panic"
    return "wrong_result_after_successful_load"


def features(j):
    f = {"kind": j.get("kind", "").split("/")[0], "shape": shape(j)}
    # a resolved value that starts with a line feed is not handed back intact by Get: gconfig converts
    # through yaml.Marshal/Unmarshal and yaml.v3 drops the first line break of such a block scalar
    # (known finding C16-yaml-roundtrip-leading-line-break)
    if any(v.startswith("\n") and k in j.get("yaml", "") for k, v in (j.get("env") or {}).items()):
        f["env_value_starts_with_line_feed"] = True
    return f


def view(j):
    v = {k: j[k] for k in ("kind", "dims", "env", "yaml", "load", "dimvals") if k in j}
    if j.get("load_msg"):
        v["load_msg"] = j["load_msg"][:300]
    v["doc"] = j["doc"]
    v["gets"] = j["gets"][:12]
    v["strs"] = j["strs"][:8]
    if j.get("oracle"):
        v["generator_expectation"] = j["oracle"]
    return v


def to_input(j):
    return {"dims": j["dims"], "env": j["env"], "doc": j["doc"]}


def variants(inp):
    out = [dict(inp, doc=d) for d in gl.shrink_candidates(inp["doc"])]
    for k in sorted(inp["env"]):
        e = dict(inp["env"])
        del e[k]
        out.append(dict(inp, env=e))
    return out


def size(inp):
    return gl.tsize(inp["doc"]) * 4 + len(inp["dims"]) + len(inp["env"])


def strings_of(t):
    if t["t"] == "s":
        return [t.get("v", "")]
    return [s for c in t.get("l", []) for s in strings_of(c)] + [s for e in t.get("m", []) for s in strings_of(e["v"])]


def run(ctx):
    ctx.trusted = TRUSTED
    ctx.assumptions = [
        "the environment does not change between FromBytes' lookups of one load (recorded once per case)",
        "documents as in C03 (trees, string keys); templates only at scalar positions (map values, list items)"]
    d = gl.Deferred(ctx)
    d.obligations()
    binp = gl.build(ctx, "c16", judge="TmplJudge")
    if not binp:
        return
    translator_tie(ctx, d)
    quick = ctx.tier == "quick"

    def runs_for(f):
        return [("matcher", ["-mode", "matcher", "-n", (400 if quick else 20000) * f]),
                ("docs", ["-mode", "docs", "-n", (350 if quick else 8000) * f]),
                ("ood", ["-mode", "ood", "-n", (60 if quick else 1500) * f])]
    runs = [("corpus", ["-mode", "corpus"])] + runs_for(1)
    cr = gl.corpus_run(ctx, "C16")
    if cr:
        runs.insert(1, cr)
    ctx.log("harness built")

    def classify(j, code):
        if code == 3 or j["kind"] == "ood":
            return "info"      # outside the property's generator space: counted, never gating
        return {1: "fail", 2: "model", 4: "oracle"}.get(code, "model")
    res = gl.correspondence(ctx, d, binp, {
        "header": HEADER, "case_type": CASE, "judge": JUDGE, "nontrivial": "c16_nontrivial",
        "runs": runs, "widen": runs_for, "shard": 60 if quick else 250, "classify": classify,
        "shape": shape, "features": features, "view": view, "to_input": to_input,
        "variants": variants, "size": size, "minimise": lambda j: True,
        "verdict": lambda code: {1: "observation violates the template specification (load_full_spec)",
                                 2: "observation differs from the Coq model of MatchAndResolve/parseTemplatedElements",
                                 4: "generator's by-construction expectation differs from load_full_spec"}[code],
    })
    if res is None:
        return
    terms, jsons, bad, nt, info, widened = res
    gl.count_domain(ctx, HEADER, "c03_case", terms, jsons, 60 if ctx.tier == "quick" else 200)
    strs = [s for j in jsons for s in strings_of(j["doc"])]
    tmpl = [s for s in strs if s.startswith("${")]
    ctx.cov.update({
        "evaluations": len(jsons),
        "lookups_compared": sum(len(j["gets"]) + len(j["strs"]) for j in jsons),
        "distinct_nontrivial": nt,
        "rule": "case = document (one-key for the matcher stream, C03 documents otherwise) + environment "
                "(every pool variable set / set-empty / unset) with FromBytes outcome and Get[any]/Get[string] "
                "at every path; non-trivial (measured inside Coq by c16_nontrivial) = some string of the "
                "document is accepted by the matcher or starts with `${`",
        "distinct_documents": vlib.distinct_count([[j["dims"], j["env"], j["doc"]] for j in jsons]),
        "distinct_template_like_strings": len(set(tmpl)),
        "strings_total": len(strs),
        "by_kind": gl.hist(j["kind"] for j in jsons),
        "load_outcomes": gl.hist(j["load"] for j in jsons),
        "env_vars_set_histogram": gl.hist(min(len(j["env"]), 12) for j in jsons),
        "out_of_domain_differences": info,
        "exhaustive": False,
        "samples": [view(j) for j in jsons[1:3] + jsons[-3:-1]],
        "disagreements": len([1 for i, c in bad if classify(jsons[i], c) != "info"]),
    })
    ctx.log("correspondence: %d cases (%d non-trivial), %d lookups, %d template-like strings, %d disagreement(s), %d out-of-domain difference(s)%s" % (
        len(jsons), nt, ctx.cov["lookups_compared"], len(set(tmpl)), ctx.cov["disagreements"], info,
        "; widened run: %d cases, %d verdict-1" % (widened["cases"], widened["verdict_1"]) if widened else ""))


def translator_tie(ctx, d):
    """(T) two ties, both regenerated from gconfig/yaml_templates.go of the current tree:
    Tie_C16 — the pattern literal as a regular-expression term (gen_pattern = hand_pattern,
    gen_anchored = true and their consequences); Tie_C16_resolve — MatchAndResolve, parseTemplatedElements and
    Builder.FromBytes (with all helpers) translated to Gallina compute, for all arguments, resolve_str / subst / load_full
    (semantic lemmas: see coq/ties/Tie_C03.v).  A broken tie is reported after the
    correspondence run unless that run found a concrete failing input."""
    repo = ctx.copy_repo()
    ok1, d1 = ctx.translator_tie("xlate_tmplre", ["-src", os.path.join(repo, "gconfig", "yaml_templates.go")],
                                 "TmplReGen", "Tie_C16")
    tie1 = ctx.cov.get("translator_tie")
    ok2, d2 = ctx.translator_tie("xlate_gconf", ["-src", os.path.join(repo, "gconfig"), "-set", "templates"],
                                 "TmplGen", "Tie_C16_resolve")
    ctx.cov["translator_tie"] = {"pattern": tie1 if ok1 else {"status": "BROKEN", "detail": d1[-600:]},
                                 "MatchAndResolve": ctx.cov.get("translator_tie") if ok2 else
                                 {"status": "BROKEN", "detail": d2[-600:]}}
    ctx.log("translator ties: pattern", "OK" if ok1 else "BROKEN", "-", d1.splitlines()[0],
            "| MatchAndResolve", "OK" if ok2 else "BROKEN", "-", d2.splitlines()[0])
    if not (ok1 and ok2):
        gens = {}
        for n in ("TmplReGen.v", "TmplGen.v"):
            g = os.path.join(ctx.gen, n)
            if os.path.isfile(g):
                gens[n] = open(g).read()[-1500:]
        d.add({"unchecked": "translator tie " + ", ".join(t for t, o in (("Tie_C16 (the regular expression)", ok1),
                                                                       ("Tie_C16_resolve (MatchAndResolve)", ok2)) if not o)
                            + ": gconfig/yaml_templates.go is no longer what the theorems are about",
               "generated": gens, "detail": ((d1 if not ok1 else "") + "\n" + (d2 if not ok2 else ""))[-3000:]},
              {"kind": "translator_tie"})
    return ok1 and ok2


def replay(ctx, path):
    rep = json.load(open(path))
    inp = rep.get("input")
    if not inp:
        print(json.dumps(rep, indent=1)[:3000])
        print("no input recorded (obligation/tie failure); re-run ./check C16")
        return 1
    binp = gl.build(ctx, "c16", judge="TmplJudge")
    if not binp:
        return 2
    terms, jsons, err = gl.replay_inputs(ctx, binp, [inp], "replay")
    if err:
        print(err)
        return 2
    bad, _, err = ctx.judge_cases(HEADER, CASE, JUDGE, terms, tag="replay")
    if err:
        print(err)
        return 2
    print(json.dumps(view(jsons[0]), indent=1))
    if bad and bad[0][1] in (1, 2, 4):
        print("REPRODUCED: code %d on the current tree" % bad[0][1])
        return 1
    print("not reproduced on the current tree (judged ok)")
    return 0
