"""gerr_tie_lib — translator tie (T) for the heart of package gerror.

`tie_functions(ctx)` regenerates, from the scratch copy of the current tree, Gallina definitions of
CloneBase, FactoryOf, (*GError).Unwrap, ExtractFactoryReference, (*GError).Is and the helper
functions they call (harness/cmd/xlate_gerr_wiring -fns, go/parser only) and proves them equal to
the hand model GErrModel.v with the tactics of coq/theories/GErrTie.v.  The lemmas are semantic
(case analysis over shared opaque atoms), so an equivalent rewrite of the Go code keeps them and a
change of behaviour breaks one of them (or leaves the translatable subset: also a broken tie).

Files compiled (ctx.coq_eval, each self-contained: generated definitions + lemmas + Print Assumptions):
  GErrFnTie_<pid>        tie_clone_base, tie_appends_clipped, tie_factory_of, tie_unwrap, tie_extract
  GErrFnTieIsV_<pid>     tie_is against gerr_is_gen true  (variant "value": reflect.ValueOf(..).Comparable())
  GErrFnTieIsT_<pid>     tie_is against gerr_is_ty        (variant "type":  reflect.TypeOf(..).Comparable())
"""
import os
import re
import time
from concurrent.futures import ThreadPoolExecutor

import gerr_lib as gl

HINTS = "\n#[local] Hint Unfold gen_clone_base gen_factory_of gen_unwrap gen_extract : gerr_gen.\n"

REC_LEMMAS = [
    ("tie_clone_base",
     "Lemma tie_clone_base : forall base bp ep stt dtag src ext serr site derived,\n"
     "  gen_clone_base base bp ep stt dtag src ext serr site derived\n"
     "  = clone_base base bp ep stt dtag src ext serr site derived.\n"
     "Proof. gerr_tie_rec. Qed.\n"),
    ("tie_appends_clipped",
     "Lemma tie_appends_clipped : gen_appends_clipped = true.\nProof. reflexivity. Qed.\n"),
    ("tie_factory_of",
     "Lemma tie_factory_of : forall g, gen_factory_of g = factory_of g.\nProof. gerr_tie_rec. Qed.\n"),
    ("tie_unwrap",
     "Lemma tie_unwrap : forall st i c, nth_error st i = Some c ->\n"
     "  gen_unwrap (VG i) (c_g c) = unwrap_val st (VG i).\nProof. gerr_tie_unwrap. Qed.\n"),
    ("tie_extract",
     "Lemma tie_extract : forall st v, gen_extract st v = extract_fref st v.\nProof. gerr_tie_extract. Qed.\n"),
]

IS_LEMMA = {
    "value": ("Lemma tie_is : forall fuel st i err, gen_is fuel st i err = gerr_is_gen true fuel st i err.\n"
              "Proof.\n  induction fuel as [|fuel IH]; intros st i err; [reflexivity|].\n"
              "  cbn [gen_is gerr_is_gen]. gerr_is_body rb_exists_later_value err IH.\nQed.\n"),
    "type": ("Lemma tie_is : forall fuel st i err, gen_is fuel st i err = gerr_is_ty fuel st i err.\n"
             "Proof.\n  induction fuel as [|fuel IH]; intros st i err; [reflexivity|].\n"
             "  cbn [gen_is gerr_is_ty]. gerr_is_body rb_exists_later_type err IH.\nQed.\n"),
}


def _compile(ctx, name, gen, lemmas, timeout=600):
    """lemmas: list of (name, text).  Returns (ok, output)."""
    text = gen + HINTS + "".join(t for _, t in lemmas) + "".join("Print Assumptions %s.\n" % n for n, _ in lemmas)
    rc, out = ctx.coq_eval(name, text, timeout=timeout)
    closed = out.count("Closed under the global context")
    if rc == 0 and closed != len(lemmas):
        return False, "Print Assumptions: %d of %d lemmas closed under the global context\n%s" % (closed, len(lemmas), out[-1500:])
    return rc == 0, out


def _err(out):
    """the last error message of a coqc run (warnings skipped)"""
    i = out.rfind("Error")
    if i < 0:
        return out.strip()[-600:]
    j = out.rfind('File "', 0, i)
    return out[j if j >= 0 else i:].strip()[:800]


def tie_functions(ctx):
    """Returns {"ok", "variant", "appends_clipped", "detail", "lemmas", "failed", "secs"}."""
    t0 = time.time()
    res = {"ok": False, "variant": None, "appends_clipped": None, "detail": "", "lemmas": 0, "failed": [], "secs": 0.0}
    src = os.path.join(ctx.copy_repo(), "gerror")
    outp = os.path.join(ctx.gen, "GErrFnGen_%s.v" % ctx.pid)
    rc, out = gl.xlate(ctx, ["-fns", src, "-out", outp])
    if rc != 0 or not os.path.isfile(outp):
        res["detail"] = "translator xlate_gerr_wiring -fns: " + out.strip()[-1500:]
        res["failed"] = ["(untranslatable)"]
        res["secs"] = round(time.time() - t0, 1)
        return res
    gen = open(outp).read()
    m = re.search(r"Definition gen_appends_clipped : bool := (true|false)\.", gen)
    res["appends_clipped"] = (m.group(1) == "true") if m else None
    helpers = re.findall(r"Definition (gen_fn_\w+)", gen)
    # the pre-fix code asks the TYPE for comparability: try that variant first (ordering only)
    order = ["type", "value"] if "type_comparable" in gen else ["value", "type"]
    names = {"value": "GErrFnTieIsV_%s" % ctx.pid, "type": "GErrFnTieIsT_%s" % ctx.pid}

    def rec():
        ok, o = _compile(ctx, "GErrFnTie_%s" % ctx.pid, gen, REC_LEMMAS)
        if ok:
            return [], ""
        # which ones?  each lemma in a file of its own
        failed, notes = [], []
        with ThreadPoolExecutor(max_workers=len(REC_LEMMAS)) as ex:
            rs = list(ex.map(lambda nl: _compile(ctx, "GErrFnTie_%s_%s" % (ctx.pid, nl[0]), gen, [nl]), REC_LEMMAS))
        for (n, _), (ok1, o1) in zip(REC_LEMMAS, rs):
            if not ok1:
                failed.append(n)
                notes.append("%s: %s" % (n, _err(o1)))
        if not failed:      # the combined file failed for another reason
            failed, notes = ["(file)"], [_err(o)]
        return failed, "\n".join(notes)

    def is_variant(v):
        return _compile(ctx, names[v], gen, [("tie_is", IS_LEMMA[v])])

    with ThreadPoolExecutor(max_workers=2) as ex:
        frec = ex.submit(rec)
        fis = ex.submit(is_variant, order[0])
        failed, notes = frec.result()
        ok_is, out_is = fis.result()
    variant, is_note = (order[0] if ok_is else None), ""
    if not ok_is:
        ok2, out2 = is_variant(order[1])
        if ok2:
            variant = order[1]
        else:
            is_note = "tie_is (against gerr_is_gen true): %s\ntie_is (against gerr_is_ty): %s" % (
                _err(out_is if order[0] == "value" else out2), _err(out2 if order[0] == "value" else out_is))
            failed = failed + ["tie_is"]
    res["variant"] = variant
    res["failed"] = failed
    res["lemmas"] = len(REC_LEMMAS) + 1 - len(failed)
    res["ok"] = not failed
    res["secs"] = round(time.time() - t0, 1)
    if res["ok"]:
        res["detail"] = ("gen_clone_base, gen_appends_clipped, gen_factory_of, gen_unwrap, gen_extract, gen_is%s regenerated from "
                         "gerror/*.go are equal to clone_base, factory_of, unwrap_val, extract_fref and %s of GErrModel.v "
                         "(6 lemmas, closed under the global context, %.1f s)" % (
                             "".join(", " + h for h in helpers),
                             "gerr_is_gen true" if variant == "value" else "gerr_is_ty (comparability asked of the TYPE: pre-fix code)",
                             res["secs"]))
    else:
        res["detail"] = ("broken tie lemma(s): %s\n%s\n%s" % (", ".join(failed), notes, is_note)).strip()[-3000:]
    return res
