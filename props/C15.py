"""C15 — gerror: factories immutable; message/tag/source/stack compose lawfully."""
import json
import os
import shutil

import gerr_lib as gl
import vlib

META = {
    "property_id": "C15",
    "level": "proof",
    "technique": "Coq theorems over an executable store model of gerror.CloneBase and the 19 Factory "
                 "methods (all chains, all arguments, closed forms for message/tag/source/stack, store "
                 "only grows; access trace at field granularity DERIVED from an instrumented copy of "
                 "CloneBase with an erasure theorem; memory-level model of the laterSrcErrors slice: "
                 "no derived error shares mutable backing storage) + CloneBase and FactoryOf themselves "
                 "translated go/ast -> Gallina on every run and proved equal to the model for all "
                 "arguments (semantic tie), wiring table regenerated from gerror.go + in-kernel correspondence of model, closed-"
                 "form spec and the real package on generated chains; concurrent variant under the "
                 "race detector in the thorough tier",
    "design_ref": "DESIGN.md §4 C15",
    "level_text": "Proof: GErrProofs.v shows for every store, receiver, chain of any length and every "
                  "argument (strings as code-point lists, TrimSpace over unicode.IsSpace modelled "
                  "explicitly) that deriving only allocates (every existing object, the factory "
                  "included, is unchanged), message = base followed by the non-blank trimmed "
                  "extensions joined by one space, detail tags joined by '-', the first non-empty "
                  "source wins and is never overwritten, a source is derived by every step but Base, "
                  "and the stack is the one made by the first stack-taking step (Props/C15.v, closed "
                  "under the global context). The model is tied to the current source by regenerating "
                  "the per-method argument wiring from gerror.go (tie by computation), by translating "
                  "CloneBase and FactoryOf from factory.go to Gallina (go/ast) and proving the result equal "
                  "to clone_base / factory_of for all arguments (a write to an existing object is "
                  "untranslatable; appends to laterSrcErrors must be capacity-clipped), and by running the "
                  "real package on generated chains (0-8 steps, Unicode/blank/format-verb arguments, "
                  "four kinds of call site) and judging every observation inside Coq against both the "
                  "model and the closed-form spec. PARTIAL: data-race freedom is runtime behaviour; it "
                  "is exercised, not proved: the same chains run from 16 goroutines on shared package-"
                  "level factories, under the race detector (both tiers; a missing C compiler is reported as "
                  "unchecked). What the model carries of that clause: the access trace of a derivation, "
                  "derived from an instrumented CloneBase whose erasure is clone_base, writes only the "
                  "freshly allocated object (C15_trace_erasure, C15_trace_local, C15_race_free_model, "
                  "C15_race_free_full), and with the capacity-clipped append no derived error ever writes "
                  "a slot of a backing array another error can see (C15_later_contents_stable, "
                  "C15_later_no_shared_slot_write; C15_later_unclipped_refuted for the unclipped form).",
    "level_note": "Trusted: Coq 8.16.1 kernel + vm_compute; hand-written model of CloneBase (fidelity "
                  "checked by correspondence and the wiring tie, not proved); fmt.Sprintf (formatted "
                  "strings enter the model already formatted); runtime.Callers/FuncForPC (derived "
                  "source and stack origin enter as per-call-site oracle values computed by the "
                  "harness from its own naming rule); Go harness and translator; the Go race detector "
                  "for the concurrency clause. No axioms.",
    "allowed_axioms": [],
}

TRUSTED = [
    "Coq 8.16.1 kernel and VM (vm_compute); no native_compute; no axioms (Print Assumptions: closed under the global context)",
    "hand-written model coq/theories/GErrModel.v (clone_base, call) of gerror/factory.go CloneBase and gerror/gerror.go; tied by correspondence and, by the translator harness/cmd/xlate_gerr_wiring (go/ast): per-method argument wiring (tie by computation) and CloneBase/FactoryOf as Gallina functions with semantic tie lemmas (forall arguments, gen = model; coq/theories/GErrTie.v)",
    "fmt.Sprintf: the formatted extension text is recorded from the real fmt and enters the model already formatted",
    "runtime.Callers / FuncForPC: the derived source of a call site and the identity of the call that made a stack are oracle values; the harness computes the expected ones from its own rule (package:receiver:function of the calling frame), independent of gerror's stack.go",
    "strings as lists of code points (valid UTF-8 only); strings.TrimSpace modelled as trim_space over unicode.IsSpace's code points",
    "Go harness harness/cmd/c15 (generators, call-site functions, observation through the Err* accessors), Go 1.23 toolchain; the race detector (thorough tier) for the concurrency clause",
]

CASE_T, JUDGE = "c15_case", "c15_judge"
# a case that must be judged bad (observed tag "a_b" where the law gives "a-b")
CANARY = ("({| k_name := [69]; k_msg := [98]; k_src := []; k_isfac := true; "
          "k_steps := [(MDTag, mkA [] [97] [] VNil [] 0 [109;58]); (MDTag, mkA [] [98] [] VNil [] 4 [109;58])]; "
          "k_frames := [[109]; [109]]; "
          "k_obs := [mkV [69] [98] [109] [97] None; mkV [69] [98] [109] [97;95;98] None]; "
          "k_fac_after := (mkV [69] [98] [] [] None) |})%N")


def nontrivial(j):
    for s in j["steps"]:
        u = gl.uses(s["m"])
        if s["m"] in gl.STACK_TAKING:
            return True
        if "fmt" in u and gl.go_trim(s.get("rendered", "")):
            return True
        if "dtag" in u and s["dtag"]:
            return True
        if "src" in u and s["src"]:
            return True
        if "err" in u:
            return True
    return False


def features(j, code):
    ms = [s["m"] for s in j["steps"]]
    return {"kind": j.get("kind", "").split("/")[0], "code": code, "last_method": ms[-1] if ms else "",
            "chain_len": len(ms), "panic": bool(j.get("panic"))}


def tie_wiring(ctx):
    """(T) regenerate the wiring table of the 19 methods from gerror.go and check it equal to
    the model's by computation"""
    ok, detail = gl.tie_base_wiring(ctx)
    if ok:
        ctx.cov["tie_T"] = detail
    else:
        ctx.cov["tie_T"] = "BROKEN"
        ctx.tie_broken = detail
    return ok


def run(ctx):
    ctx.trusted = TRUSTED
    ctx.assumptions = [
        "strings are valid UTF-8 (every harness argument is built from runes)",
        "the derived source of a call site is non-empty (it always contains the ':' delimiter); recorded per case and checked by the judge (code 3 otherwise)",
        "makeStack returns a non-empty stack (true for any call made from a function)",
        "factories are built as struct literals (no stack) or satisfy: a stack implies a source",
        "Convert/ConvertS with an argument that already is a gerror error return it unchanged and are not derivations (C06 covers them)",
    ]
    rp = gl.Reporter(ctx)
    rp.obligations()
    if not tie_wiring(ctx):
        # the wiring of some method no longer matches the model; the correspondence run is the
        # search for a failing input
        rp.defer("tie T: wiring table regenerated from gerror/gerror.go differs from GErrModel.base_wiring",
                 getattr(ctx, "tie_broken", ""), "tie")
    # (T) CloneBase and FactoryOf themselves: go/ast -> Gallina, proved equal to clone_base /
    # factory_of for all arguments; a write to an existing object is untranslatable; every append to
    # a slice taken from an existing object must be capacity-clipped (C15_later_* theorems)
    ft = gl.tie_functions(ctx)
    ctx.cov["tie_T_functions"] = {k: ft.get(k) for k in ("ok", "variant", "appends_clipped", "lemmas")}
    mine = [l for l in (ft.get("failed") or []) if l not in ("tie_is", "tie_unwrap", "tie_extract")]   # those three are C06's
    if mine:
        rp.defer("tie T: CloneBase / FactoryOf translated from gerror/factory.go (go/ast -> Gallina) are not provably equal "
                 "to GErrModel.clone_base / factory_of, or an append to laterSrcErrors is not capacity-clipped",
                 "broken: %s\n%s" % (", ".join(mine), ft.get("detail", "")), "tie")
    binp, log = ctx.build_harness("c15")
    if not binp:
        rp.defer("harness build against the current tree", log, "build")
        rp.flush()
        return
    quick = ctx.tier == "quick"
    corpus_inputs = gl.load_corpus("C15")
    runs = [("corpus", ["-mode", "corpus"]),
            ("random", ["-mode", "random", "-n", 300 if quick else 8000]),
            ("nearmiss", ["-mode", "nearmiss", "-n", 150 if quick else 4000]),
            ("sweep", ["-mode", "sweep", "-n", 1 if quick else 4]),
            ("exotic", ["-mode", "exotic"]),
            ("shapes", ["-mode", "shapes"])]
    terms, jsons, err = vlib.harness_cases(ctx, binp, runs)
    if not err and corpus_inputs:
        t2, j2, err = gl.run_replay(ctx, binp, corpus_inputs, "corpusdir")
        terms, jsons = t2 + terms, j2 + jsons
    conc = None
    if not err:
        conc, t3, j3, err = run_conc(ctx, binp, quick)
        terms, jsons = terms + t3, jsons + j3
    if err:
        rp.defer("harness run", err, "harness")
        rp.flush()
        return
    bad, nt_coq = judge_and_report(ctx, rp, binp, terms, jsons, quick, "cases")
    if bad is None:
        rp.flush()
        return
    if conc is not None:
        if not conc.get("race_detector"):
            # the plain binary ran, the race detector did not: say so instead of passing silently
            rp.defer("race detector run not possible: the data-race clause was not exercised",
                     conc.get("race_build_error", ""), "race_unavailable")
        if conc.get("mismatches") or conc.get("factory_changed") or conc.get("races"):
            rp.failing({"concurrent_run": conc,
                        "verdict": "concurrent derivation differs from sequential derivation, changed a factory, or raced",
                        "replay_cmd": "./check C15 --tier %s" % ctx.tier},
                       {"kind": "conc", "races": bool(conc.get("races")),
                        "mismatches": bool(conc.get("mismatches")),
                        "factory_changed": bool(conc.get("factory_changed"))})
    if rp.need_widened():
        # something is unchecked but no failing input yet: widen the search before saying so
        wruns = [("wrandom", ["-mode", "random", "-n", 1000 if quick else 12000, "-seed", ctx.seed + 7919]),
                 ("wnearmiss", ["-mode", "nearmiss", "-n", 500 if quick else 6000, "-seed", ctx.seed + 7919]),
                 ("wsweep", ["-mode", "sweep", "-n", 2 if quick else 4])]
        wt, wj, err = vlib.harness_cases(ctx, binp, wruns)
        if not err:
            wbad, _ = judge_and_report(ctx, rp, binp, wt, wj, quick, "widened", only_v1=True)
            ctx.cov["widened_run"] = {"cases": len(wj), "bad": len(wbad or [])}
    rp.flush()
    nt = [j for j in jsons if nontrivial(j)]
    ctx.cov.update({
        "evaluations": len(jsons),
        "steps_compared": sum(len(j["steps"]) for j in jsons),
        "distinct_nontrivial": vlib.distinct_count([[j["fac"], [[s[k] for k in ("m", "src", "dtag", "format", "elems", "err", "flavour")] for s in j["steps"]]] for j in nt]),
        "nontrivial_by_coq_predicate": max(0, nt_coq - 2),  # minus the two canary cases
        "rule": "cases = one factory (FactoryOf or bare; empty/preset/blank Message and Source) + a chain of 0-8 "
                "of the 19 Factory methods issued from 36 distinct call-site functions (plain, pointer-"
                "receiver, value-receiver, closure); arguments drawn from letters, CJK, emoji, combining "
                "marks, all 17 Unicode white-space code points, near-miss code points that are not white "
                "space (U+200B, U+FEFF, U+001C..) and format verbs with matching/missing/extra operands; "
                "non-trivial = some step passes a non-blank extension, a tag, a source, a foreign error or "
                "takes a stack; distinct by (factory, steps). Mode `shapes` adds deterministic families: every one of "
                "the 25 white-space code points as a whole/padding extension and as base message, near-space code "
                "points, format verbs inside tags/sources/base message, empty tag/source arguments, every ordered "
                "pair of the 8 source-carrying methods (first wins), each of the 9 stack-taking methods followed by "
                "Base and by every method, factories cloned from another factory (FactoryOf on a derived error)",
        "exhaustive": False,
        "exhaustive_note": "finite sub-sweep: every ordered pair of the 19 methods as a two-step chain with fixed non-empty "
                           "arguments, from 1 (quick) / all 4 (thorough) factory presets (361 / 1444 chains); the chain "
                           "space itself is infinite and is covered by the theorems",
        "by_kind": gl.hist(j["kind"] for j in jsons),
        "chain_length_histogram": gl.hist(len(j["steps"]) for j in jsons),
        "method_histogram": gl.hist(s["m"] for j in jsons for s in j["steps"]),
        "flavour_histogram": gl.hist(s["flavour"] % 4 for j in jsons for s in j["steps"]),
        "samples": [jsons[i] for i in (4, 5, 12, 20) if i < len(jsons)],
        "disagreements": len(bad),
        "concurrent_run": conc,
    })
    ctx.log("correspondence: %d chains, %d steps, %d disagreement(s); concurrent: %s" % (
        len(jsons), ctx.cov["steps_compared"], len(bad), conc))


def judge_and_report(ctx, rp, binp, terms, jsons, quick, tag, only_v1=False):
    """judge the cases; report verdict-1 cases (minimised) first, defer the rest"""
    for j in jsons:
        j["steps"] = j.get("steps") or []
        j["obs"] = j.get("obs") or []
    bad, nt_coq, err = gl.judge(ctx, CASE_T, JUDGE, terms, CANARY, shard=250 if quick else 500,
                                nontrivial="c15_nontrivial", tag=tag)
    if err:
        rp.defer("in-kernel evaluation of the correspondence", err, "coq_eval")
        return None, 0
    for i, code in sorted(bad, key=lambda b: (b[1] != 1, b[0])):
        j = jsons[i]
        if code == 1:
            if ctx.nreplay < 5:
                j = gl.minimise_chain(ctx, binp, CASE_T, JUDGE, CANARY, j, code)
            rep = {"case": j, "verdict": "observation violates the composition laws (closed-form spec)",
                   "replay_cmd": "./check C15 --replay <this file>"}
            if rp.failing(rep, features(j, code)) == "violation" and rp.nviol <= 5:
                gl.write_corpus_hit("C15", {"fac": j["fac"], "steps": j["steps"]})
        elif not only_v1:
            what = ("harness produced a case outside the property's domain (or its derived-source oracle differs "
                    "from the model's rendering of the frame name)" if code == 3 else
                    "correspondence: observation satisfies the laws but differs from the Coq model")
            if len(rp.pending) < 8:
                rp.defer(what, json.dumps(j)[:2500], "harness" if code == 3 else "model_mismatch", {"case": j})
    return bad, nt_coq


def run_conc(ctx, binp, quick):
    """the concurrent variant, with the race-detector binary when cgo is usable (both tiers;
    thorough runs many more chains and rounds).  When the -race binary cannot be built the plain
    binary still runs (the sequential-vs-concurrent comparison stays useful) but the returned
    info says race_detector: False (+ race_build_error) and the caller reports the data-race
    clause as unchecked."""
    info = {"race_detector": False}
    cbin = binp
    if shutil.which("gcc") or shutil.which("cc") or shutil.which("clang"):
        rb, log = ctx.build_harness("c15", race=True)
        if rb:
            cbin, info["race_detector"] = rb, True
        else:
            info["race_build_error"] = "go build -race failed:\n" + (log or "")[-600:]
    else:
        info["race_build_error"] = "no C compiler (gcc/cc/clang) on PATH: go build -race needs cgo"
    prefix = os.path.join(ctx.scratch, "cases_conc")
    args = [cbin, "-seed", str(ctx.seed), "-out", prefix, "-mode", "conc",
            "-n", "120" if quick else "600", "-rounds", "2" if quick else "6"]
    env = dict(os.environ)
    env["GORACE"] = "halt_on_error=0 exitcode=66"
    rc, out = vlib.sh(args, env=env, timeout=1500)
    races = out.count("WARNING: DATA RACE")
    if rc not in (0, 66):
        return None, [], [], "harness conc failed (rc %d):\n%s" % (rc, out[-3000:])
    t = open(prefix + ".cases").read().splitlines()
    j = [json.loads(l) for l in open(prefix + ".jsonl").read().splitlines()]
    info.update(json.load(open(prefix + ".conc.json")))
    info["races"] = races
    if races:
        info["race_report"] = out[:3000]
    return info, t, j, None


def replay(ctx, path):
    """re-run the recorded chain on the current tree and judge it again"""
    rep = json.load(open(path))
    c = rep.get("case")
    if not c:
        print(json.dumps(rep, indent=1)[:3000])
        print("no input recorded; re-run with: ./check C15 --tier %s (VERIF_SEED=%s)" % (rep.get("tier"), rep.get("seed")))
        return 0
    binp, log = ctx.build_harness("c15")
    if not binp:
        print(log[-2000:])
        return 2
    terms, jsons, err = gl.run_replay(ctx, binp, [{"fac": c["fac"], "steps": c["steps"]}], "user")
    if err:
        print(err)
        return 2
    bad, _, err = gl.judge(ctx, CASE_T, JUDGE, terms, CANARY)
    print(json.dumps(jsons[0], indent=1))
    print("judgement:", {0: "ok"}.get(bad[0][1] if bad else 0, "code %s" % (bad[0][1] if bad else 0)), err or "")
    return 1 if bad else 0
