"""C13 — generators: every option combination yields code that builds."""
import glob
import json
import os

import build_lib as bl
import vlib

META = {
    "property_id": "C13",
    "level": "proof",
    "technique": "Coq theorems over the method tables and the basic-kind rendering that two translators "
                 "(text/template/parse, go/ast) regenerate from the templates, interfaces and "
                 "gencommon.ExtractTypeRef of the current tree on every run (finite sweeps over all option "
                 "settings lifted with forallb_forall; all go/types basic kinds) + a build farm that runs the "
                 "real genum/gerror/gsort CLIs through `go generate` on definition x option combinations "
                 "and judges exit status / gofmt -l / go build with compile-time interface assertions "
                 "inside Coq against the model's prediction",
    "design_ref": "DESIGN.md §4 C13",
    "level_text": "Proof (partial): Props/C13.v proves, for every one of the 2^5 genum switch settings x parsable "
                  "some/none, for gerror with and without skipConvertGen and for gsort value/pointer sorters, that "
                  "every method of genum.Enum, genum.TypedEnum and the requested json/text/yaml marshalers, of "
                  "gerror.Error/Factory (generated or promoted from GError; Convert/ConvertS not emitted under "
                  "skipConvertGen) and of sort.Interface is emitted by the template with a suitable receiver and "
                  "never twice, and that every basic kind a Go constant can have is rendered by ExtractTypeRef as "
                  "a predeclared Go type. The statements are proved for any table passing a boolean sweep and are "
                  "re-instantiated on every run with the tables regenerated from the current templates and "
                  "imports.go (closed under the global context). Whether the Go compiler accepts the whole "
                  "generated file and gofmt leaves it unchanged is runtime behaviour no Gallina model expresses: "
                  "that part is carried by the farm (real CLIs as go:generate subprocesses; all 32 genum settings; "
                  "trait types untyped/typed string, int, bool, rune, float, complex, renamed-import time.Duration, "
                  "imported reflect.Kind, local named types, other generated enums; gerror and gsort definitions), "
                  "every observation judged in Coq against the spec (error report or built package) and the model.",
    "level_note": "Trusted: Coq 8.16.1 kernel + vm_compute; the two stdlib-only translators (validated by the "
                  "farm: a table that mispredicts a build is a disagreement); the go/types basic-kind table read "
                  "from the toolchain; hand-written method lists of json/encoding/yaml.v3/sort interfaces (checked "
                  "by the farm's compile-time assertions); the Go toolchain (go generate, gofmt, go build) as the "
                  "oracle of the partial part; the farm harness. No axioms.",
    "allowed_axioms": [],
}

TRUSTED = [
    "Coq 8.16.1 kernel and VM (vm_compute); no axioms (Print Assumptions: closed under the global context)",
    "translators harness/cmd/xlate_tmpl_methods (text/template/parse, go/parser) and xlate_basic_kinds "
    "(go/parser, go/types table) — stdlib only; validated by the farm",
    "hand-written interpretation of template guards (GenBuildModel.emitted: per-type ranges, option flags; "
    "data-dependent guards count as not emitted)",
    "method lists of json.Marshaler/Unmarshaler, encoding.TextMarshaler/Unmarshaler, yaml.Marshaler/Unmarshaler, "
    "sort.Interface (hand-written; asserted at compile time in every farm package)",
    "Go 1.23 toolchain: go generate, gofmt -l, go build, go vet as oracles (compiler acceptance is not modelled)",
    "farm harness harness/cmd/c13 (definition renderer, shape classification, error classification)",
]


def corpus_specs():
    out = []
    for p in sorted(glob.glob(os.path.join(vlib.VERIF, "corpus", "C13", "*.json"))):
        s = json.load(open(p))
        s = s.get("spec", s)
        s["kind"] = "corpus"
        out.append(s)
    return out


def setup(ctx):
    """translators + tie + CLIs + harness; returns dict or None (already reported)"""
    repo = ctx.copy_repo()
    ok, detail = bl.run_translators(ctx, repo)
    if not ok:
        ctx.report({"unchecked": "translator tie (xlate_tmpl_methods / xlate_basic_kinds)", "detail": detail},
                   {"kind": "translator"}, failing_input=False)
        return None
    tie = bl.run_tie(ctx)
    ctx.log("tie over regenerated tables:", "OK" if tie["ok"] else "BROKEN - " + "; ".join(tie["broken"])[:600])
    if tie.get("same_as_hand"):
        ctx.log("regenerated tables equal the hand copies (templates, interfaces, kinds):", tie["same_as_hand"])
    clibin, log = bl.build_clis(ctx, repo)
    if not clibin:
        ctx.report({"unchecked": "building the generator CLIs from the current tree", "detail": log},
                   {"kind": "build"}, failing_input=False)
        return None
    binp, log = ctx.build_harness("c13")
    if not binp:
        ctx.report({"unchecked": "harness build", "detail": log[-3000:]}, {"kind": "build"}, failing_input=False)
        return None
    return {"repo": repo, "tie": tie, "clibin": clibin, "bin": binp}


HEADER = ("From Coq Require Import String List Bool.\nImport ListNotations.\n"
          "From GT Require Import Base.Verdict GenBuildModel GenBuildJudge.\n"
          "From GTgen Require Import TmplMethodsGen BasicKindsGen.\nLocal Open Scope string_scope.\n")
JUDGE = "gb_judge gen_tables gen_kinds gen_render"


def run(ctx):
    ctx.trusted = TRUSTED
    ctx.assumptions = [
        "documented-valid inputs: definition files in the shapes of genum/gerror/gsort's READMEs and fixtures; "
        "inputs the generators document as errors (inconsistent trait counts, unnamed traits, non-unique "
        "parsable values, unsupported tag options, missing GError, non-struct, duplicate priorities) must be "
        "reported as errors and are judged as such",
        "shapes owned by the genum trait-semantics property (C12) are judged against the spec only; the model abstains",
        "go vet diagnostics are recorded, not gated (the property speaks about building)",
    ]
    ctx.obligations_or_violation()
    st = setup(ctx)
    if st is None:
        return
    quick = ctx.tier == "quick"
    terms, cases = [], []
    cs = corpus_specs()
    runs = [("main", "quick" if quick else "thorough", cs or None, ["-vet=true"])]
    for tag, mode, specs, extra in runs:
        t, c, err, log = bl.run_farm(ctx, st["bin"], st["clibin"], st["repo"], tag, mode, specs, extra)
        if err:
            ctx.report({"unchecked": "farm run " + tag, "detail": err}, {"kind": "harness"}, failing_input=False)
            return
        for line in log.splitlines():
            if line.startswith("c13:"):
                ctx.log(tag, line)
        terms += t
        cases += c
    bad, nt, err = ctx.judge_cases(HEADER, "gb_case", JUDGE, terms, shard=400, nontrivial="gb_nontrivial",
                                   tag="farm")
    if err:
        ctx.report({"unchecked": "in-kernel evaluation of the farm observations", "detail": err},
                   {"kind": "coq_eval"}, failing_input=False)
        return

    def farm_runner(tag, specs):
        _, c, e, _ = bl.run_farm(ctx, st["bin"], st["clibin"], st["repo"], tag, "spec", specs, ["-vet=false"])
        return None if e else c

    # group the disagreements: one report per distinct problem, minimised
    groups, order = {}, []
    for i, code in bad:
        c = cases[i]
        if code == 1:
            feats = bl.problems(c)
        else:
            feats = [{"tool": c["tool"], "shape": "", "error_class": "model_disagreement",
                      "detail": "observed %s" % c["obs"]["outcome"], "where": ",".join(c.get("shapes", []))}]
        for f in feats:
            k = json.dumps(f, sort_keys=True)
            if k not in groups:
                groups[k] = (f, code, [])
                order.append(k)
            groups[k][2].append(i)
    explained_tie = False
    # smallest definition of each group first, then minimise on the real generators (the groups
    # that are not known findings, at most five, in parallel)
    reps, todo = {}, []
    for k in order:
        f, code, idx = groups[k]
        reps[k] = min((cases[i] for i in idx), key=lambda c: len(json.dumps(c["spec"])))
        known = any(fd.get("property") == ctx.pid and fd.get("status") == "open" and fd.get("match") and
                    all(f.get(a) == b for a, b in fd["match"].items()) for fd in ctx.findings)
        if code == 1 and not known and len(todo) < 5:
            todo.append(k)
    if todo:
        import concurrent.futures
        with concurrent.futures.ThreadPoolExecutor(max_workers=5) as ex:
            futs = {k: ex.submit(bl.minimise, ctx, farm_runner, reps[k], groups[k][0],
                                 8 if quick else 14, "g%d" % n) for n, k in enumerate(todo)}
            for k, fu in futs.items():
                reps[k] = fu.result()
    for k in order:
        f, code, idx = groups[k]
        rep_case = reps[k]
        rep = {"case": bl.view(rep_case),
               "verdict": {1: "the generator neither reported an error nor produced a gofmt-clean package that "
                              "builds with the interface assertions",
                           2: "observation satisfies the property but differs from the Coq model's prediction"}[code],
               "problem": f, "cases_with_this_problem": len(idx),
               "replay_cmd": "./check C13 --replay <this file>"}
        r = ctx.report(rep, f, failing_input=(code == 1))
        if r == "violation" and code == 1 and f.get("error_class") in ("missing_method", "undefined"):
            explained_tie = True
    tie = st["tie"]
    if not tie["ok"] and not explained_tie:
        ctx.report({"unchecked": "theorems C13_methods_current_tree / C13_basic_kinds_current_tree over the "
                                 "tables regenerated from the current tree",
                    "model_side_witness": tie["broken"], "detail": tie["detail"]},
                   {"kind": "tie"}, failing_input=False)
    elif not tie["ok"]:
        ctx.log("broken tie is witnessed by the failing inputs above:", "; ".join(tie["broken"])[:400])

    genum = [c for c in cases if c["tool"] == "genum"]
    settings = {tuple(sorted(c["flags"].items())) for c in genum}
    ctx.cov.update({
        "evaluations": len(cases),
        "distinct_nontrivial": vlib.distinct_count(
            [[c["tool"], c.get("label"), c.get("flags"), c["spec"].get("genum_opts", {}).get("parsableByTraits"),
              c["spec"].get("gerror", {}).get("skipConvertGen")] for c in cases if nontrivial(c)]),
        "nontrivial_counted_in_coq": nt,
        "type_refs_compared": sum(len(c.get("type_refs") or []) for c in cases),
        "rule": "one case = one package (definition + go:generate options) run through the real CLI, gofmt -l and "
                "go build with interface assertions; non-trivial = some option differs from its default, or a "
                "parsable trait is requested, or the definition has a trait of basic kind / a recorded shape "
                "(gb_nontrivial, counted inside Coq as nontrivial_counted_in_coq); distinct by (tool, definition, "
                "flags, parsable list)",
        "genum_settings_covered": len(settings),
        "exhaustive": (not quick),
        "exhaustive_note": "all 32 json/yaml/text/caseInsensitive/disableTraits settings are covered in both tiers; "
                           "thorough crosses every catalogue definition with all 32 settings and the subsets of "
                           "value-distinct parsable traits (capped per definition)",
        "by_tool_outcome": hist("%s/%s/%s" % (c["tool"], c["kind"], c["obs"]["outcome"]) for c in cases),
        "by_label": hist(c.get("label") for c in cases),
        "trait_kind_histogram": hist(k for c in genum for k in c.get("trait_kinds", [])),
        "shape_histogram": hist(s for c in cases for s in c.get("shapes", [])),
        "parsable_some": sum(1 for c in genum if c.get("parsable_some")),
        "vet_complaints_on_built_packages": sum(1 for c in cases if c["obs"].get("vet")),
        "tie": {"ok": tie["ok"], "broken": tie["broken"], "same_as_hand": tie.get("same_as_hand"),
                "render_expr": tie.get("render")},
        "samples": [bl.view(c) for c in (cases[:2] + cases[-2:])],
        "disagreements": len(bad),
        "generate_seconds_median": sorted(c["obs"]["secs"] for c in cases)[len(cases) // 2] if cases else 0,
    })
    ctx.log("farm: %d packages (%d genum settings), %d disagreement(s) in %d problem group(s)" % (
        len(cases), len(settings), len(bad), len(order)))


def nontrivial(c):
    """python mirror of GenBuildJudge.gb_nontrivial (the Coq count is reported next to it)"""
    f = c.get("flags", {})
    if c["tool"] == "genum":
        return (not (f.get("GenJSON") and f.get("GenYAML") and f.get("GenText")) or f.get("CaseInsensitive")
                or f.get("DisableTraits") or c.get("parsable_some")
                or len(c.get("trait_kinds", [])) + len(c.get("shapes", [])) > 0)
    if c["tool"] == "gerror":
        return bool(f.get("SkipConvertGen")) or len(c.get("shapes", [])) > 0
    return len(c.get("shapes", [])) > 0


def hist(it):
    h = {}
    for x in it:
        h[str(x)] = h.get(str(x), 0) + 1
    return h


def replay(ctx, path):
    """rebuild the recorded package on the current tree and show what the real generator does"""
    rep = json.load(open(path))
    case = rep.get("case", rep)
    spec = case.get("spec")
    if not spec:
        print(json.dumps(rep, indent=1))
        print("(no failing input recorded: %s)" % rep.get("unchecked"))
        return 0
    repo = ctx.copy_repo()
    clibin, log = bl.build_clis(ctx, repo)
    binp, log2 = ctx.build_harness("c13")
    if not clibin or not binp:
        print(log, log2)
        return 2
    spec["kind"] = "replay"
    _, cases, err, _ = bl.run_farm(ctx, binp, clibin, repo, "replay", "spec", [spec], ["-vet=false"])
    if err:
        print(err)
        return 2
    c = cases[0]
    print(json.dumps(bl.view(c), indent=1))
    print("outcome on the current tree:", c["obs"]["outcome"])
    return 1 if c["obs"]["outcome"] == "bad" else 0
