"""C13 — generators: every option combination yields code that builds."""
import glob
import json
import os

import build_lib as bl
import vlib

META = {
    "property_id": "C13",
    "level": "proof",
    "technique": "Coq theorems over the method tables and the basic-kind rendering that two translators "
                 "(text/template/parse, go/ast) regenerate from the templates, interfaces and "
                 "gencommon.ExtractTypeRef of the current tree on every run (finite sweeps over all option "
                 "settings lifted with forallb_forall; all go/types basic kinds) + a build farm that runs the "
                 "real genum/gerror/gsort CLIs through `go generate` on definition x option combinations "
                 "and judges exit status / gofmt -l / go build with compile-time interface assertions "
                 "inside Coq against the model's prediction",
    "design_ref": "DESIGN.md §4 C13",
    "level_text": "Proof (partial): Props/C13.v proves, for every one of the 2^5 genum switch settings x parsable "
                  "some/none, for gerror with and without skipConvertGen and for gsort value/pointer sorters, that "
                  "every method of genum.Enum, genum.TypedEnum and the requested json/text/yaml marshalers, of "
                  "gerror.Error/Factory (generated or promoted from GError; Convert/ConvertS not emitted under "
                  "skipConvertGen) and of sort.Interface is emitted by the template with a suitable receiver and "
                  "never twice, and that every basic kind a Go constant can have is rendered by ExtractTypeRef as "
                  "a predeclared Go type. The statements are proved for any table passing a boolean sweep and are "
                  "re-instantiated on every run with the tables regenerated from the current templates and "
                  "imports.go (closed under the global context). Whether the Go compiler accepts the whole "
                  "generated file and gofmt leaves it unchanged is runtime behaviour no Gallina model expresses: "
                  "that part is carried by the farm (real CLIs as go:generate subprocesses; all 32 genum settings; "
                  "trait types untyped/typed string, int, bool, rune, float, complex, renamed-import time.Duration, "
                  "imported reflect.Kind, local named types, other generated enums; gerror and gsort definitions), "
                  "every observation judged in Coq against the spec (error report or built package) and the model.",
    "level_note": "PARTIAL. The property's main clause — every documented-valid input either makes the generator "
                  "report an error or yields a gofmt-clean file that compiles — is NOT a theorem: "
                  "Props/C13.v states it as the Definition C13_full_statement over the real pipeline, which no "
                  "Gallina term defines; it is exercised by the farm only. What is proved are necessary "
                  "conditions over tables of func headers (name, receiver, parameter/result text, enclosing "
                  "guards) regenerated from the templates — no semantics of Go type checking, errors inside "
                  "function bodies are invisible to them —, the rendering of basic kinds, import activation "
                  "and the identifier scope check of the template skeleton. C13_fallback_flagged/_violation "
                  "and C13_predict_built are sanity lemmas about the judge's own definitions, not content. "
                  "The model's error predictions are computed in Coq from the definition the farm wrote "
                  "(GenBuildModel.derived_shapes: gsort through the C08 tag-parser/Validate model, gerror "
                  "embed/struct/tag options, genum trait-count / unnamed / parsable-uniqueness / case "
                  "collision); the shape tags of the harness are used only for the shapes owned by C12, on "
                  "which the model abstains (the specification still judges). "
                  "Trusted: Coq 8.16.1 kernel + vm_compute; the two stdlib-only translators (validated by the "
                  "farm: a table that mispredicts a build is a disagreement); the go/types basic-kind table read "
                  "from the toolchain; hand-written method lists of json/encoding/yaml.v3/sort interfaces (checked "
                  "by the farm's compile-time assertions); the Go toolchain (go generate, gofmt, go build) as the "
                  "oracle of the partial part; the farm harness. No axioms.",
    "allowed_axioms": [],
}

TRUSTED = [
    "Coq 8.16.1 kernel and VM (vm_compute); no axioms (Print Assumptions: closed under the global context)",
    "translators harness/cmd/xlate_tmpl_methods (text/template/parse, go/parser) and xlate_basic_kinds "
    "(go/parser, go/types table) — stdlib only; validated by the farm",
    "hand-written interpretation of template guards (GenBuildModel.emitted: per-type ranges, option flags; "
    "data-dependent guards count as not emitted)",
    "method lists of json.Marshaler/Unmarshaler, encoding.TextMarshaler/Unmarshaler, yaml.Marshaler/Unmarshaler, "
    "sort.Interface (hand-written; asserted at compile time in every farm package)",
    "Go 1.23 toolchain: go generate, gofmt -l, go build, go vet as oracles (compiler acceptance is not modelled)",
    "farm harness harness/cmd/c13 (definition renderer, shape classification, error classification)",
]


def corpus_specs():
    out = []
    for p in sorted(glob.glob(os.path.join(vlib.VERIF, "corpus", "C13", "*.json"))):
        s = json.load(open(p))
        s = s.get("spec", s)
        s["kind"] = "corpus"
        out.append(s)
    return out


HEADER = ("From Coq Require Import String List Bool ZArith.\nImport ListNotations.\n"
          "From GT Require Import GSortTagModel.\n"
          "From GT Require Import Base.Verdict GenBuildModel GenBuildJudge.\n"
          "From GTgen Require Import GenTables.\nLocal Open Scope string_scope.\n")
JUDGE = "gb_judge gen_tables gen_kinds gen_render"

VERDICT = {1: "the generator neither reported an error nor produced a gofmt-clean package that builds with the "
              "interface assertions",
           2: "observation satisfies the property but differs from the Coq model's prediction"}


def is_known(ctx, f):
    return any(fd.get("property") == ctx.pid and fd.get("status") == "open" and fd.get("match") and
               all(f.get(a) == b for a, b in fd["match"].items()) for fd in ctx.findings)


def own_findings(ctx):
    """entries of known_findings.d/C13.json that the merged known_findings.json does not hold yet"""
    p = os.path.join(vlib.VERIF, "known_findings.d", "C13.json")
    try:
        mine = json.load(open(p)).get("findings", [])
    except (OSError, ValueError):
        return
    have = {f.get("id") for f in ctx.findings if f.get("property") == "C13"}
    ctx.findings += [f for f in mine if f.get("id") not in have]


def run(ctx):
    own_findings(ctx)
    ctx.trusted = TRUSTED
    ctx.assumptions = [
        "documented-valid inputs: definition files in the shapes of genum/gerror/gsort's READMEs and fixtures; "
        "inputs the generators document as errors (inconsistent trait counts, unnamed traits, non-unique "
        "parsable values, unsupported tag options, missing GError, non-struct, duplicate priorities) must be "
        "reported as errors and are judged as such",
        "shapes owned by the genum trait-semantics property (C12) are judged against the spec only; the model abstains",
        "go vet diagnostics are recorded in the evidence, not gated (the property speaks about building and "
        "gofmt formatting; gofmt -l and go build gate)",
    ]
    quick = ctx.tier == "quick"
    # problems without a concrete failing input are deferred: failing inputs (verdict 1) are reported
    # first and take the replay slots; a deferred problem becomes a `no-failing-input-found` line only
    # when the (widened) farm run shows no unlisted verdict-1 case
    deferred = []

    def defer(rep, feat):
        deferred.append((rep, feat))
        ctx.log("deferred (no failing input yet): %s" % rep.get("unchecked"))

    ok, detail = ctx.proof_obligations()
    ctx.log("proof obligations:", "OK" if ok else "BROKEN", "-", detail.splitlines()[0])
    if not ok:
        defer({"unchecked": "theorem file Props/C13.v", "detail": detail}, {"kind": "proof_obligation"})
    repo = ctx.copy_repo()
    coq_judge = True
    tok, tdetail = bl.run_translators(ctx, repo)
    if tok:
        tie = bl.run_tie(ctx)
    else:
        defer({"unchecked": "translator tie (xlate_tmpl_methods / xlate_basic_kinds / interface signatures)",
               "detail": tdetail}, {"kind": "translator"})
        tie = {"ok": False, "broken": ["translator failed: " + tdetail.splitlines()[0]], "detail": tdetail,
               "translator_failed": True}
        # judge the farm against the hand copies instead, so that failing inputs are still found
        rc, o = ctx.coq_eval("GenTables", bl.HAND_TABLES, timeout=300)
        coq_judge = rc == 0
    ctx.log("tie over regenerated tables:", "OK" if tie["ok"] else "BROKEN - " + "; ".join(tie["broken"])[:600])
    if tie.get("same_as_hand"):
        ctx.log("regenerated tables equal the hand copies (templates, interface names, kinds, interface "
                "signatures):", tie["same_as_hand"])
    clibin, log = bl.build_clis(ctx, repo)
    binp, hlog = (None, "") if not clibin else ctx.build_harness("c13")
    if not clibin or not binp:
        defer({"unchecked": "building the generator CLIs / the farm harness from the current tree",
               "detail": (log or hlog)[-3000:]}, {"kind": "build"})
        for rep, feat in deferred:
            ctx.report(rep, feat, failing_input=False)
        return

    def farm(tag, mode, specs=None, extra=()):
        res = bl.run_farm(ctx, binp, clibin, repo, tag, mode, specs, extra)
        for line in (res["log"] or "").splitlines():
            if line.startswith("c13:"):
                ctx.log(tag, line)
        return res

    def judge(terms, cases, tag):
        """[(index, code)]: inside Coq; when the Coq side itself is broken, the spec alone
        (outcome bad) is applied here so that failing inputs are still found"""
        if coq_judge:
            bad, nt, err = ctx.judge_cases(HEADER, "gb_case", JUDGE, terms, shard=400,
                                           nontrivial="gb_nontrivial", tag=tag)
            if not err:
                return bad, nt
            defer({"unchecked": "in-kernel evaluation of the farm observations", "detail": err},
                  {"kind": "coq_eval"})
        return [(i, 1) for i, c in enumerate(cases) if c["obs"]["outcome"] == "bad"], 0

    def farm_runner(tag, specs):
        r = bl.run_farm(ctx, binp, clibin, repo, tag, "spec", specs, ["-vet=false"])
        return None if r["err"] else r["cases"]

    cs = corpus_specs()
    res = farm("main", "quick" if quick else "thorough", cs or None, ["-vet=true"])
    if res["err"]:
        defer({"unchecked": "farm run", "detail": res["err"]}, {"kind": "harness"})
        for rep, feat in deferred:
            ctx.report(rep, feat, failing_input=False)
        return
    terms, cases = res["terms"], res["cases"]
    cprob = bl.canary_problems(res["canaries"])
    if cprob:
        defer({"unchecked": "the farm's own observation pipeline (canary packages: unformatted file, syntax "
                            "error, type error, good file)", "detail": cprob}, {"kind": "canary"})
    bad, nt = judge(terms, cases, "farm")

    def group(bad, cases, groups, order):
        for i, code in bad:
            c = cases[i]
            if code == 1:
                feats = bl.problems(c)
            else:
                feats = [{"tool": c["tool"], "shape": "", "error_class": "model_disagreement",
                          "detail": "observed %s%s" % (c["obs"]["outcome"],
                                                       ", format fallback" if c["obs"].get("format_fallback") else ""),
                          "where": ""}]
            for f in feats:
                k = json.dumps(f, sort_keys=True)
                if k not in groups:
                    groups[k] = (f, code, [])
                    order.append(k)
                groups[k][2].append(c)

    groups, order = {}, []
    group(bad, cases, groups, order)

    def out_of_domain(k):
        return groups[k][0].get("error_class") == "invalid_definition"

    def unlisted_v1():
        return [k for k in order if groups[k][1] == 1 and not is_known(ctx, groups[k][0])
                and not out_of_domain(k)]

    # widened farm run (quick tier): something is wrong (broken obligation / tie / translator, or a
    # verdict-2 disagreement) but no concrete failing input has shown up yet
    need_witness = bool(deferred) or not tie["ok"] or any(groups[k][1] == 2 for k in order)
    widened = None
    if quick and need_witness and not unlisted_v1():
        masks = bl.settings_masks(tie.get("broken", []))
        extra = ["-vet=false", "-subsets", "1", "-max", "400"]
        if masks:
            extra += ["-settings", ",".join(str(m) for m in masks)]
        ctx.log("no failing input yet: widened farm run (thorough catalogue, %s)" % (
            "settings " + ",".join(str(m) for m in masks) if masks else "seeded sample of 400"))
        wres = farm("widen", "thorough", None, extra)
        if not wres["err"]:
            wbad, _ = judge(wres["terms"], wres["cases"], "widen")
            group(wbad, wres["cases"], groups, order)
            widened = {"packages": len(wres["cases"]), "disagreements": len(wbad)}
            cases = cases + wres["cases"]

    v1u = unlisted_v1()
    ood = [k for k in order if out_of_domain(k)]
    for k in ood:
        ctx.log("out of domain (never gates): %d package(s) whose definition file itself does not compile: %s" % (
            len(groups[k][2]), [c.get("label") for c in groups[k][2]][:5]))
    v1k = [k for k in order if groups[k][1] == 1 and k not in v1u and k not in ood]
    v2 = [k for k in order if groups[k][1] == 2]
    # representatives: smallest definition of each group, unlisted verdict-1 groups minimised on the
    # real generators (at most five = the replay slots, in parallel)
    reps = {k: min(groups[k][2], key=lambda c: len(json.dumps(c["spec"]))) for k in order}
    todo = v1u[:5]
    if todo:
        import concurrent.futures
        with concurrent.futures.ThreadPoolExecutor(max_workers=5) as ex:
            futs = {k: ex.submit(bl.minimise, ctx, farm_runner, reps[k], groups[k][0],
                                 8 if quick else 14, "g%d" % n) for n, k in enumerate(todo)}
            for k, fu in futs.items():
                reps[k] = fu.result()

    def rep_of(k):
        f, code, cs_ = groups[k]
        return {"case": bl.view(reps[k]), "verdict": VERDICT[code], "problem": f,
                "cases_with_this_problem": len(cs_), "replay_cmd": "./check C13 --replay <this file>"}

    # 1. concrete failing inputs first (they take the replay slots), 2. known findings,
    # 3. only without an unlisted failing input: verdict-2 cases and deferred problems
    for k in v1u:
        ctx.report(rep_of(k), groups[k][0], failing_input=True)
    for k in v1k:
        ctx.report(rep_of(k), groups[k][0], failing_input=True)
    secondary = []
    if not tie["ok"] and not tie.get("translator_failed"):
        deferred.append(({"unchecked": "theorems C13_methods_current_tree / C13_basic_kinds_current_tree over "
                                       "the tables regenerated from the current tree",
                          "model_side_witness": tie["broken"], "detail": tie.get("detail", "")}, {"kind": "tie"}))
    if v1u:
        for k in v2:
            secondary.append({"problem": groups[k][0], "cases": len(groups[k][2])})
        for rep, feat in deferred:
            secondary.append({"problem": feat, "unchecked": rep.get("unchecked"),
                              "witness": rep.get("model_side_witness")})
        if secondary:
            ctx.log("%d further problem(s) without a failing input of their own are witnessed by / listed next "
                    "to the failing inputs above (evidence: secondary_problems): %s" % (
                        len(secondary), "; ".join(str(x.get("unchecked") or x["problem"]) for x in secondary)[:500]))
    else:
        for rep, feat in deferred:
            if widened is not None:
                rep = dict(rep, widened_farm_run=widened)
            ctx.report(rep, feat, failing_input=False)
        for k in v2:
            ctx.report(rep_of(k), groups[k][0], failing_input=False)

    genum = [c for c in cases if c["tool"] == "genum"]
    settings = {tuple(sorted(c["flags"].items())) for c in genum}
    vet = {}
    for c in cases:
        for line in c["obs"].get("vet") or []:
            msg = line.split(": ", 1)[-1].strip()
            if msg and not msg.startswith("#"):
                vet.setdefault(msg, []).append("%s %s" % (c.get("label"), c.get("go_generate")))
    ctx.cov.update({
        "evaluations": len(cases),
        "distinct_nontrivial": vlib.distinct_count(
            [[c["tool"], c.get("label"), c.get("flags"), c["spec"].get("genum_opts", {}).get("parsableByTraits"),
              c["spec"].get("gerror", {}).get("skipConvertGen")] for c in cases if nontrivial(c)]),
        "nontrivial_counted_in_coq": nt,
        "type_refs_compared": sum(len(c.get("type_refs") or []) for c in cases),
        "rule": "one case = one package (definition + go:generate options) run through the real CLI, gofmt -l and "
                "go build with interface assertions; non-trivial = some option differs from its default, or a "
                "parsable trait is requested, or the definition has a trait of basic kind / a recorded shape "
                "(gb_nontrivial, counted inside Coq as nontrivial_counted_in_coq); distinct by (tool, definition, "
                "flags, parsable list)",
        "genum_settings_covered": len(settings),
        "exhaustive": (not quick),
        "exhaustive_note": "all 32 json/yaml/text/caseInsensitive/disableTraits settings are covered in both tiers; "
                           "thorough crosses every catalogue definition with all 32 settings and the subsets of "
                           "value-distinct parsable traits (capped per definition)",
        "gating": "generator exit status, output file written, gofmt -l, go build with interface assertions; "
                  "go vet is recorded only",
        "by_tool_outcome": hist("%s/%s/%s" % (c["tool"], c["kind"], c["obs"]["outcome"]) for c in cases),
        "by_label": hist(c.get("label") for c in cases),
        "trait_kind_histogram": hist(k for c in genum for k in c.get("trait_kinds", [])),
        "shape_histogram": hist(s for c in cases for s in c.get("shapes", [])),
        "parsable_some": sum(1 for c in genum if c.get("parsable_some")),
        "format_fallback_runs": sum(1 for c in cases if c["obs"].get("format_fallback")),
        "vet_complaints_on_built_packages": sum(1 for c in cases if c["obs"].get("vet")),
        "vet_findings": [{"message": m, "packages": len(v), "example": v[0]} for m, v in sorted(vet.items())][:20],
        "canaries": {"checked": len(res["canaries"]), "problems": cprob},
        "tie": {"ok": tie["ok"], "broken": tie["broken"], "same_as_hand": tie.get("same_as_hand"),
                "render_expr": tie.get("render"), "interface_signature_tables_cover": tie.get("isigs_cover")},
        "widened_farm_run": widened,
        "secondary_problems": secondary,
        "out_of_domain_invalid_definitions": sum(len(groups[k][2]) for k in ood),
        "samples": [bl.view(c) for c in (cases[:2] + cases[-2:])],
        "disagreements": len(bad),
        "generate_seconds_median": sorted(c["obs"]["secs"] for c in cases)[len(cases) // 2] if cases else 0,
    })
    ctx.log("farm: %d packages (%d genum settings), %d problem group(s): %d failing-input, %d known, %d model-only" % (
        len(cases), len(settings), len(order), len(v1u), len(v1k), len(v2)))


def nontrivial(c):
    """python mirror of GenBuildJudge.gb_nontrivial (the Coq count is reported next to it)"""
    f = c.get("flags", {})
    if c["tool"] == "genum":
        return (not (f.get("GenJSON") and f.get("GenYAML") and f.get("GenText")) or f.get("CaseInsensitive")
                or f.get("DisableTraits") or c.get("parsable_some")
                or len(c.get("trait_kinds", [])) + len(c.get("shapes", [])) > 0)
    if c["tool"] == "multi":
        return True
    if c["tool"] == "gerror":
        return bool(f.get("SkipConvertGen")) or len(c.get("shapes", [])) > 0
    return len(c.get("shapes", [])) > 0


def hist(it):
    h = {}
    for x in it:
        h[str(x)] = h.get(str(x), 0) + 1
    return h


def replay(ctx, path):
    """rebuild the recorded package on the current tree and show what the real generator does"""
    rep = json.load(open(path))
    case = rep.get("case", rep)
    spec = case.get("spec")
    if not spec:
        print(json.dumps(rep, indent=1))
        print("(no failing input recorded: %s)" % rep.get("unchecked"))
        return 0
    repo = ctx.copy_repo()
    clibin, log = bl.build_clis(ctx, repo)
    binp, log2 = ctx.build_harness("c13")
    if not clibin or not binp:
        print(log, log2)
        return 2
    spec["kind"] = "replay"
    r = bl.run_farm(ctx, binp, clibin, repo, "replay", "spec", [spec], ["-vet=false"])
    if r["err"]:
        print(r["err"])
        return 2
    cases = r["cases"]
    c = cases[0]
    print(json.dumps(bl.view(c), indent=1))
    print("outcome on the current tree:", c["obs"]["outcome"])
    return 1 if c["obs"]["outcome"] == "bad" else 0
