(* Tie_C19.v — translator tie (T) for C19.  Compiled on every run of ./check C19 against
   GTgen.ParamsGen, the Gallina file regenerated from gencommon/params.go and method.go of the
   current tree by harness/cmd/xlate_params.  Each lemma states that a regenerated function
   equals, FOR ALL ARGUMENTS, the hand-written model (IFaceModel.v) that C19_names (Props/C19.v) is
   about, so the theorem holds of what the source says now.

   The tie is semantic, not an eq_refl between two terms:
   * the translator finds the functions by role (signature shape), not by name, translates every
     helper the code calls (Ltac unfold_gen_helpers, generated, unfolds them), and renders
     early-continue / guard clauses / tagless switch / index loops / `for { … break }` as the
     nested ifs, range loops and flagged while loops they abbreviate;
   * the loop lemmas below are stated over ANY loop body that agrees pointwise with the model's step
     (and over any arrangement of the three state components of the numbering loop), and the
     pointwise agreements are proved by exhaustive case analysis on the booleans involved, not by
     matching the let layout.
   So a rename, an extracted helper, a reordered condition or another loop form leaves the tie
   intact, while a change of the computed function (another literal, another order of effects, a
   dropped reservation) breaks it.                                                            *)
From Coq Require Import List Bool String NArith Arith.
Import ListNotations.
From GT Require Import IFaceModel IFaceGenPrims.
From GTgen Require Import ParamsGen.
Local Open Scope string_scope.

Ltac unfold_prims :=
  unfold map_get, map_has, map_set, map_empty, loop_fuel, fmt_int,
         type_implements_error, type_implements_context in *.

(* ------------------------------------------------------------------ the numbering loop *)
(* `for taken := true; taken; _, taken = d[result] { result = name + itoa(v); v++ }`, or
   `for { result = name + itoa(v); v++; if _, taken := d[result]; !taken { break } }`: a while loop
   whose state holds, in some arrangement [abs], the candidate, the "go on" flag and the counter *)
Lemma loop_number_abs {St : Type} (abs : St -> string * bool * N) (unabs : string * bool * N -> St)
      d name (cond : St -> bool) (body : St -> St) :
  (forall s, unabs (abs s) = s) ->
  (forall s, cond s = snd (fst (abs s))) ->
  (forall s, abs (body s) = (name ++ itoa (snd (abs s)), dmem d (name ++ itoa (snd (abs s))), N.succ (snd (abs s)))) ->
  forall f s0, snd (fst (abs s0)) = true ->
    while_loop (S f) cond body s0 =
    unabs (let '(r, v') := number_name f d name (snd (abs s0)) in (r, dmem d r, v')).
Proof.
  intros Hu Hc Hb. induction f as [|f IH]; intros s0 H0.
  - cbn [while_loop number_name]. rewrite Hc, H0. rewrite <- (Hu (body s0)), Hb. reflexivity.
  - change (while_loop (S (S f)) cond body s0)
      with (if cond s0 then while_loop (S f) cond body (body s0) else s0).
    rewrite Hc, H0. cbn [number_name].
    destruct (dmem d (name ++ itoa (snd (abs s0)))) eqn:E.
    + rewrite IH; [|rewrite Hb; exact E]. rewrite Hb. reflexivity.
    + cbn [while_loop]. rewrite Hc, Hb. cbn [fst snd]. rewrite E.
      rewrite <- (Hu (body s0)), Hb, E. reflexivity.
Qed.

(* the six arrangements of (candidate : string, flag : bool, counter : N) *)
Definition abs_sbn (s : string * bool * N) := s.
Definition abs_snb (s : string * N * bool) := let '(r, v, t) := s in (r, t, v).
Definition abs_bsn (s : bool * string * N) := let '(t, r, v) := s in (r, t, v).
Definition abs_bns (s : bool * N * string) := let '(t, v, r) := s in (r, t, v).
Definition abs_nsb (s : N * string * bool) := let '(v, r, t) := s in (r, t, v).
Definition abs_nbs (s : N * bool * string) := let '(v, t, r) := s in (r, t, v).
Definition unabs_sbn (s : string * bool * N) := s.
Definition unabs_snb (s : string * bool * N) := let '(r, t, v) := s in (r, v, t).
Definition unabs_bsn (s : string * bool * N) := let '(r, t, v) := s in (t, r, v).
Definition unabs_bns (s : string * bool * N) := let '(r, t, v) := s in (t, v, r).
Definition unabs_nsb (s : string * bool * N) := let '(r, t, v) := s in (v, r, t).
Definition unabs_nbs (s : string * bool * N) := let '(r, t, v) := s in (v, t, r).

Ltac abs_red :=
  cbv beta iota zeta delta [abs_sbn abs_snb abs_bsn abs_bns abs_nsb abs_nbs
                            unabs_sbn unabs_snb unabs_bsn unabs_bns unabs_nsb unabs_nbs fst snd].

Ltac loop_side :=
  intros;
  repeat match goal with s : (_ * _)%type |- _ => destruct s end;
  abs_red; try reflexivity;
  repeat (match goal with |- context [dmem ?d ?k] => destruct (dmem d k) end; abs_red; cbn [negb]);
  reflexivity.

Ltac number_loop d name :=
  first [ rewrite (loop_number_abs abs_sbn unabs_sbn d name) by loop_side
        | rewrite (loop_number_abs abs_snb unabs_snb d name) by loop_side
        | rewrite (loop_number_abs abs_bsn unabs_bsn d name) by loop_side
        | rewrite (loop_number_abs abs_bns unabs_bns d name) by loop_side
        | rewrite (loop_number_abs abs_nsb unabs_nsb d name) by loop_side
        | rewrite (loop_number_abs abs_nbs unabs_nbs d name) by loop_side ].

Lemma tie_reserveParamName : forall d n, gen_reserveParamName d n = (n, reserve d n).
Proof.
  intros d n. unfold gen_reserveParamName, reserve. unfold_gen_helpers. unfold_prims. cbv zeta.
  destruct (dmem d n); reflexivity.
Qed.

Lemma tie_getSafeParamName : forall d name always,
  gen_getSafeParamName d name always = get_safe_param_name d name always.
Proof.
  intros d name always.
  unfold gen_getSafeParamName, get_safe_param_name. unfold_gen_helpers. unfold_prims. cbv zeta.
  destruct (dmem d name) eqn:Ed; destruct always; cbn [orb andb negb];
    first [ reflexivity
          | number_loop d name; abs_red;
            destruct (number_name (S (List.length d)) d name
                        match dget d name with Some v => v | None => 0%N end) as [r v'];
            reflexivity ].
Qed.

(* ------------------------------------------------------------------ the range loops *)
(* `for _, p := range ps` of keepNames, whatever its body looks like *)
Lemma range_keep (F : dmap -> nat -> pinfo -> pinfo * dmap) :
  (forall d i p, F d i p =
     if unnamed (pi_name p) then (p, d)
     else let '(n, d1) := get_safe_param_name d (pi_name p) false in (set_name p n, reserve d1 n)) ->
  forall ps d i, range_upd_from F i ps d = keep_names d ps.
Proof.
  intros HF. induction ps as [|p r IH]; intros d i; cbn [range_upd_from keep_names]; [reflexivity|].
  rewrite HF. destruct (unnamed (pi_name p)).
  - rewrite IH. reflexivity.
  - destruct (get_safe_param_name d (pi_name p) false) as [n d1]. rewrite IH. reflexivity.
Qed.

Ltac split_name p :=
  destruct (String.eqb (pi_name p) "") eqn:?; destruct (String.eqb (pi_name p) "_") eqn:?;
  cbn [negb andb orb].

Ltac finish_step d0 :=
  try reflexivity;
  match goal with
  | |- context [get_safe_param_name d0 ?b ?a] =>
      destruct (get_safe_param_name d0 b a) as [n d1]; cbv beta iota;
      rewrite ?tie_reserveParamName; reflexivity
  end.

Lemma tie_keepNames : forall ps d, gen_keepNames ps d = keep_names d ps.
Proof.
  intros ps d. unfold gen_keepNames, range_upd. rewrite range_keep.
  - destruct (keep_names d ps). reflexivity.
  - intros d0 i p. cbv beta zeta. unfold_gen_helpers. unfold unnamed. cbv zeta.
    rewrite ?tie_getSafeParamName. split_name p; finish_step d0.
Qed.

(* `for i, p := range ps` / `for i := 0; i < len(ps); i++` of ensureNames *)
Lemma range_ensure o len (F : dmap -> nat -> pinfo -> pinfo * dmap) :
  (forall d i p, F d i p =
     if unnamed (pi_name p)
     then let '(base, always) := gen_choice o len i p in
          let '(n, d1) := get_safe_param_name d base always in (set_name p n, reserve d1 n)
     else (p, d)) ->
  forall ps d i, range_upd_from F i ps d = ensure_names_from d o len i ps.
Proof.
  intros HF. induction ps as [|p r IH]; intros d i; cbn [range_upd_from ensure_names_from]; [reflexivity|].
  rewrite HF. destruct (unnamed (pi_name p)).
  - destruct (gen_choice o len i p) as [base always].
    destruct (get_safe_param_name d base always) as [n d1]. rewrite IH. reflexivity.
  - rewrite IH. reflexivity.
Qed.

Lemma tie_ensureNames : forall ps d o, gen_ensureNames ps d o = ensure_names d o ps.
Proof.
  intros ps d o. unfold gen_ensureNames, ensure_names, range_upd. unfold_gen_helpers. cbv zeta.
  rewrite (range_ensure o (List.length ps)).
  - destruct (ensure_names_from d o (List.length ps) 0 ps). reflexivity.
  - intros d0 i p. cbv beta zeta. unfold_gen_helpers. unfold unnamed, gen_choice. unfold_prims. cbv zeta.
    rewrite ?tie_getSafeParamName.
    split_name p; try reflexivity;
      destruct o; destruct (Nat.eqb (List.length ps - 1) i); destruct (pi_err p);
      destruct (Nat.eqb i 0); destruct (pi_ctx p); cbn [negb andb orb]; finish_step d0.
Qed.

Lemma tie_ensureParamNames : forall ins outs,
  gen_ensureParamNames ins outs = ensure_param_names ins outs.
Proof.
  intros ins outs. unfold gen_ensureParamNames, ensure_param_names. unfold_gen_helpers. unfold map_empty.
  cbv zeta.
  rewrite tie_keepNames. destruct (keep_names [] ins) as [ins1 d1].
  rewrite tie_keepNames. destruct (keep_names d1 outs) as [outs1 d2].
  rewrite tie_ensureNames. destruct (ensure_names d2 false ins1) as [ins2 d3].
  rewrite tie_ensureNames. destruct (ensure_names d3 true outs1) as [outs2 d4]. reflexivity.
Qed.

(* hence the names the current source assigns are the ones C19_names speaks about *)
Theorem tie_final_names : forall ins outs,
  (let '(i, o) := gen_ensureParamNames ins outs in map pi_name (i ++ o)) = final_names ins outs.
Proof. intros ins outs. rewrite tie_ensureParamNames. reflexivity. Qed.

(* ------------------------------------------------------------------ ImportString (imports.go) *)
Lemma app_assoc_s : forall a b c : string, ((a ++ b) ++ c)%string = (a ++ (b ++ c))%string.
Proof. induction a as [|x a IH]; intros b c; simpl; [reflexivity|]. rewrite IH. reflexivity. Qed.

(* whatever way the line is put together: same text *)
Lemma tie_ImportString : forall i, gen_ImportString i = import_string i.
Proof.
  intros i. unfold gen_ImportString, import_string. unfold_gen_helpers. cbv zeta.
  destruct (i_alias_is_pkg i); cbn [negb]; repeat rewrite app_assoc_s; cbn [append]; reflexivity.
Qed.

(* ------------------------------------------------------------------ the merge loop (interface.go) *)
(* Go's map[string]*Method against the model's first-seen list of candidates *)
Definition keyed {A : Type} (name : A -> string) (l : list A) : list (string * A) :=
  map (fun x => (name x, x)) l.

Lemma mmap_has_keyed {A} (name : A -> string) l k :
  mmap_has (keyed name l) k = existsb (fun x => String.eqb (name x) k) l.
Proof. unfold mmap_has, keyed. induction l as [|x r IH]; simpl; [reflexivity|]. rewrite IH. reflexivity. Qed.

Lemma mmap_del_keyed {A} (name : A -> string) l k :
  mmap_del (keyed name l) k = keyed name (filter (fun x => negb (String.eqb (name x) k)) l).
Proof.
  unfold mmap_del, keyed. induction l as [|x r IH]; simpl; [reflexivity|].
  destruct (String.eqb (name x) k); simpl; rewrite IH; reflexivity.
Qed.

Lemma mmap_set_keyed_new {A} (name : A -> string) l (m : A) :
  existsb (fun x => String.eqb (name x) (name m)) l = false ->
  mmap_set (keyed name l) (name m) m = keyed name (l ++ [m]).
Proof.
  intros H. unfold mmap_set. rewrite mmap_has_keyed, H. unfold keyed. rewrite map_app. reflexivity.
Qed.

(* one step of the loop over an embedded field's methods = merge_one, for every state *)
Lemma tie_merge_step : forall (A : Type) (name : A -> string) toadd ign (m : A),
  gen_merge_step name (keyed name toadd) ign m =
  (keyed name (fst (merge_one name (toadd, ign) m)), snd (merge_one name (toadd, ign) m)).
Proof.
  intros A name toadd ign m. unfold gen_merge_step, merge_one, mset_has, mset_add. unfold_gen_helpers.
  cbv zeta. rewrite ?mmap_has_keyed.
  destruct (mem (name m) ign) eqn:Ei;
    destruct (existsb (fun x => String.eqb (name x) (name m)) toadd) eqn:Et;
    cbn [fst snd negb andb orb];
    rewrite ?mmap_del_keyed, ?(mmap_set_keyed_new name toadd m Et); reflexivity.
Qed.

(* hence the whole loop = merge, the function C19_embedded is proved about *)
Theorem tie_merge : forall (A : Type) (name : A -> string) (ms : list A) toadd ign,
  fold_left (fun st m => gen_merge_step name (fst st) (snd st) m) ms (keyed name toadd, ign) =
  (keyed name (fst (merge name (toadd, ign) ms)), snd (merge name (toadd, ign) ms)).
Proof.
  intros A name. unfold merge. induction ms as [|m r IH]; intros toadd ign; cbn [fold_left]; [reflexivity|].
  cbn [fst snd]. rewrite tie_merge_step. destruct (merge_one name (toadd, ign) m) as [ta ig]. apply IH.
Qed.

(* the condition under which a declared method is listed = visible *)
Lemma tie_visible : forall priv m, is_meth m = true ->
  gen_visible priv (exported (m_name m)) = visible priv m.
Proof.
  intros priv m H. unfold gen_visible, visible. rewrite H. destruct priv; destruct (exported (m_name m)); reflexivity.
Qed.

Print Assumptions tie_final_names.
Print Assumptions tie_ImportString.
Print Assumptions tie_merge.
Print Assumptions tie_visible.
