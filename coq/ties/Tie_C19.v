(* Tie_C19.v — translator tie (T) for C19.  Compiled on every run of ./check C19 against
   GTgen.ParamsGen, the Gallina file regenerated from gencommon/params.go and method.go of the
   current tree by harness/cmd/xlate_params.  Each lemma states that a regenerated function
   equals the hand-written model (IFaceModel.v) that C19_names (Props/C19.v) is about, so the
   theorem holds of what the source says now.  The helper lemmas are stated over arbitrary
   loop bodies that agree pointwise with the model's step, so that the tie does not depend on
   how the translator happens to lay out its lets.                                          *)
From Coq Require Import List Bool String NArith Arith.
Import ListNotations.
From GT Require Import IFaceModel IFaceGenPrims.
From GTgen Require Import ParamsGen.
Local Open Scope string_scope.

(* the numbering loop: `for taken := true; taken; _, taken = d[result] { result = name + itoa(v); v++ }` *)
Lemma loop_number d name (cond : string * bool * N -> bool) (body : string * bool * N -> string * bool * N) :
  (forall r t v, cond (r, t, v) = t) ->
  (forall r t v, body (r, t, v) = (name ++ itoa v, dmem d (name ++ itoa v), N.succ v)) ->
  forall f v r0,
    while_loop (S f) cond body (r0, true, v) =
    let '(r, v') := number_name f d name v in (r, dmem d r, v').
Proof.
  intros Hc Hb. induction f as [|f IH]; intros v r0.
  - cbn [while_loop number_name]. rewrite Hc, Hb. reflexivity.
  - change (while_loop (S (S f)) cond body (r0, true, v))
      with (if cond (r0, true, v) then while_loop (S f) cond body (body (r0, true, v)) else (r0, true, v)).
    rewrite Hc, Hb. cbn [number_name].
    destruct (dmem d (name ++ itoa v)) eqn:E.
    + apply IH.
    + cbn [while_loop]. rewrite Hc, E. reflexivity.
Qed.

Lemma tie_reserveParamName : forall d n, gen_reserveParamName d n = (n, reserve d n).
Proof.
  intros d n. unfold gen_reserveParamName, reserve, map_has, map_set. cbv zeta.
  destruct (dmem d n); reflexivity.
Qed.

Lemma tie_getSafeParamName : forall d name always,
  gen_getSafeParamName d name always = get_safe_param_name d name always.
Proof.
  intros d name always.
  unfold gen_getSafeParamName, get_safe_param_name, map_get, map_has, map_set, loop_fuel, fmt_int.
  cbv zeta. destruct (dmem d name || always).
  - rewrite (loop_number d name); [|intros; reflexivity|intros; reflexivity].
    destruct (number_name (S (List.length d)) d name
                match dget d name with Some v => v | None => 0%N end) as [r v']. reflexivity.
  - reflexivity.
Qed.

(* `for _, p := range ps` of keepNames *)
Lemma range_keep (F : dmap -> nat -> pinfo -> pinfo * dmap) :
  (forall d i p, F d i p =
     if unnamed (pi_name p) then (p, d)
     else let '(n, d1) := get_safe_param_name d (pi_name p) false in (set_name p n, reserve d1 n)) ->
  forall ps d i, range_upd_from F i ps d = keep_names d ps.
Proof.
  intros HF. induction ps as [|p r IH]; intros d i; cbn [range_upd_from keep_names]; [reflexivity|].
  rewrite HF. destruct (unnamed (pi_name p)).
  - rewrite IH. reflexivity.
  - destruct (get_safe_param_name d (pi_name p) false) as [n d1]. rewrite IH. reflexivity.
Qed.

Lemma tie_keepNames : forall ps d, gen_keepNames ps d = keep_names d ps.
Proof.
  intros ps d. unfold gen_keepNames, range_upd. rewrite range_keep.
  - destruct (keep_names d ps). reflexivity.
  - intros d0 i p. cbv beta zeta. unfold unnamed.
    rewrite tie_getSafeParamName.
    destruct (String.eqb (pi_name p) ""); destruct (String.eqb (pi_name p) "_"); cbn [negb andb orb];
      try reflexivity.
    destruct (get_safe_param_name d0 (pi_name p) false) as [n d1].
    rewrite tie_reserveParamName. reflexivity.
Qed.

(* `for i, p := range ps` of ensureNames *)
Lemma range_ensure o len (F : dmap -> nat -> pinfo -> pinfo * dmap) :
  (forall d i p, F d i p =
     if unnamed (pi_name p)
     then let '(base, always) := gen_choice o len i p in
          let '(n, d1) := get_safe_param_name d base always in (set_name p n, reserve d1 n)
     else (p, d)) ->
  forall ps d i, range_upd_from F i ps d = ensure_names_from d o len i ps.
Proof.
  intros HF. induction ps as [|p r IH]; intros d i; cbn [range_upd_from ensure_names_from]; [reflexivity|].
  rewrite HF. destruct (unnamed (pi_name p)).
  - destruct (gen_choice o len i p) as [base always].
    destruct (get_safe_param_name d base always) as [n d1]. rewrite IH. reflexivity.
  - rewrite IH. reflexivity.
Qed.

Lemma tie_ensureNames : forall ps d o, gen_ensureNames ps d o = ensure_names d o ps.
Proof.
  intros ps d o. unfold gen_ensureNames, ensure_names, range_upd. cbv zeta.
  rewrite (range_ensure o (List.length ps)).
  - destruct (ensure_names_from d o (List.length ps) 0 ps). reflexivity.
  - intros d0 i p. cbv beta zeta. unfold unnamed, gen_choice, type_implements_error, type_implements_context.
    destruct (String.eqb (pi_name p) "" || String.eqb (pi_name p) "_"); [|reflexivity].
    destruct (o && Nat.eqb (List.length ps - 1) i && pi_err p).
    + rewrite tie_getSafeParamName. destruct (get_safe_param_name d0 "err" false) as [n d1].
      rewrite tie_reserveParamName. reflexivity.
    + destruct (negb o && Nat.eqb i 0 && pi_ctx p).
      * rewrite tie_getSafeParamName. destruct (get_safe_param_name d0 "ctx" false) as [n d1].
        rewrite tie_reserveParamName. reflexivity.
      * rewrite tie_getSafeParamName. destruct o.
        -- destruct (get_safe_param_name d0 "ret" true) as [n d1]. rewrite tie_reserveParamName. reflexivity.
        -- destruct (get_safe_param_name d0 "arg" true) as [n d1]. rewrite tie_reserveParamName. reflexivity.
Qed.

Lemma tie_ensureParamNames : forall ins outs,
  gen_ensureParamNames ins outs = ensure_param_names ins outs.
Proof.
  intros ins outs. unfold gen_ensureParamNames, ensure_param_names, map_empty.
  rewrite tie_keepNames. destruct (keep_names [] ins) as [ins1 d1].
  rewrite tie_keepNames. destruct (keep_names d1 outs) as [outs1 d2].
  rewrite tie_ensureNames. destruct (ensure_names d2 false ins1) as [ins2 d3].
  rewrite tie_ensureNames. destruct (ensure_names d3 true outs1) as [outs2 d4]. reflexivity.
Qed.

(* hence the names the current source assigns are the ones C19_names speaks about *)
Theorem tie_final_names : forall ins outs,
  (let '(i, o) := gen_ensureParamNames ins outs in map pi_name (i ++ o)) = final_names ins outs.
Proof. intros ins outs. rewrite tie_ensureParamNames. reflexivity. Qed.

Print Assumptions tie_final_names.
