(* Tie_C19.v — translator tie (T) for C19.  Compiled on every run of ./check C19 against
   GTgen.ParamsGen, the Gallina file regenerated from gencommon/params.go and method.go of the
   current tree by harness/cmd/xlate_params.  Each lemma states that a regenerated function
   equals, FOR ALL ARGUMENTS, the hand-written model (IFaceModel.v) that C19_names (Props/C19.v) is
   about, so the theorem holds of what the source says now.

   The tie is semantic, not an eq_refl between two terms:
   * the translator finds the functions by role (signature shape), not by name, translates every
     helper the code calls (Ltac unfold_gen_helpers, generated, unfolds them), and renders
     early-continue / guard clauses / tagless switch / index loops / `for { … break }` as the
     nested ifs, range loops and flagged while loops they abbreviate;
   * the loop lemmas below are stated over ANY loop body that agrees pointwise with the model's step
     (and over any arrangement of the three state components of the numbering loop), and the
     pointwise agreements are proved by exhaustive case analysis on the booleans involved, not by
     matching the let layout.
   So a rename, an extracted helper, a reordered condition or another loop form leaves the tie
   intact, while a change of the computed function (another literal, another order of effects, a
   dropped reservation) breaks it.                                                            *)
From Coq Require Import List Bool String NArith Arith Lia.
Import ListNotations.
From GT Require Import IFaceModel IFaceNamesProofs IFaceRefProofs IFaceAliasProofs IFaceGenPrims.
From GTgen Require Import ParamsGen.
Local Open Scope string_scope.

Ltac unfold_prims :=
  unfold map_get, map_has, map_set, map_empty, loop_fuel, fmt_int,
         type_implements_error, type_implements_context in *.

(* ------------------------------------------------------------------ the numbering loop *)
(* `for taken := true; taken; _, taken = d[result] { result = name + itoa(v); v++ }`, or
   `for { result = name + itoa(v); v++; if _, taken := d[result]; !taken { break } }`: a while loop
   whose state holds, in some arrangement [abs], the candidate, the "go on" flag and the counter *)
Lemma loop_number_abs {St : Type} (abs : St -> string * bool * N) (unabs : string * bool * N -> St)
      d name (cond : St -> bool) (body : St -> St) :
  (forall s, unabs (abs s) = s) ->
  (forall s, cond s = snd (fst (abs s))) ->
  (forall s, abs (body s) = (name ++ itoa (snd (abs s)), dmem d (name ++ itoa (snd (abs s))), N.succ (snd (abs s)))) ->
  forall f s0, snd (fst (abs s0)) = true ->
    while_loop (S f) cond body s0 =
    unabs (let '(r, v') := number_name f d name (snd (abs s0)) in (r, dmem d r, v')).
Proof.
  intros Hu Hc Hb. induction f as [|f IH]; intros s0 H0.
  - cbn [while_loop number_name]. rewrite Hc, H0. rewrite <- (Hu (body s0)), Hb. reflexivity.
  - change (while_loop (S (S f)) cond body s0)
      with (if cond s0 then while_loop (S f) cond body (body s0) else s0).
    rewrite Hc, H0. cbn [number_name].
    destruct (dmem d (name ++ itoa (snd (abs s0)))) eqn:E.
    + rewrite IH; [|rewrite Hb; exact E]. rewrite Hb. reflexivity.
    + cbn [while_loop]. rewrite Hc, Hb. cbn [fst snd]. rewrite E.
      rewrite <- (Hu (body s0)), Hb, E. reflexivity.
Qed.

(* the six arrangements of (candidate : string, flag : bool, counter : N) *)
Definition abs_sbn (s : string * bool * N) := s.
Definition abs_snb (s : string * N * bool) := let '(r, v, t) := s in (r, t, v).
Definition abs_bsn (s : bool * string * N) := let '(t, r, v) := s in (r, t, v).
Definition abs_bns (s : bool * N * string) := let '(t, v, r) := s in (r, t, v).
Definition abs_nsb (s : N * string * bool) := let '(v, r, t) := s in (r, t, v).
Definition abs_nbs (s : N * bool * string) := let '(v, t, r) := s in (r, t, v).
Definition unabs_sbn (s : string * bool * N) := s.
Definition unabs_snb (s : string * bool * N) := let '(r, t, v) := s in (r, v, t).
Definition unabs_bsn (s : string * bool * N) := let '(r, t, v) := s in (t, r, v).
Definition unabs_bns (s : string * bool * N) := let '(r, t, v) := s in (t, v, r).
Definition unabs_nsb (s : string * bool * N) := let '(r, t, v) := s in (v, r, t).
Definition unabs_nbs (s : string * bool * N) := let '(r, t, v) := s in (v, t, r).

Ltac abs_red :=
  cbv beta iota zeta delta [abs_sbn abs_snb abs_bsn abs_bns abs_nsb abs_nbs
                            unabs_sbn unabs_snb unabs_bsn unabs_bns unabs_nsb unabs_nbs fst snd].

Ltac loop_side :=
  intros;
  repeat match goal with s : (_ * _)%type |- _ => destruct s end;
  abs_red; try reflexivity;
  repeat (match goal with |- context [dmem ?d ?k] => destruct (dmem d k) end; abs_red; cbn [negb]);
  reflexivity.

Ltac number_loop d name :=
  first [ rewrite (loop_number_abs abs_sbn unabs_sbn d name) by loop_side
        | rewrite (loop_number_abs abs_snb unabs_snb d name) by loop_side
        | rewrite (loop_number_abs abs_bsn unabs_bsn d name) by loop_side
        | rewrite (loop_number_abs abs_bns unabs_bns d name) by loop_side
        | rewrite (loop_number_abs abs_nsb unabs_nsb d name) by loop_side
        | rewrite (loop_number_abs abs_nbs unabs_nbs d name) by loop_side ].

Lemma tie_reserveParamName : forall d n, gen_reserveParamName d n = (n, reserve d n).
Proof.
  intros d n. unfold gen_reserveParamName, reserve. unfold_gen_helpers. unfold_prims. cbv zeta.
  destruct (dmem d n); reflexivity.
Qed.

Lemma tie_getSafeParamName : forall d name always,
  gen_getSafeParamName d name always = get_safe_param_name d name always.
Proof.
  intros d name always.
  unfold gen_getSafeParamName, get_safe_param_name. unfold_gen_helpers. unfold_prims. cbv zeta.
  destruct (dmem d name) eqn:Ed; destruct always; cbn [orb andb negb];
    first [ reflexivity
          | number_loop d name; abs_red;
            destruct (number_name (S (List.length d)) d name
                        match dget d name with Some v => v | None => 0%N end) as [r v'];
            reflexivity ].
Qed.

(* ------------------------------------------------------------------ the range loops *)
(* `for _, p := range ps` of keepNames, whatever its body looks like *)
Lemma range_keep (F : dmap -> nat -> pinfo -> pinfo * dmap) :
  (forall d i p, F d i p =
     if unnamed (pi_name p) then (p, d)
     else let '(n, d1) := get_safe_param_name d (pi_name p) false in (set_name p n, reserve d1 n)) ->
  forall ps d i, range_upd_from F i ps d = keep_names d ps.
Proof.
  intros HF. induction ps as [|p r IH]; intros d i; cbn [range_upd_from keep_names]; [reflexivity|].
  rewrite HF. destruct (unnamed (pi_name p)).
  - rewrite IH. reflexivity.
  - destruct (get_safe_param_name d (pi_name p) false) as [n d1]. rewrite IH. reflexivity.
Qed.

Ltac split_name p :=
  destruct (String.eqb (pi_name p) "") eqn:?; destruct (String.eqb (pi_name p) "_") eqn:?;
  cbn [negb andb orb].

Ltac finish_step d0 :=
  try reflexivity;
  match goal with
  | |- context [get_safe_param_name d0 ?b ?a] =>
      destruct (get_safe_param_name d0 b a) as [n d1]; cbv beta iota;
      rewrite ?tie_reserveParamName; reflexivity
  end.

Lemma tie_keepNames : forall ps d, gen_keepNames ps d = keep_names d ps.
Proof.
  intros ps d. unfold gen_keepNames, range_upd. rewrite range_keep.
  - destruct (keep_names d ps). reflexivity.
  - intros d0 i p. cbv beta zeta. unfold_gen_helpers. unfold unnamed. cbv zeta.
    rewrite ?tie_getSafeParamName. split_name p; finish_step d0.
Qed.

(* `for i, p := range ps` / `for i := 0; i < len(ps); i++` of ensureNames *)
Lemma range_ensure o len (F : dmap -> nat -> pinfo -> pinfo * dmap) :
  (forall d i p, F d i p =
     if unnamed (pi_name p)
     then let '(base, always) := gen_choice o len i p in
          let '(n, d1) := get_safe_param_name d base always in (set_name p n, reserve d1 n)
     else (p, d)) ->
  forall ps d i, range_upd_from F i ps d = ensure_names_from d o len i ps.
Proof.
  intros HF. induction ps as [|p r IH]; intros d i; cbn [range_upd_from ensure_names_from]; [reflexivity|].
  rewrite HF. destruct (unnamed (pi_name p)).
  - destruct (gen_choice o len i p) as [base always].
    destruct (get_safe_param_name d base always) as [n d1]. rewrite IH. reflexivity.
  - rewrite IH. reflexivity.
Qed.

Lemma tie_ensureNames : forall ps d o, gen_ensureNames ps d o = ensure_names d o ps.
Proof.
  intros ps d o. unfold gen_ensureNames, ensure_names, range_upd. unfold_gen_helpers. cbv zeta.
  rewrite (range_ensure o (List.length ps)).
  - destruct (ensure_names_from d o (List.length ps) 0 ps). reflexivity.
  - intros d0 i p. cbv beta zeta. unfold_gen_helpers. unfold unnamed, gen_choice. unfold_prims. cbv zeta.
    rewrite ?tie_getSafeParamName.
    split_name p; try reflexivity;
      destruct o; destruct (Nat.eqb (List.length ps - 1) i); destruct (pi_err p);
      destruct (Nat.eqb i 0); destruct (pi_ctx p); cbn [negb andb orb]; finish_step d0.
Qed.

Lemma tie_ensureParamNames : forall ins outs,
  gen_ensureParamNames ins outs = ensure_param_names ins outs.
Proof.
  intros ins outs. unfold gen_ensureParamNames, ensure_param_names. unfold_gen_helpers. unfold map_empty.
  cbv zeta.
  rewrite tie_keepNames. destruct (keep_names [] ins) as [ins1 d1].
  rewrite tie_keepNames. destruct (keep_names d1 outs) as [outs1 d2].
  rewrite tie_ensureNames. destruct (ensure_names d2 false ins1) as [ins2 d3].
  rewrite tie_ensureNames. destruct (ensure_names d3 true outs1) as [outs2 d4]. reflexivity.
Qed.

(* hence the names the current source assigns are the ones C19_names speaks about *)
Theorem tie_final_names : forall ins outs,
  (let '(i, o) := gen_ensureParamNames ins outs in map pi_name (i ++ o)) = final_names ins outs.
Proof. intros ins outs. rewrite tie_ensureParamNames. reflexivity. Qed.

(* ------------------------------------------------------------------ ImportString (imports.go) *)
Lemma app_assoc_s : forall a b c : string, ((a ++ b) ++ c)%string = (a ++ (b ++ c))%string.
Proof. induction a as [|x a IH]; intros b c; simpl; [reflexivity|]. rewrite IH. reflexivity. Qed.

(* whatever way the line is put together: same text *)
Lemma tie_ImportString : forall i, gen_ImportString i = import_string i.
Proof.
  intros i. unfold gen_ImportString, import_string. unfold_gen_helpers. cbv zeta.
  destruct (i_alias_is_pkg i); cbn [negb]; repeat rewrite app_assoc_s; cbn [append]; reflexivity.
Qed.

(* ------------------------------------------------------------------ the merge loop (interface.go) *)
(* Go's map[string]*Method against the model's first-seen list of candidates *)
Definition keyed {A : Type} (name : A -> string) (l : list A) : list (string * A) :=
  map (fun x => (name x, x)) l.

Lemma mmap_has_keyed {A} (name : A -> string) l k :
  mmap_has (keyed name l) k = existsb (fun x => String.eqb (name x) k) l.
Proof. unfold mmap_has, keyed. induction l as [|x r IH]; simpl; [reflexivity|]. rewrite IH. reflexivity. Qed.

Lemma mmap_del_keyed {A} (name : A -> string) l k :
  mmap_del (keyed name l) k = keyed name (filter (fun x => negb (String.eqb (name x) k)) l).
Proof.
  unfold mmap_del, keyed. induction l as [|x r IH]; simpl; [reflexivity|].
  destruct (String.eqb (name x) k); simpl; rewrite IH; reflexivity.
Qed.

Lemma mmap_set_keyed_new {A} (name : A -> string) l (m : A) :
  existsb (fun x => String.eqb (name x) (name m)) l = false ->
  mmap_set (keyed name l) (name m) m = keyed name (l ++ [m]).
Proof.
  intros H. unfold mmap_set. rewrite mmap_has_keyed, H. unfold keyed. rewrite map_app. reflexivity.
Qed.

(* one step of the loop over an embedded field's methods = merge_one, for every state *)
Lemma tie_merge_step : forall (A : Type) (name : A -> string) toadd ign (m : A),
  gen_merge_step name (keyed name toadd) ign m =
  (keyed name (fst (merge_one name (toadd, ign) m)), snd (merge_one name (toadd, ign) m)).
Proof.
  intros A name toadd ign m. unfold gen_merge_step, merge_one, mset_has, mset_add. unfold_gen_helpers.
  cbv zeta. rewrite ?mmap_has_keyed.
  destruct (mem (name m) ign) eqn:Ei;
    destruct (existsb (fun x => String.eqb (name x) (name m)) toadd) eqn:Et;
    cbn [fst snd negb andb orb];
    rewrite ?mmap_del_keyed, ?(mmap_set_keyed_new name toadd m Et); reflexivity.
Qed.

(* hence the whole loop = merge, the function C19_embedded is proved about *)
Theorem tie_merge : forall (A : Type) (name : A -> string) (ms : list A) toadd ign,
  fold_left (fun st m => gen_merge_step name (fst st) (snd st) m) ms (keyed name toadd, ign) =
  (keyed name (fst (merge name (toadd, ign) ms)), snd (merge name (toadd, ign) ms)).
Proof.
  intros A name. unfold merge. induction ms as [|m r IH]; intros toadd ign; cbn [fold_left]; [reflexivity|].
  cbn [fst snd]. rewrite tie_merge_step. destruct (merge_one name (toadd, ign) m) as [ta ig]. apply IH.
Qed.

(* the condition under which a declared method is listed = visible *)
Lemma tie_visible : forall priv m, is_meth m = true ->
  gen_visible priv (exported (m_name m)) = visible priv m.
Proof.
  intros priv m H. unfold gen_visible, visible. rewrite H. destruct priv; destruct (exported (m_name m)); reflexivity.
Qed.

(* ================================================================== imports.go (world.go of the translator) *)
Ltac unfold_world :=
  unfold tmap_get, tmap_has, amap_get, amap_has, is_some, opt_get, is_nil, pkg_path, pkg_name,
         imp_with_in_use, imp_with_alias, imp_with_is_pkg, imp_with_path, types_default_string, imp_zero in *.

Lemma tmap_set_tset : forall t v, tmap_set t (i_path v) v = tset t v.
Proof. induction t as [|j r IH]; intros v; simpl; [reflexivity|]. rewrite IH. reflexivity. Qed.

Lemma tmap_set_tset_key t k v : i_path v = k -> tmap_set t k v = tset t v.
Proof. intros <-. apply tmap_set_tset. Qed.

(* ------------------------------------------------------------------ calcImports *)
Lemma tie_calcImports_step : forall e t sh p n,
  gen_calcImports_step (e_pkg_imports e) (e_self e) (e_locals e) t sh p n = calc_step e (t, sh) (p, n).
Proof.
  intros e t sh p n. unfold gen_calcImports_step, calc_step, calc_import. unfold_gen_helpers. unfold_world.
  cbv zeta. cbn [fst snd].
  destruct n as [n|]; [|destruct (assoc (e_pkg_imports e) p) as [n0|]]; cbn [i_path];
    destruct (tget t p); rewrite tmap_set_tset_key by reflexivity; reflexivity.
Qed.

Theorem tie_calcImports : forall e specs,
  fold_left (fun st s => gen_calcImports_step (e_pkg_imports e) (e_self e) (e_locals e) (fst st) (snd st) (fst s) (snd s)) specs ([], [])
  = calc_imports_sh e specs.
Proof.
  intros e specs. unfold calc_imports_sh. generalize (@nil imp, @nil imp).
  induction specs as [|[p n] r IH]; intros st; cbn [fold_left]; [reflexivity|].
  cbn [fst snd]. rewrite tie_calcImports_step. destruct st as [t sh]. apply IH.
Qed.

(* ------------------------------------------------------------------ unusedName *)
Lemma existsb_alias_mem (l : list imp) c :
  existsb (fun i => String.eqb (i_alias i) c) l = mem c (map i_alias l).
Proof.
  unfold mem. induction l as [|x r IH]; simpl; [reflexivity|]. rewrite IH, String.eqb_sym. reflexivity.
Qed.

Lemma mem_app_b c a b : mem c (a ++ b) = mem c a || mem c b.
Proof. unfold mem. apply existsb_app. Qed.

Lemma dmem_const taken k : dmem (map (fun a : string => (a, 0%N)) taken) k = mem k taken.
Proof.
  unfold dmem, mem. induction taken as [|x r IH]; simpl; [reflexivity|].
  destruct (String.eqb k x); [reflexivity|]. exact IH.
Qed.

Definition absu_ns (s : N * string) := s.
Definition absu_sn (s : string * N) := let '(r, n) := s in (n, r).
Definition unabsu_ns (s : N * string) := s.
Definition unabsu_sn (s : N * string) := let '(n, r) := s in (r, n).
Ltac absu_red := cbv beta iota zeta delta [absu_ns absu_sn unabsu_ns unabsu_sn fst snd].

(* `for n := 2; bound(result); n++ { result = name + Itoa(n) }` over a state holding the counter and
   the candidate in some arrangement *)
Lemma loop_unused_abs {St : Type} (abs : St -> N * string) (unabs : N * string -> St) taken name
      (cond : St -> bool) (body : St -> St) :
  (forall s, unabs (abs s) = s) ->
  (forall s, cond s = mem (snd (abs s)) taken) ->
  (forall s, abs (body s) = (N.succ (fst (abs s)), name ++ itoa (fst (abs s)))) ->
  forall f s0,
    while_loop (S f) cond body s0 =
    unabs (if mem (snd (abs s0)) taken
           then let '(r, v) := number_name f (map (fun a : string => (a, 0%N)) taken) name (fst (abs s0)) in (v, r)
           else abs s0).
Proof.
  intros Hu Hc Hb.
  assert (W : forall f n s, abs s = (N.succ n, name ++ itoa n) ->
            abs (while_loop f cond body s) =
            let '(r, v) := number_name f (map (fun a : string => (a, 0%N)) taken) name n in (v, r)).
  { induction f as [|f IH]; intros n s Hs; cbn [while_loop number_name]; [exact Hs|].
    rewrite Hc, Hs. cbn [snd]. rewrite dmem_const.
    destruct (mem (name ++ itoa n) taken) eqn:E; [|exact Hs].
    apply IH. rewrite Hb, Hs. reflexivity. }
  intros f s0. cbn [while_loop]. rewrite Hc.
  destruct (mem (snd (abs s0)) taken) eqn:E; [|symmetry; apply Hu].
  rewrite <- (Hu (while_loop f cond body (body s0))).
  rewrite (W f (fst (abs s0)) (body s0)) by (rewrite Hb; reflexivity). reflexivity.
Qed.

Ltac unused_side :=
  intros; repeat match goal with s : (_ * _)%type |- _ => destruct s end; absu_red;
  rewrite ?existsb_alias_mem, ?mem_app_b; try reflexivity;
  repeat match goal with |- context [mem ?c ?l] => destruct (mem c l) end; reflexivity.

Lemma tie_unusedName : forall st sh self pkgimps scope name,
  gen_unusedName st sh self pkgimps scope name
  = unused_name (map i_alias st ++ map i_alias sh ++ scope) name.
Proof.
  intros st sh self pkgimps scope name. unfold gen_unusedName, unused_name. unfold_gen_helpers. unfold fmt_int.
  cbv zeta.
  set (taken := (map i_alias st ++ map i_alias sh ++ scope)%list).
  match goal with |- context [while_loop (S (S ?x))] =>
    replace x with (List.length taken) by (unfold taken; rewrite !app_length, !map_length; lia) end.
  first [ rewrite (loop_unused_abs absu_ns unabsu_ns taken name) by (unfold taken; unused_side)
        | rewrite (loop_unused_abs absu_sn unabsu_sn taken name) by (unfold taken; unused_side) ];
  absu_red; destruct (mem name taken); [destruct (number_name _ _ name 2) as [r v]|]; reflexivity.
Qed.

(* ------------------------------------------------------------------ addNamed *)
Definition spec_extract (e : env) (st : table) (t : ty) : string * table :=
  let '(x, st') := extract e st t in (print x, st').

Definition qual_string (q : option string) : string :=
  match q with Some a => if String.eqb a "." then "" else a ++ "." | None => "" end.

Lemma append_nil_r : forall s : string, s ++ "" = s.
Proof. induction s as [|c s IH]; simpl; [reflexivity|]. rewrite IH. reflexivity. Qed.

(* the loop over the type arguments = extract_list, texts in order *)
Lemma targs_fold e (rec : table -> ty -> string * table) (F : table * list string -> nat -> ty -> table * list string) :
  forall targs,
  (forall st x, In x targs -> rec st x = spec_extract e st x) ->
  (forall st acc i x, In x targs -> F (st, acc) i x = let '(s, st') := rec st x in (st', acc ++ [s])%list) ->
  forall st acc i,
    list_fold_from F i targs (st, acc) =
    let '(args, st') := extract_list e st targs in (st', (acc ++ map print args)%list).
Proof.
  induction targs as [|x r IH]; intros Hrec HF st acc i; cbn [list_fold_from extract_list].
  - rewrite app_nil_r. reflexivity.
  - rewrite HF by (left; reflexivity). rewrite Hrec by (left; reflexivity). unfold spec_extract.
    destruct (extract e st x) as [rx s1]. rewrite IH.
    + destruct (extract_list e s1 r) as [rr s2]. cbn [map]. rewrite <- app_assoc. reflexivity.
    + intros st0 y Hy. apply Hrec. right. assumption.
    + intros st0 acc0 i0 y Hy. apply HF. right. assumption.
Qed.

Lemma extract_list_length e : forall l st, List.length (fst (extract_list e st l)) = List.length l.
Proof.
  induction l as [|x r IH]; intros st; simpl; [reflexivity|].
  destruct (extract e st x) as [rx s1]. specialize (IH s1). destruct (extract_list e s1 r). simpl in *. congruence.
Qed.

(* the same loop with the two components of its state the other way round *)
Lemma targs_fold_sw e (rec : table -> ty -> string * table) (F : list string * table -> nat -> ty -> list string * table) :
  forall targs,
  (forall st x, In x targs -> rec st x = spec_extract e st x) ->
  (forall st acc i x, In x targs -> F (acc, st) i x = let '(s, st') := rec st x in ((acc ++ [s])%list, st')) ->
  forall st acc i,
    list_fold_from F i targs (acc, st) =
    let '(args, st') := extract_list e st targs in ((acc ++ map print args)%list, st').
Proof.
  induction targs as [|x r IH]; intros Hrec HF st acc i; cbn [list_fold_from extract_list].
  - rewrite app_nil_r. reflexivity.
  - rewrite HF by (left; reflexivity). rewrite Hrec by (left; reflexivity). unfold spec_extract.
    destruct (extract e st x) as [rx s1]. rewrite IH.
    + destruct (extract_list e s1 r) as [rr s2]. cbn [map]. rewrite <- app_assoc. reflexivity.
    + intros st0 y Hy. apply Hrec. right. assumption.
    + intros st0 acc0 i0 y Hy. apply HF. right. assumption.
Qed.

Ltac fold_side :=
  let st0 := fresh "st" in let acc := fresh "acc" in let i := fresh "i" in let y := fresh "y" in let Hy := fresh "Hy" in
  intros st0 acc i y Hy; cbv beta iota zeta;
  match goal with |- context [?r st0 y] => destruct (r st0 y) end; reflexivity.

(* what is left of addNamed once the import is settled: the type arguments and the text *)
Ltac finish_targs e rec Hr tl :=
  cbv beta iota; unfold is_nil;
  let Et := fresh "Et" in
  let x0 := fresh "x" in
  let r0 := fresh "r" in
  destruct tl as [|x0 r0] eqn:Et; cbn [negb];
  [ cbn [extract_list print map]; unfold qual_string;
    repeat match goal with Hd : String.eqb _ "." = _ |- _ => rewrite Hd end;
    rewrite ?append_nil_r; repeat rewrite app_assoc_s; rewrite ?append_nil_r; reflexivity
  | rewrite <- Et in *; unfold list_fold;
    first [ rewrite (targs_fold e rec _ tl); [|exact Hr|fold_side]
          | rewrite (targs_fold_sw e rec _ tl); [|exact Hr|fold_side] ];
    match goal with |- context [extract_list e ?s1 tl] =>
      let Hl := fresh "Hl" in
      let args := fresh "args" in
      let st2 := fresh "st2" in
      pose proof (extract_list_length e tl s1) as Hl;
      destruct (extract_list e s1 tl) as [args st2]; cbn [fst] in Hl; cbn [app print];
      destruct args; [rewrite Et in Hl; discriminate|];
      unfold qual_string;
      repeat match goal with Hd : String.eqb _ "." = _ |- _ => rewrite Hd end;
      repeat rewrite app_assoc_s; rewrite ?append_nil_r; reflexivity
    end ].

(* addNamed = add_named + extract_list + print, whatever helpers it is split into: every branch of
   the import part is taken apart on both sides at once *)
Lemma tie_addNamed : forall e (rec : table -> ty -> string * table) st sh pkg name targs,
  e_unique_alias e = true -> map i_alias sh = e_shadowed e ->
  (forall st x, In x targs -> rec st x = spec_extract e st x) ->
  gen_addNamed rec st sh (e_self e) (e_pkg_imports e) (e_locals e) pkg name targs
  = spec_extract e st (TNamed pkg name targs).
Proof.
  intros e rec st sh pkg name targs Hu Hsh Hrec.
  unfold spec_extract. rewrite extract_named.
  destruct (add_named e st pkg) as [q st1] eqn:Ea.
  unfold add_named in Ea.
  unfold gen_addNamed. unfold_gen_helpers. unfold_world. cbv zeta.
  destruct pkg as [[p pn]|]; cbn [fst snd andb negb] in *.
  2:{ injection Ea as <- <-. finish_targs e rec Hrec targs. }
  destruct (String.eqb p (e_self e)); cbn [negb andb].
  { injection Ea as <- <-. finish_targs e rec Hrec targs. }
  destruct (tget st p) as [i|] eqn:Eg.
  - injection Ea as <- <-. pose proof (tget_path _ _ _ Eg) as Hp. cbv beta iota. cbn [i_alias i_path].
    rewrite !tmap_set_tset_key by (simpl; assumption). rewrite ?Hp.
    destruct (String.eqb (i_alias i) ".") eqn:Ed; cbn [negb]; finish_targs e rec Hrec targs.
  - rewrite Hu in Ea. cbv zeta in Ea.
    destruct (assoc (e_pkg_imports e) p) as [n0|] eqn:Eas; cbn [andb];
      [destruct (String.eqb pn "") eqn:En|]; cbv beta iota;
      rewrite !tie_unusedName, Hsh; fold (taken_names e st);
      match type of Ea with context [String.eqb (unused_name ?T ?A) ?A] =>
        destruct (String.eqb (unused_name T A) A) eqn:Eq end;
      cbn [negb]; try (apply String.eqb_eq in Eq; rewrite Eq in * );
      injection Ea as <- <-; cbv beta iota; cbn [i_alias i_path];
      rewrite !tmap_set_tset_key by reflexivity;
      match goal with |- context [String.eqb ?A "."] => destruct (String.eqb A ".") eqn:Ed end; cbn [negb];
      finish_targs e rec Hrec targs.
Qed.

(* ------------------------------------------------------------------ ExtractTypeRef *)


Definition ty_children (t : ty) : list ty :=
  match t with
  | TPtr x | TSlice x | TArray _ x => [x]
  | TMap k v => [k; v]
  | TNamed _ _ targs => targs
  | _ => []
  end.

(* one unfolding of ExtractTypeRef: every case of the type switch renders what the model's extract
   + print render, provided the recursive calls do; recm is "MethodFromSignature(ih, t).Signature()" *)
Lemma tie_ExtractTypeRef : forall e rec recm is_basic st sh t,
  e_unique_alias e = true -> map i_alias sh = e_shadowed e ->
  (forall st x, In x (ty_children t) -> rec st x = spec_extract e st x) ->
  (forall ps v rs, t = TFunc ps v rs -> forall st, recm st t = spec_extract e st t) ->
  (forall s, t = TBasic s -> prefix "untyped " s = false) ->
  gen_ExtractTypeRef rec recm is_basic st sh (e_self e) (e_pkg_imports e) (e_locals e) t
  = spec_extract e st t.
Proof.
  intros e rec recm is_basic st sh t Hu Hsh Hrec Hrecm Hbasic.
  unfold gen_ExtractTypeRef. unfold_gen_helpers. unfold_world. cbv zeta.
  destruct t as [s|pkg n targs|x|x|n x|k v|ps v rs]; cbn [ty_children] in Hrec.
  - specialize (Hbasic s eq_refl). unfold spec_extract. cbn [extract print]. unfold trim_prefix. rewrite Hbasic.
    destruct (is_basic s); reflexivity.
  - rewrite (tie_addNamed e rec st sh pkg n targs Hu Hsh Hrec).
    destruct (spec_extract e st (TNamed pkg n targs)). reflexivity.
  - rewrite Hrec by (left; reflexivity). unfold spec_extract. cbn [extract].
    destruct (extract e st x) as [r s1]. reflexivity.
  - rewrite Hrec by (left; reflexivity). unfold spec_extract. cbn [extract].
    destruct (extract e st x) as [r s1]. reflexivity.
  - rewrite Hrec by (left; reflexivity). unfold spec_extract. cbn [extract].
    destruct (extract e st x) as [r s1]. cbn [print]. unfold fmt_int.
    repeat rewrite app_assoc_s. reflexivity.
  - rewrite Hrec by (left; reflexivity). unfold spec_extract. cbn [extract].
    destruct (extract e st k) as [rk s1]. cbv beta iota.
    rewrite Hrec by (right; left; reflexivity). unfold spec_extract.
    destruct (extract e s1 v) as [rv s2]. cbn [print]. repeat rewrite app_assoc_s. reflexivity.
  - rewrite (Hrecm ps v rs eq_refl). destruct (spec_extract e st (TFunc ps v rs)). reflexivity.
Qed.

(* ------------------------------------------------------------------ TypeNames / Declarations / Signature *)
Definition gp_triple (g : gparam) : string * bool * string := (gp_name g, gp_variadic g, gp_typeref g).

(* a strings.Builder loop that writes an item per element and ", " between elements = join *)
Lemma join_fold (item : gparam -> string) (F : string -> nat -> gparam -> string) n :
  (forall acc i p, F acc i p = acc ++ item p ++ (if Nat.ltb (i + 1) n then ", " else "")) ->
  forall l i acc, i + List.length l = n ->
  list_fold_from F i l acc = acc ++ join ", " (map item l).
Proof.
  intros HF. induction l as [|x r IH]; intros i acc Hn; cbn [list_fold_from map join].
  - symmetry. apply append_nil_r.
  - rewrite HF. cbn [List.length] in Hn. destruct r as [|y r'].
    + cbn [List.length] in Hn. replace (Nat.ltb (i + 1) n) with false by (symmetry; apply Nat.ltb_ge; lia).
      cbn [list_fold_from]. rewrite append_nil_r. reflexivity.
    + replace (Nat.ltb (i + 1) n) with true by (symmetry; apply Nat.ltb_lt; cbn [List.length] in Hn; lia).
      rewrite IH by (cbn [List.length] in *; lia).
      cbn [map]. repeat rewrite app_assoc_s. reflexivity.
Qed.

Ltac join_side :=
  intros acc i p; cbv beta zeta;
  destruct (gp_variadic p); destruct (Nat.ltb (i + 1) _);
  repeat rewrite app_assoc_s; cbn [append]; rewrite ?append_nil_r; reflexivity.

Lemma tie_TypeNames : forall l, gen_TypeNames l = type_names (map gp_triple l).
Proof.
  intros l. unfold gen_TypeNames, type_names, list_fold. unfold_gen_helpers. cbv zeta.
  rewrite (join_fold (fun p => (if gp_variadic p then "[]" else "") ++ gp_typeref p) _ (List.length l));
    [|join_side|reflexivity].
  rewrite map_map. reflexivity.
Qed.

Lemma tie_Declarations : forall l, gen_Declarations l = declarations (map gp_triple l).
Proof.
  intros l. unfold gen_Declarations, declarations, list_fold. unfold_gen_helpers. cbv zeta.
  rewrite (join_fold (fun p => gp_name p ++ (if gp_variadic p then "..." else "") ++ " " ++ gp_typeref p) _ (List.length l));
    [|join_side|reflexivity].
  rewrite map_map. reflexivity.
Qed.

Lemma tie_Signature : forall name ins outs,
  gen_Signature name ins outs = sig_text name (map gp_triple ins) (map gp_triple outs).
Proof.
  intros name ins outs. unfold gen_Signature, sig_text. unfold_gen_helpers. cbv zeta.
  rewrite !tie_Declarations, !tie_TypeNames, map_length.
  destruct (Nat.ltb 1 (List.length outs)); repeat rewrite app_assoc_s; reflexivity.
Qed.

(* ------------------------------------------------------------------ ParamsFromSignatureTuple *)
Definition gp_of (q : (pinfo * ty) * (bool * texpr)) : gparam :=
  GP (pi_name (fst (fst q))) (fst (snd q)) (print (snd (snd q))) (pi_ctx (fst (fst q))) (pi_err (fst (fst q))).
Definition pfst_spec (e : env) (st : table) (variadic : bool) (tuple : list (pinfo * ty)) : list gparam * table :=
  let '(xs, st') := params_from_tuple e st variadic tuple in (map gp_of (combine tuple xs), st').

Lemma substring_all : forall s, substring 0 (String.length s) s = s.
Proof. induction s as [|c s IH]; simpl; [reflexivity|]. rewrite IH. reflexivity. Qed.

Lemma trim_slice_print x : trim_prefix "[]" (print (ESlice x)) = print x.
Proof.
  cbn [print]. unfold trim_prefix. simpl. rewrite Nat.sub_0_r.
  destruct (print x); simpl; [reflexivity|]. rewrite substring_all. reflexivity.
Qed.

(* the second rendering of the type arguments (Param.TypeArgNames) leaves the table alone *)
Lemma fold_again e (G : table -> nat -> ty -> table) : forall l st i,
  (forall s j x, In x l -> G s j x = snd (extract e s x)) ->
  (forall x, In x l -> covers e st x) ->
  list_fold_from G i l st = st.
Proof.
  induction l as [|x r IH]; intros st i HG Hc; cbn [list_fold_from]; [reflexivity|].
  rewrite HG by (left; reflexivity). rewrite (extract_idem e x st) by (apply Hc; left; reflexivity).
  apply IH; [intros s j y Hy; apply HG; right; assumption|intros y Hy; apply Hc; right; assumption].
Qed.

Lemma pkgs_ptr_targs t x : In x (ty_named_targs (if ty_is_ptr t then ty_ptr_elem t else t)) ->
  forall pp, In pp (ty_pkgs x) -> In pp (ty_pkgs t).
Proof.
  intros Hx pp Hpp. destruct t as [s|pkg n targs|y|y|k y|k v|ps v rs]; cbn in Hx; try contradiction.
  - simpl. apply in_or_app. right. apply in_flat_map. eauto.
  - destruct y as [s|pkg n targs|z|z|k z|k v|ps v rs]; cbn in Hx; try contradiction.
    simpl. apply in_or_app. right. apply in_flat_map. eauto.
Qed.

Lemma pfst_fold e variadic n (F : table * list gparam -> nat -> pinfo * ty -> table * list gparam) whole :
  (forall st acc i p, In p whole -> F (st, acc) i p =
     let '(x, st1) := extract e st (snd p) in
     let isv := Nat.eqb n (i + 1) && variadic in
     (st1, (acc ++ [GP (pi_name (fst p)) isv (if isv then trim_prefix "[]" (print x) else print x)
                       (pi_ctx (fst p)) (pi_err (fst p))])%list)) ->
  forall l i st acc, (forall p, In p l -> In p whole) -> i + List.length l = n ->
    (variadic = true -> forall l0 pi t, l = (l0 ++ [(pi, t)])%list -> exists y, t = TSlice y) ->
    list_fold_from F i l (st, acc) =
    let '(xs, st') := params_from_tuple e st variadic l in (st', (acc ++ map gp_of (combine l xs))%list).
Proof.
  intros HF. induction l as [|[pi t] r IH]; intros i st acc Hsub Hn Hv; cbn [list_fold_from params_from_tuple].
  - rewrite app_nil_r. reflexivity.
  - rewrite HF by (apply Hsub; left; reflexivity). cbn [fst snd]. destruct (extract e st t) as [x s1] eqn:Ex. cbv zeta.
    cbn [List.length] in Hn.
    assert (Hlast : Nat.eqb n (i + 1) = match r with [] => true | _ => false end).
    { destruct r; cbn [List.length] in Hn; [apply Nat.eqb_eq; lia|apply Nat.eqb_neq; lia]. }
    rewrite Hlast. rewrite (andb_comm _ variadic).
    rewrite IH; [|intros p Hp; apply Hsub; right; assumption| lia |].
    2:{ intros Hvt l0 pi0 t0 E. apply (Hv Hvt ((pi, t) :: l0) pi0 t0). rewrite E. reflexivity. }
    destruct (params_from_tuple e s1 variadic r) as [rr s2].
    cbn [combine map]. rewrite <- app_assoc. cbn [app]. f_equal. f_equal. f_equal.
    unfold gp_of. cbn [fst snd].
    destruct (variadic && match r with [] => true | _ => false end) eqn:Ev; [|reflexivity].
    apply andb_true_iff in Ev as [Hvt Hr]. destruct r; [|discriminate].
    destruct (Hv Hvt [] pi t eq_refl) as [y ->]. cbn [extract] in Ex.
    destruct (extract e st y) as [ry sy]. injection Ex as <- <-. cbn [trim_slice].
    rewrite trim_slice_print. reflexivity.
Qed.

(* the types ParamsFromSignatureTuple hands to ExtractTypeRef: the parameter types and, for a
   (pointer to a) generic named type, its type arguments *)
Definition pfst_types (tuple : list (pinfo * ty)) : list ty :=
  flat_map (fun p : pinfo * ty =>
              snd p :: ty_named_targs (if ty_is_ptr (snd p) then ty_ptr_elem (snd p) else snd p)) tuple.

Lemma tie_ParamsFromSignatureTuple : forall e rec recm isb st sh tuple variadic,
  (forall s t, In t (pfst_types tuple) ->
     gen_ExtractTypeRef rec recm isb s sh (e_self e) (e_pkg_imports e) (e_locals e) t = spec_extract e s t) ->
  (variadic = true -> exists l0 pi x, tuple = (l0 ++ [(pi, TSlice x)])%list) ->
  gen_ParamsFromSignatureTuple rec recm isb st sh (e_self e) (e_pkg_imports e) (e_locals e) tuple variadic
  = pfst_spec e st variadic tuple.
Proof.
  intros e rec recm isb st sh tuple variadic HX Hwf.
  unfold gen_ParamsFromSignatureTuple, pfst_spec, list_fold. unfold_gen_helpers. cbv zeta.
  rewrite (pfst_fold e variadic (List.length tuple) _ tuple).
  - destruct (params_from_tuple e st variadic tuple) as [xs st']. reflexivity.
  - intros s0 acc i [pi t] Hin. cbv beta iota zeta. cbn [fst snd].
    assert (Ht : In t (pfst_types tuple)).
    { unfold pfst_types. apply in_flat_map. exists (pi, t). split; [assumption|left; reflexivity]. }
    assert (Hy : forall y, In y (ty_named_targs (if ty_is_ptr t then ty_ptr_elem t else t)) -> In y (pfst_types tuple)).
    { intros y Hy. unfold pfst_types. apply in_flat_map. exists (pi, t). split; [assumption|right; exact Hy]. }
    rewrite (HX _ _ Ht). unfold spec_extract.
    pose proof (extract_covered e t s0) as Hcov.
    destruct (extract e s0 t) as [x s1]. cbn [snd] in Hcov.
    assert (H2 : forall G : table -> nat -> ty -> table,
              (forall s j y, In y (ty_named_targs (if ty_is_ptr t then ty_ptr_elem t else t)) -> G s j y = snd (extract e s y)) ->
              list_fold_from G 0 (ty_named_targs (if ty_is_ptr t then ty_ptr_elem t else t)) s1 = s1).
    { intros G HG. apply (fold_again e); [intros; apply HG; assumption|].
      intros y Hy0 pp Hpp. apply Hcov. eapply pkgs_ptr_targs; eauto. }
    match goal with |- context [list_fold_from ?G 0 _ s1] => rewrite (H2 G) end.
    2:{ intros s j y Hy0. rewrite (HX _ _ (Hy y Hy0)). unfold spec_extract. destruct (extract e s y). reflexivity. }
    destruct (ty_is_named _ && _); cbv beta iota; cbn [gp_variadic gp_typeref gp_with_typeref gp_name gp_ctx gp_err];
      destruct (Nat.eqb (List.length tuple) (i + 1) && variadic); reflexivity.
  - auto.
  - reflexivity.
  - intros Hv l0 pi t E. destruct (Hwf Hv) as [l1 [pi1 [x E1]]]. rewrite E in E1.
    apply app_inj_tail in E1 as [_ E2]. injection E2 as _ ->. eauto.
Qed.

(* ------------------------------------------------------------------ MethodFromSignature *)
Definition pr3 (p : string * bool * texpr) : string * bool * string := let '(n, v, x) := p in (n, v, print x).

Lemma gp_pinfo_of (ps : list (pinfo * ty)) : forall xs, List.length xs = List.length ps ->
  map gp_pinfo (map gp_of (combine ps xs)) = map fst ps.
Proof.
  induction ps as [|[pi t] r IH]; intros [|[b x] xr] H; simpl in *; try discriminate; [reflexivity|].
  f_equal; [destruct pi; reflexivity|]. apply IH. lia.
Qed.

Lemma set_names_zip (ps : list (pinfo * ty)) : forall xs ns,
  List.length xs = List.length ps -> List.length ns = List.length ps ->
  map gp_triple (gp_set_names (map gp_of (combine ps xs)) ns) = map pr3 (zip_names ns xs).
Proof.
  unfold gp_set_names, zip_names.
  induction ps as [|[pi t] r IH]; intros [|[b x] xr] [|n nr] H1 H2; simpl in *; try discriminate; [reflexivity|].
  f_equal. apply IH; lia.
Qed.

Lemma pft_length e : forall l st v, List.length (fst (params_from_tuple e st v l)) = List.length l.
Proof.
  induction l as [|[pi t] r IH]; intros st v; simpl; [reflexivity|].
  destruct (extract e st t) as [x s1]. specialize (IH s1 v).
  destruct (params_from_tuple e s1 v r) as [xr s2]. simpl in *. congruence.
Qed.

(* MethodFromSignature = render_method: the two tuples through ParamsFromSignatureTuple, then the
   naming functions (tie_ensureParamNames) on the parameters' names and oracle bits *)
Lemma tie_MethodFromSignature : forall e rec recm isb st sh ps v rs,
  (forall s t, In t (pfst_types ps ++ pfst_types rs) ->
     gen_ExtractTypeRef rec recm isb s sh (e_self e) (e_pkg_imports e) (e_locals e) t = spec_extract e s t) ->
  (v = true -> exists l0 pi x, ps = (l0 ++ [(pi, TSlice x)])%list) ->
  let '((nm, gi, go), st') :=
    gen_MethodFromSignature rec recm isb st sh (e_self e) (e_pkg_imports e) (e_locals e) ps v rs in
  let '(m, st'') := render_method e st (M "func" ps v rs false) in
  nm = rm_name m /\ map gp_triple gi = map pr3 (rm_in m) /\ map gp_triple go = map pr3 (rm_out m) /\ st' = st''.
Proof.
  intros e rec recm isb st sh ps v rs HX Hwf.
  unfold gen_MethodFromSignature. unfold_gen_helpers. cbv zeta.
  assert (HX1 : forall s t, In t (pfst_types ps) ->
            gen_ExtractTypeRef rec recm isb s sh (e_self e) (e_pkg_imports e) (e_locals e) t = spec_extract e s t)
    by (intros s t Ht; apply HX; apply in_or_app; auto).
  assert (HX2 : forall s t, In t (pfst_types rs) ->
            gen_ExtractTypeRef rec recm isb s sh (e_self e) (e_pkg_imports e) (e_locals e) t = spec_extract e s t)
    by (intros s t Ht; apply HX; apply in_or_app; auto).
  rewrite (tie_ParamsFromSignatureTuple e rec recm isb st sh ps v HX1 Hwf). unfold pfst_spec, render_method.
  cbn [m_ps m_rs m_variadic m_name].
  pose proof (pft_length e ps st v) as L1.
  destruct (params_from_tuple e st v ps) as [xi s1]. cbn [fst] in L1. cbv beta iota.
  rewrite (tie_ParamsFromSignatureTuple e rec recm isb s1 sh rs false HX2) by discriminate. unfold pfst_spec.
  pose proof (pft_length e rs s1 false) as L2.
  destruct (params_from_tuple e s1 false rs) as [xo s2]. cbn [fst] in L2. cbv beta iota.
  rewrite (gp_pinfo_of ps xi L1), (gp_pinfo_of rs xo L2), tie_ensureParamNames.
  destruct (ensure_param_names_length (map fst ps) (map fst rs)) as [N1 N2]. rewrite !map_length in N1, N2.
  destruct (ensure_param_names (map fst ps) (map fst rs)) as [ni no]. cbn [fst snd] in N1, N2. cbv beta iota.
  cbn [rm_name rm_in rm_out].
  rewrite (set_names_zip ps xi ni L1 N1), (set_names_zip rs xo no L2 N2). repeat split; reflexivity.
Qed.

(* with tie_Signature: MethodFromSignature(ih, t).Signature() is the text of the func type *)
Theorem tie_func_text : forall e rec recm isb st sh ps v rs,
  (forall s t, In t (pfst_types ps ++ pfst_types rs) ->
     gen_ExtractTypeRef rec recm isb s sh (e_self e) (e_pkg_imports e) (e_locals e) t = spec_extract e s t) ->
  (v = true -> exists l0 pi x, ps = (l0 ++ [(pi, TSlice x)])%list) ->
  let '((nm, gi, go), st') :=
    gen_MethodFromSignature rec recm isb st sh (e_self e) (e_pkg_imports e) (e_locals e) ps v rs in
  (gen_Signature nm gi go, st') = spec_extract e st (TFunc ps v rs).
Proof.
  intros e rec recm isb st sh ps v rs HX Hwf.
  pose proof (tie_MethodFromSignature e rec recm isb st sh ps v rs HX Hwf) as H.
  destruct (gen_MethodFromSignature rec recm isb st sh (e_self e) (e_pkg_imports e) (e_locals e) ps v rs) as [[[nm gi] go] st'].
  unfold spec_extract. rewrite extract_func. unfold render_method in H. cbn [m_ps m_rs m_variadic m_name] in H.
  destruct (params_from_tuple e st v ps) as [xi s1].
  destruct (params_from_tuple e s1 false rs) as [xo s2].
  destruct (ensure_param_names (map fst ps) (map fst rs)) as [ni no].
  destruct H as [-> [Hi [Ho ->]]]. rewrite tie_Signature, Hi, Ho. cbn [rm_name rm_in rm_out print]. reflexivity.
Qed.

(* ------------------------------------------------------------------ tying the knot *)
(* ExtractTypeRef, addNamed, ParamsFromSignatureTuple and MethodFromSignature call each other; each
   was translated with the functions it reaches recursively as parameters.  Here the parameters
   are instantiated with the translated functions themselves, by recursion on a fuel that the
   size of the type bounds: the Go functions, as translated, ARE the model's extract + print. *)
Fixpoint ty_size (t : ty) : nat :=
  match t with
  | TBasic _ => 1
  | TNamed _ _ l => S (fold_right (fun x a => ty_size x + a) 0 l)
  | TPtr x | TSlice x | TArray _ x => S (ty_size x)
  | TMap k v => S (ty_size k + ty_size v)
  | TFunc ps _ rs => S (fold_right (fun (p : pinfo * ty) a => ty_size (snd p) + a) 0 ps +
                        fold_right (fun (p : pinfo * ty) a => ty_size (snd p) + a) 0 rs)
  end.

(* what go/types hands over: no untyped kinds, a variadic tuple ends in a slice *)
Inductive ty_ok : ty -> Prop :=
| OKBasic s : prefix "untyped " s = false -> ty_ok (TBasic s)
| OKNamed pkg n l : Forall ty_ok l -> ty_ok (TNamed pkg n l)
| OKPtr x : ty_ok x -> ty_ok (TPtr x)
| OKSlice x : ty_ok x -> ty_ok (TSlice x)
| OKArray n x : ty_ok x -> ty_ok (TArray n x)
| OKMap k v : ty_ok k -> ty_ok v -> ty_ok (TMap k v)
| OKFunc ps v rs :
    Forall (fun p : pinfo * ty => ty_ok (snd p)) ps -> Forall (fun p : pinfo * ty => ty_ok (snd p)) rs ->
    (v = true -> exists l0 pi x, ps = (l0 ++ [(pi, TSlice x)])%list) -> ty_ok (TFunc ps v rs).

Lemma size_in (l : list ty) x : In x l -> ty_size x <= fold_right (fun y a => ty_size y + a) 0 l.
Proof.
  induction l as [|a r IH]; cbn [In fold_right]; [contradiction|]. intros [E|H]; [subst a; lia|]. specialize (IH H). lia.
Qed.
Lemma size_in_p (l : list (pinfo * ty)) p : In p l ->
  ty_size (snd p) <= fold_right (fun (q : pinfo * ty) a => ty_size (snd q) + a) 0 l.
Proof.
  induction l as [|a r IH]; cbn [In fold_right]; [contradiction|]. intros [E|H]; [subst a; lia|]. specialize (IH H). lia.
Qed.

Lemma children_size t x : In x (ty_children t) -> ty_size x < ty_size t.
Proof.
  destruct t as [s|pkg n l|y|y|n y|k v|ps v rs]; cbn [ty_children ty_size]; try contradiction.
  - intros H. pose proof (size_in l x H). lia.
  - intros [<-|[]]. lia.
  - intros [<-|[]]. lia.
  - intros [<-|[]]. lia.
  - intros [<-|[<-|[]]]; lia.
Qed.
Lemma children_ok t x : ty_ok t -> In x (ty_children t) -> ty_ok x.
Proof.
  intros H Hx. destruct H as [s Hs|pkg n l Hl|y Hy|y Hy|n y Hy|k v Hk Hv|ps v rs Hp Hr Hv]; cbn [ty_children] in Hx;
    try contradiction.
  - rewrite Forall_forall in Hl. auto.
  - destruct Hx as [<-|[]]. assumption.
  - destruct Hx as [<-|[]]. assumption.
  - destruct Hx as [<-|[]]. assumption.
  - destruct Hx as [<-|[<-|[]]]; assumption.
Qed.

Lemma strip_size t x : In x (ty_named_targs (if ty_is_ptr t then ty_ptr_elem t else t)) -> ty_size x < ty_size t.
Proof.
  destruct t as [s|pkg n l|y|y|n y|k v|ps v rs]; cbn; try contradiction.
  - intros H. pose proof (size_in l x H). lia.
  - destruct y as [s|pkg n l|z|z|n z|k v|ps v rs]; cbn; try contradiction.
    intros H. pose proof (size_in l x H). lia.
Qed.
Lemma strip_ok t x : ty_ok t -> In x (ty_named_targs (if ty_is_ptr t then ty_ptr_elem t else t)) -> ty_ok x.
Proof.
  intros H. destruct t as [s|pkg n l|y|y|n y|k v|ps v rs]; cbn; try contradiction.
  - inversion H as [|? ? ? Hl| | | | |]; subst. rewrite Forall_forall in Hl. auto.
  - inversion H as [| |? Hy| | | |]; subst. destruct y as [s|pkg n l|z|z|n z|k v|ps v rs]; cbn; try contradiction.
    inversion Hy as [|? ? ? Hl| | | | |]; subst. rewrite Forall_forall in Hl. auto.
Qed.

Lemma pfst_types_in (l : list (pinfo * ty)) t : Forall (fun p : pinfo * ty => ty_ok (snd p)) l -> In t (pfst_types l) ->
  ty_ok t /\ ty_size t <= fold_right (fun (q : pinfo * ty) a => ty_size (snd q) + a) 0 l.
Proof.
  intros Hok Ht. unfold pfst_types in Ht. apply in_flat_map in Ht as [p [Hp Ht]].
  rewrite Forall_forall in Hok. pose proof (Hok p Hp) as Hpo. pose proof (size_in_p l p Hp) as Hs.
  destruct Ht as [<-|Ht]; [auto|]. split; [eapply strip_ok; eauto|]. pose proof (strip_size _ _ Ht). lia.
Qed.

Section Knot.
  Variable e : env.
  Variable sh : list imp.
  Variable isb : string -> bool.
  Hypothesis Hu : e_unique_alias e = true.
  Hypothesis Hsh : map i_alias sh = e_shadowed e.

  Definition text_of_func (r rm : table -> ty -> string * table) (st : table) (t : ty) : string * table :=
    match t with
    | TFunc ps v rs =>
        let '((nm, gi, go), st') :=
          gen_MethodFromSignature r rm isb st sh (e_self e) (e_pkg_imports e) (e_locals e) ps v rs in
        (gen_Signature nm gi go, st')
    | _ => (EmptyString, st)
    end.

  Fixpoint knot (k : nat) : (table -> ty -> string * table) * (table -> ty -> string * table) :=
    match k with
    | O => (fun st _ => (EmptyString, st), fun st _ => (EmptyString, st))
    | S j =>
        let rm' := text_of_func (fst (knot j)) (snd (knot j)) in
        (fun st t => gen_ExtractTypeRef (fst (knot j)) rm' isb st sh (e_self e) (e_pkg_imports e) (e_locals e) t, rm')
    end.

  Theorem knot_ok : forall k,
    (forall t, ty_size t < k -> ty_ok t -> forall st, fst (knot k) st t = spec_extract e st t) /\
    (forall ps v rs, ty_size (TFunc ps v rs) <= k -> ty_ok (TFunc ps v rs) ->
       forall st, snd (knot k) st (TFunc ps v rs) = spec_extract e st (TFunc ps v rs)).
  Proof.
    induction k as [|j [IHa IHb]].
    - split; [intros t H; lia|intros ps v rs H; cbn [ty_size] in H; lia].
    - assert (B : forall ps v rs, ty_size (TFunc ps v rs) <= S j -> ty_ok (TFunc ps v rs) ->
                forall st, snd (knot (S j)) st (TFunc ps v rs) = spec_extract e st (TFunc ps v rs)).
      { intros ps v rs Hs Hok st. cbn [knot snd]. unfold text_of_func.
        inversion Hok as [| | | | | |? ? ? Hp Hr Hv]; subst.
        pose proof (tie_func_text e (fst (knot j)) (snd (knot j)) isb st sh ps v rs) as T.
        destruct (gen_MethodFromSignature (fst (knot j)) (snd (knot j)) isb st sh (e_self e) (e_pkg_imports e) (e_locals e) ps v rs)
          as [[[nm gi] go] st'].
        apply T; [|exact Hv].
        intros s t Ht. cbn [ty_size] in Hs.
        assert (Ht' : ty_ok t /\ ty_size t <= j).
        { apply in_app_or in Ht as [Ht|Ht].
          - destruct (pfst_types_in ps t Hp Ht) as [H1 H2]. split; [assumption|lia].
          - destruct (pfst_types_in rs t Hr Ht) as [H1 H2]. split; [assumption|lia]. }
        destruct Ht' as [Hto Hts].
        apply tie_ExtractTypeRef; [exact Hu|exact Hsh| | |].
        + intros s0 x Hx. apply IHa; [pose proof (children_size t x Hx); lia|eapply children_ok; eauto].
        + intros ps0 v0 rs0 -> s0. apply IHb; [assumption|assumption].
        + intros s0 ->. inversion Hto; assumption. }
      split; [|exact B].
      intros t Hs Hok st. cbn [knot fst].
      apply tie_ExtractTypeRef; [exact Hu|exact Hsh| | |].
      + intros s0 x Hx. apply IHa; [pose proof (children_size t x Hx); lia|eapply children_ok; eauto].
      + intros ps v rs -> s0. apply (B ps v rs); [lia|assumption].
      + intros s0 ->. inversion Hok; assumption.
  Qed.

  (* the translated ExtractTypeRef (with addNamed, unusedName, ParamsFromSignatureTuple,
     MethodFromSignature, the naming functions, Declarations/TypeNames/Signature below it),
     unfolded as deep as the type is large, renders every type as the model does and leaves the
     same import table *)
  Theorem tie_extract : forall t, ty_ok t -> forall st,
    fst (knot (S (ty_size t))) st t = spec_extract e st t.
  Proof. intros t Hok st. apply (proj1 (knot_ok (S (ty_size t)))); [lia|assumption]. Qed.
End Knot.

(* ------------------------------------------------------------------ the loop over the declared methods *)
Definition gm_triple (g : string * list gparam * list gparam) :=
  let '(n, i, o) := g in (n, map gp_triple i, map gp_triple o).
Definition gm_of (m : rmeth) := (rm_name m, map pr3 (rm_in m), map pr3 (rm_out m)).

Lemma visible_filter priv own :
  filter (visible priv) own = filter (fun m => priv || exported (m_name m)) (filter is_meth own).
Proof.
  induction own as [|m r IH]; simpl; [reflexivity|]. unfold visible at 1.
  destruct (is_meth m); simpl; [|exact IH]. destruct (priv || exported (m_name m)); simpl; rewrite IH; reflexivity.
Qed.

(* a fold that, for the listed methods, renders the method and appends it = render_methods *)
Lemma own_fold e priv (F : table * list (string * list gparam * list gparam) -> nat -> meth ->
                          table * list (string * list gparam * list gparam)) whole :
  (forall st acc i m, In m whole ->
     map gm_triple (snd (F (st, acc) i m)) =
       (if priv || exported (m_name m)
        then map gm_triple acc ++ [gm_of (fst (render_method e st m))]
        else map gm_triple acc)%list /\
     fst (F (st, acc) i m) = if priv || exported (m_name m) then snd (render_method e st m) else st) ->
  forall l i st acc, (forall m, In m l -> In m whole) ->
    let r := list_fold_from F i l (st, acc) in
    let '(rs, st') := render_methods e st (filter (fun m => priv || exported (m_name m)) l) in
    map gm_triple (snd r) = (map gm_triple acc ++ map gm_of rs)%list /\ fst r = st'.
Proof.
  intros HF. induction l as [|m r IH]; intros i st acc Hsub; cbn [list_fold_from filter render_methods].
  - cbv zeta. rewrite app_nil_r. split; reflexivity.
  - destruct (HF st acc i m (Hsub m (or_introl eq_refl))) as [H1 H2].
    destruct (F (st, acc) i m) as [s1 a1] eqn:EF. cbn [fst snd] in H1, H2.
    specialize (IH (S i) s1 a1 (fun x Hx => Hsub x (or_intror Hx))). cbv zeta in IH |- *.
    destruct (priv || exported (m_name m)) eqn:Ev; cbn [render_methods].
    + destruct (render_method e st m) as [x sx]. cbn [fst snd] in H1, H2. subst s1.
      destruct (render_methods e sx (filter (fun m0 => priv || exported (m_name m0)) r)) as [xs s2].
      destruct IH as [I1 I2]. split; [|exact I2]. rewrite I1, H1. cbn [map]. rewrite <- app_assoc. reflexivity.
    + subst s1. destruct (render_methods e st (filter (fun m0 => priv || exported (m_name m0)) r)) as [xs s2].
      destruct IH as [I1 I2]. split; [|exact I2]. rewrite I1, H1. reflexivity.
Qed.

Lemma tie_own_methods : forall e rec recm isb sh hasPkg priv embedded pi ps psc tpkg tname ttargs own st acc,
  (forall m s t, In m (filter is_meth own) -> In t (pfst_types (m_ps m) ++ pfst_types (m_rs m)) ->
     gen_ExtractTypeRef rec recm isb s sh (e_self e) (e_pkg_imports e) (e_locals e) t = spec_extract e s t) ->
  (forall m, In m (filter is_meth own) -> m_variadic m = true -> exists l0 p x, m_ps m = (l0 ++ [(p, TSlice x)])%list) ->
  let '(gms, st') := gen_own_methods rec recm isb hasPkg st sh (e_self e) (e_pkg_imports e) (e_locals e)
                       (filter is_meth own) priv embedded pi ps psc acc tpkg tname ttargs in
  let '(rs, st'') := render_methods e st (filter (visible priv) own) in
  map gm_triple gms = (map gm_triple acc ++ map gm_of rs)%list /\ st' = st''.
Proof.
  intros e rec recm isb sh hasPkg priv embedded pi ps psc tpkg tname ttargs own st acc HX Hv.
  unfold gen_own_methods, list_fold. unfold_gen_helpers. cbv zeta. rewrite visible_filter.
  match goal with |- context [list_fold_from ?F 0 ?l (st, acc)] =>
    pose proof (own_fold e priv F (filter is_meth own)) as HO end.
  match type of HO with ?A -> _ => assert (HA : A) end.
  { intros s0 a0 i m Hm. cbv beta iota zeta. unfold_gen_helpers. cbv beta iota zeta.
    pose proof (tie_MethodFromSignature e rec recm isb s0 sh (m_ps m) (m_variadic m) (m_rs m)
                  (fun s t Ht => HX m s t Hm Ht) (Hv m Hm)) as T.
    destruct (gen_MethodFromSignature rec recm isb s0 sh (e_self e) (e_pkg_imports e) (e_locals e)
                (m_ps m) (m_variadic m) (m_rs m)) as [[[nm gi] go] st1].
    assert (R : render_method e s0 m =
                let '(x, s1) := render_method e s0 (M "func" (m_ps m) (m_variadic m) (m_rs m) false) in
                (RM (m_name m) (rm_in x) (rm_out x), s1)).
    { unfold render_method. cbn [m_ps m_rs m_variadic m_name].
      destruct (params_from_tuple e s0 (m_variadic m) (m_ps m)) as [xi t1].
      destruct (params_from_tuple e t1 false (m_rs m)) as [xo t2].
      destruct (ensure_param_names (map fst (m_ps m)) (map fst (m_rs m))). reflexivity. }
    rewrite R. destruct (render_method e s0 (M "func" (m_ps m) (m_variadic m) (m_rs m) false)) as [x s1].
    destruct T as [_ [Hi [Ho ->]]].
    destruct priv; destruct (exported (m_name m)); cbn [negb andb orb]; cbv beta iota;
      destruct hasPkg; cbn [fst snd];
      (split; [rewrite ?map_app; cbn [map gm_triple gm_of rm_name rm_in rm_out]; rewrite ?Hi, ?Ho; reflexivity|reflexivity]). }
  specialize (HO HA (filter is_meth own) 0 st acc (fun m H => H)). cbv zeta in HO.
  match goal with |- context [list_fold_from ?F 0 ?l (st, acc)] => destruct (list_fold_from F 0 l (st, acc)) as [s1 a1] end.
  destruct (render_methods e st (filter (fun m => priv || exported (m_name m)) (filter is_meth own))) as [rs st2].
  cbn [fst snd] in HO. destruct HO as [H1 H2]. split; assumption.
Qed.

(* ------------------------------------------------------------------ the dispatch of the field loop *)
(* gen_field_dispatch: where the type argument of every recursive call of the traversal comes from,
   followed through type switches, assertions, local definitions and helpers (dispatchFacts in the
   translator).  The traversal continues with the field's OWN named type — T itself, or the T of *T —
   not with anything computed from it (its Origin(), its Underlying(), a wrapper's result). *)
Lemma tie_field_dispatch :
  gen_field_dispatch = ["named:field.Type()"; "named:field.Type().Elem()"].
Proof. reflexivity. Qed.

Print Assumptions tie_final_names.
Print Assumptions tie_own_methods.
Print Assumptions tie_extract.
Print Assumptions tie_func_text.
Print Assumptions tie_Signature.
Print Assumptions tie_calcImports.
Print Assumptions tie_unusedName.
Print Assumptions tie_addNamed.
Print Assumptions tie_ExtractTypeRef.
Print Assumptions tie_ImportString.
Print Assumptions tie_merge.
Print Assumptions tie_visible.
