(* Tie_C20.v — translator tie (T) for C20.  Compiled on every run of ./check C20 against
   GTgen.ProtoGen, the Gallina file regenerated from gogenproto/gen/generate.go of the current
   tree by harness/cmd/xlate_proto.

   Each lemma states that a regenerated function is *extensionally* the hand-written string-level
   model (GT.ProtoStrModel) — for every world (file tree, working directory, package oracle) and
   every command line.  ProtoStrProofs.v (proved once) carries the theorems of Props/C20.v from
   ProtoModel.run to s_run; so they hold of what the source says now.

   The proofs do not depend on the shape of the generated terms: helper functions are unfolded,
   loops are recognised by what their bodies compute (ProtoTieLib.loop_range_collect & co., the
   step taken from the hand model's side of the equation), side conditions are closed by case
   analysis on the scrutinised primitives ([crush]).  An edit that changes what is computed —
   or leaves the translator's subset — breaks this file.                                       *)
From Coq Require Import String List Bool Arith Ascii ZArith Lia.
Import ListNotations.
From GT Require Import ProtoStrModel ProtoTieLib.
From GTgen Require Import ProtoGen.
Local Open Scope string_scope.
Local Open Scope list_scope.
(* a source that means something else makes the case analysis below run long before it fails *)
Set Default Timeout 600.

(* the struct the record ProtoPrims.Generate stands for has not changed *)
Lemma tie_fields : gen_Generate_fields = Generate_fields.
Proof. reflexivity. Qed.

(* helper functions and constants of the generated file are in the hint database [protogen]
   and unfolded on sight; the three anchors have lemmas of their own *)
(* protoFileHasGoPackage: open, then the byte scanner (primitive scan_reader: the function
   `func(io.ByteReader) (bool, error)` is not translated — ProtoLex.scan_go_package is its model,
   proved equal to the specification, and tied to the code by the scan stream of the check) *)
Lemma tie_protoFileHasGoPackage : forall W p,
  gen_protoFileHasGoPackage W p = s_has_go_package W p.
Proof.
  intros W p. unfold gen_protoFileHasGoPackage, s_has_go_package. autounfold with protogen.
  destruct (fs_open W p) as [r e]. red_ctl.
  destruct (err_is_nil e) eqn:He; red_ctl; [|reflexivity].
  destruct (scan_reader r) as [b e2]. reflexivity.
Qed.

(* findProtos by filepath.WalkDir with a callback that appends *)
Ltac tie_findProtos_walkdir W g dir recurse :=
  unfold gen_findProtos, s_find_protos; autounfold with protogen; red_ctl;
  erewrite (fs_walk_dir_append _ (s_cb (g_InputDir g) recurse))
    by (unfold s_cb; autounfold with protogen; crush);
  destruct (s_walk_root (s_cb (g_InputDir g) recurse) W dir) as [l e]; reflexivity.

(* findProtos by a recursive function over os.ReadDir (translated as structural recursion on the
   entry): Lstat, then the helper H; H satisfies the two unfolding equations of
   ProtoTieLib.manual_walk_eq for the hand callback *)
Ltac unfold_step H := simpl; unfold s_cb; autounfold with protogen; prim_rewrites.
Ltac tie_findProtos_manual W g dir recurse :=
  unfold gen_findProtos, s_find_protos, s_walk_root, fs_lstat; autounfold with protogen; red_ctl;
  destruct (fs_resolve W dir) as [n|]; red_ctl; [|unfold s_cb; crush];
  match goal with
  | |- context [?H W g dir n recurse ?st0] =>
      let F := constr:(fun p d st => H W g p d recurse st) in
      let cb := constr:(s_cb (g_InputDir g) recurse) in
      assert (HFfile : forall p s c r st, F p (File s c r) st = (ENil, st ++ snd (cb p (File s c r) ENil)))
        by (intros; cbv beta; unfold_step H; crush);
      assert (HFdir : forall p s ch st,
                 F p (Dir s ch) st =
                 match fst (cb p (Dir s ch) ENil) with
                 | ENil => fold_entries F p ch (st ++ snd (cb p (Dir s ch) ENil))
                 | _ => (ENil, st ++ snd (cb p (Dir s ch) ENil))
                 end);
      [ intros; cbv beta; unfold_step H; red_loops;
        repeat (split_atom; red_loops);
        try solve [close_goal];
        match goal with |- context [fold_entries ?F' ?p ?ch ?st] =>
          (erewrite (loop_range_fold_entries F' _ _ _ p) by crush)
        end;
        rewrite ?app_nil_r; crush
      | destruct (manual_walk_eq F cb (s_cb_shape _ _) HFfile HFdir n dir st0) as [E1 E2];
        cbv beta in E1; rewrite E1;
        destruct (s_walk cb dir n) as [l e]; cbn [fst snd] in *; subst e; reflexivity ]
  end.

Lemma tie_findProtos : forall W g dir recurse,
  gen_findProtos W g dir recurse = s_find_protos W g dir recurse.
Proof.
  intros W g dir recurse.
  first [ tie_findProtos_walkdir W g dir recurse | tie_findProtos_manual W g dir recurse ].
Qed.

Ltac use_ties :=
  repeat match goal with
  | |- context [gen_findProtos ?W ?g ?d ?r] => rewrite (tie_findProtos W g d r)
  | |- context [gen_protoFileHasGoPackage ?W ?p] => rewrite (tie_protoFileHasGoPackage W p)
  end.

(* rewrite a loop of the goal with the step the hand side collects over *)
Ltac loop_to_collect :=
  match goal with
  | |- context [s_collect ?step ?xs] => erewrite (loop_range_collect _ _ _ step _ xs)
  end.
(* the same for `for i, x := range …` from the second entry on *)
Ltac loop_enum_to_collect :=
  match goal with
  | |- context [s_collect ?step ?xs] => erewrite (loop_range_enum_collect _ _ step _ _ xs)
  end.

(* `for i, x := range InputDir :: Include` with the first entry treated differently: the step of
   the first entry is read off the hand side (s_include_core … "" false) *)
Ltac loop_enum0_to_collect :=
  match goal with
  | |- context [s_include_core ?W ?g ?x0 "" false] =>
      match goal with
      | |- context [s_collect ?step ?xs] =>
          erewrite (loop_range_enum0_collect _ _ (fun x => s_include_core W g x "" false) step _ x0 xs)
      end
  end.

(* an equation between generated code and hand model: case analysis on what both scrutinise
   until the sides coincide, or until a loop of the generated side stands against an s_collect
   of the hand side — then the loop lemma, and the same again for the loop body (first: it
   determines how the body returns an error) and for the continuation *)
Ltac tie_go :=
  intros; repeat match goal with u : unit |- _ => destruct u end;
  unfold_hand; autounfold with protogen; prim_rewrites; index_facts;
  repeat first [ progress use_ties | progress unfold_hand | progress red_loops | progress index_facts
               | split_atom ];
  first [ solve [ close_goal ]
        | loop_to_collect; revgoals; [ tie_ob | tie_go ]
        | loop_enum_to_collect; revgoals; [ tie_ob | lia | tie_go ] ]
with tie_ob :=
  (* a loop body against a step of the hand model: the step is unfolded first *)
  intros; unfold s_include_args, s_include_core; tie_go.

Lemma tie_Run : forall W g, gen_Run W g = s_run W g.
Proof.
  intros W [input protoc rec vt grpc include].
  unfold gen_Run. unfold_hand. autounfold with protogen. red_ctl.
  (* the flags first: the evars of the loop lemmas must not depend on variables that are
     case-split later *)
  destruct vt, grpc; red_ctl;
  (* the loop over InputDir :: Include, if it is one loop with an index *)
  try (loop_enum0_to_collect; revgoals; [ tie_ob | tie_ob | ]);
  (* otherwise the first entry is handled by code of its own: s_include_core is unfolded *)
  first [ tie_go | tie_ob ].
Qed.

Definition TIE_C20_OK := (tie_fields, tie_protoFileHasGoPackage, tie_findProtos, tie_Run).
Print Assumptions TIE_C20_OK.
