(* Tie_GEnumSkel.v — (T) tie of the genum properties C04, C05, C12.

   GEnumSkelGen.gen_skels is regenerated on every check by harness/cmd/xlate_genum_skel from
   genum/gen/enumTemplate.gotmpl of the tree under test: the control skeletons of UnmarshalJSON /
   UnmarshalText / UnmarshalYAML (ordered steps: null / node-kind check, guarded library readings with
   their Parse attempts, conversions and `len` gates, own-unmarshaler attempts), of the encoders, of
   Parse<T> (switches, constants of a case, the -caseInsensitive fallback), of the value table, Values,
   StringValues, String, IsValid and the trait accessor, and the option flags gating each of them.

   The tie is SEMANTIC: nothing here compares the regenerated record with a hand-written one.  It
   is shown to satisfy the executable well-formedness predicate GEnumModel.skels_ok (by computation),
   and the property theorems — proved in GEnumProofs / GEnumCodecTraits for every record satisfying
   skels_ok — are instantiated at it.  The judge of the farm evaluates the same record
   (judge_cXX_sk gen_skels).  A template edit that adds, removes or reorders an attempt in a way that
   keeps the decoders sound and complete is absorbed; one that inverts a guard, drops a range check,
   a family, the null check, moves the name attempt, gates a block on the wrong family or codec,
   changes the Parse switches / the table functions, or leaves the skeleton language (StOpaque)
   makes gen_skels_ok fail. *)
From Coq Require Import String List Bool ZArith.
From GT Require Import Base.GEnumStr.
From GT Require Import GEnumModel GEnumProofs GEnumCodecTraits.
From GTgen Require Import GEnumSkelGen.
Import ListNotations.
Local Open Scope Z_scope.

Lemma gen_skels_ok : skels_ok gen_skels = true.
Proof. vm_compute. reflexivity. Qed.

(* the package genum/gen as the compiler selects it: the template the skeletons were read from is the one (and only)
   template embedded and executed, built without a function map, and the package holds no mutable package-level
   state (memo tables, caches — seeded changes C14-12, C12-31), no init functions, no build-constrained files *)
Lemma gen_srcfacts_ok : srcfacts_ok gen_srcfacts = true.
Proof. vm_compute. reflexivity. Qed.

(* C04: the functions the current template emits are the ones Props/C04.v speaks about *)
Theorem tie_C04_functions : forall d o t, gen d o = Built t ->
  sem_values_sk gen_skels t = sem_values t /\ sem_stringvalues_sk gen_skels t = sem_stringvalues t
  /\ (forall e, sem_isvalid_sk gen_skels t e = sem_isvalid t e) /\ (forall e, sem_string_sk gen_skels t e = sem_string t e)
  /\ (forall x, sem_parse_sk (sk_parse gen_skels) t x = sem_parse t x)
  /\ sk_parsestring gen_skels = true /\ sk_parsegeneric gen_skels = true.
Proof. exact (skel_functions gen_skels gen_skels_ok). Qed.

(* C05 at the regenerated record *)
Theorem tie_C05_encode : forall d o t, wf_defn d -> gen d o = Built t -> forall v,
  encode_json_sk gen_skels t v = quote (string_spec d v)
  /\ encode_text_sk gen_skels t v = string_spec d v /\ encode_yaml_sk gen_skels t v = string_spec d v.
Proof.
  intros d o t Hwf Hg v. split; [|split].
  - exact (encode_json_sk_spec gen_skels gen_skels_ok d o t Hwf Hg v).
  - exact (encode_text_sk_spec gen_skels gen_skels_ok d o t Hwf Hg v).
  - exact (encode_yaml_sk_spec gen_skels gen_skels_ok d o t Hwf Hg v).
Qed.
Theorem tie_C05_roundtrip_json : forall d o t, wf_defn d -> gen d o = Built t ->
  forall v jv, In v (values_spec (d_consts d)) -> jv_null jv = false ->
  jv_string jv = Some (sem_string t v) -> decode_json_sk gen_skels t jv = Some v.
Proof. exact (roundtrip_json_sk gen_skels gen_skels_ok). Qed.
Theorem tie_C05_roundtrip_text : forall d o t, wf_defn d -> gen d o = Built t ->
  forall v tv, In v (values_spec (d_consts d)) ->
  tv_text tv = sem_string t v -> decode_text_sk gen_skels t tv = Some v.
Proof. exact (roundtrip_text_sk gen_skels gen_skels_ok). Qed.
Theorem tie_C05_roundtrip_yaml : forall d o t, wf_defn d -> gen d o = Built t ->
  forall v yv, In v (values_spec (d_consts d)) -> yv_scalar yv = true ->
  yv_value yv = sem_string t v -> decode_yaml_sk gen_skels t yv = Some v.
Proof. exact (roundtrip_yaml_sk gen_skels gen_skels_ok). Qed.
Theorem tie_C05_reject_json : forall d o t jv, gen d o = Built t ->
  (forall x, reading (jv_string jv) (jv_u64 jv) (jv_i64 jv) (jv_native jv) t x -> rejectable d o t x) ->
  decode_json_sk gen_skels t jv = None.
Proof. exact (reject_json_sk gen_skels gen_skels_ok). Qed.
Theorem tie_C05_reject_text : forall d o t tv, gen d o = Built t ->
  (forall x, reading (Some (tv_text tv)) None None (tv_native tv) t x -> rejectable d o t x) ->
  decode_text_sk gen_skels t tv = None.
Proof. exact (reject_text_sk gen_skels gen_skels_ok). Qed.
Theorem tie_C05_reject_yaml : forall d o t yv, gen d o = Built t ->
  (forall x, reading (Some (yv_value yv)) (yv_u64 yv) (yv_i64 yv) (yv_native yv) t x -> rejectable d o t x) ->
  decode_yaml_sk gen_skels t yv = None.
Proof. exact (reject_yaml_sk gen_skels gen_skels_ok). Qed.
Theorem tie_C05_reject_json_null : forall t jv, jv_null jv = true -> decode_json_sk gen_skels t jv = None.
Proof. exact (decode_json_null_sk gen_skels gen_skels_ok). Qed.

(* C12 at the regenerated record *)
Theorem tie_C12_accessor : forall c e, sem_accessor_sk gen_skels c e = sem_accessor c e.
Proof. exact (skel_accessor gen_skels gen_skels_ok). Qed.
Theorem tie_C12_partial_json : forall d o t, wf_defn d -> gen d o = Built t ->
  forall c r jv, In c (t_cols t) -> col_parsable c = true -> In r (col_rows c) ->
  jv_null jv = false -> json_holds_decodable c jv (cl_val (r_cell r)) ->
  unambiguous t (json_attempts_sk gen_skels t jv) (g_z (r_owner r)) ->
  decode_json_sk gen_skels t jv = Some (g_z (r_owner r)).
Proof. exact (json_partial gen_skels gen_skels_ok). Qed.
Theorem tie_C12_partial_yaml : forall d o t, wf_defn d -> gen d o = Built t ->
  forall c r yv, In c (t_cols t) -> col_parsable c = true -> In r (col_rows c) ->
  yv_scalar yv = true -> yaml_holds_decodable c yv (cl_val (r_cell r)) ->
  unambiguous t (yaml_attempts_sk gen_skels t yv) (g_z (r_owner r)) ->
  decode_yaml_sk gen_skels t yv = Some (g_z (r_owner r)).
Proof. exact (yaml_partial gen_skels gen_skels_ok). Qed.

Print Assumptions gen_skels_ok.
Print Assumptions gen_srcfacts_ok.
Print Assumptions tie_C04_functions.
Print Assumptions tie_C05_encode.
Print Assumptions tie_C05_roundtrip_json.
Print Assumptions tie_C05_roundtrip_text.
Print Assumptions tie_C05_roundtrip_yaml.
Print Assumptions tie_C05_reject_json.
Print Assumptions tie_C05_reject_text.
Print Assumptions tie_C05_reject_yaml.
Print Assumptions tie_C05_reject_json_null.
Print Assumptions tie_C12_accessor.
Print Assumptions tie_C12_partial_json.
Print Assumptions tie_C12_partial_yaml.
