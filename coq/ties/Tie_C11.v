(* Tie_C11.v — translator tie (T) for C11.  Compiled on every run of ./check C11 against
   GTgen.BitSetGen, the Gallina file regenerated from set/bit_set.go of the current tree by
   harness/cmd/xlate_bitset.  Each lemma states, for ALL arguments, that a regenerated function
   equals the hand-written model the theorems of Props/C11.v are about — so those theorems hold
   of what the source says now.

   The proofs do not depend on the shape of the regenerated terms (tactics of
   Base/SetLoopTie.v: loop simulation with the state map found among the tuple
   re-arrangements, case split on boolean atoms, induction for early-return loops): renamed
   locals, extracted or inlined helpers, index loops, `if c {f = true}` for `f = f || c`,
   early-continue, MakeBitSet through Add … leave them intact.  An edit to bit_set.go that
   changes the meaning of a function (or leaves the translator's subset) breaks this file.   *)
From Coq Require Import NArith List Bool Arith.
Import ListNotations.
From GT Require Import Base.SetLoopTie BitSetModel.
From GTgen Require Import BitSetGen.

Ltac prep := intros; gen_unfold; unfold bs_make, bs_add, bs_remove, bs_maskof, bs_has, bs_add_step, bs_remove_step; cbv zeta.

Lemma tie_MakeBitSet : forall items, gen_MakeBitSet items = bs_make items.
Proof. prep. fold_tie_g. Qed.

Lemma tie_Add : forall items s, gen_Add s items = bs_add s items.
Proof. prep. fold_tie_g. Qed.

Lemma tie_Remove : forall items s, gen_Remove s items = bs_remove s items.
Proof. prep. fold_tie_g. Qed.

Lemma tie_MaskOf : forall s f, gen_MaskOf s f = bs_maskof s f.
Proof. prep. bool_crush. Qed.

Lemma tie_Has : forall s f, gen_Has s f = bs_has s f.
Proof. prep. bool_crush. Qed.

Lemma tie_HasAny : forall flags s, gen_HasAny s flags = bs_hasany s flags.
Proof.
  prep. loop_tie_with ltac:(cbn [loop_ret bs_hasany]; unfold bs_has).
Qed.

Definition TIE_C11_OK := (tie_MakeBitSet, tie_Add, tie_Remove, tie_MaskOf, tie_Has, tie_HasAny).
Print Assumptions TIE_C11_OK.
