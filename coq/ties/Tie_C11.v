(* Tie_C11.v — translator tie (T) for C11.  Compiled on every run of ./check C11 against
   GTgen.BitSetGen, the Gallina file regenerated from set/bit_set.go of the current tree by
   harness/cmd/xlate_bitset.  Each lemma states that a regenerated function equals the
   hand-written model the theorems of Props/C11.v are about — so those theorems hold of what
   the source says now.  An edit to bit_set.go that changes its meaning (or leaves the
   translator's subset) breaks this file. *)
From Coq Require Import NArith List Bool.
Import ListNotations.
From GT Require Import BitSetModel.
From GTgen Require Import BitSetGen.
Local Open Scope N_scope.

Lemma tie_MakeBitSet : forall items, gen_MakeBitSet items = bs_make items.
Proof. reflexivity. Qed.

Lemma tie_Add : forall items s, gen_Add s items = bs_add s items.
Proof.
  intros items s. unfold gen_Add, bs_add. cbv zeta. generalize false. revert s.
  induction items as [|f fs IH]; intros s b; [reflexivity|].
  cbn [fold_left]. cbv beta iota. rewrite IH. reflexivity.
Qed.

Lemma tie_Remove : forall items s, gen_Remove s items = bs_remove s items.
Proof.
  intros items s. unfold gen_Remove, bs_remove. cbv zeta. generalize false. revert s.
  induction items as [|f fs IH]; intros s b; [reflexivity|].
  cbn [fold_left]. cbv beta iota. rewrite IH. reflexivity.
Qed.

Lemma tie_MaskOf : forall s f, gen_MaskOf s f = bs_maskof s f.
Proof. reflexivity. Qed.

Lemma tie_Has : forall s f, gen_Has s f = bs_has s f.
Proof. reflexivity. Qed.

Lemma tie_HasAny : forall flags s, gen_HasAny s flags = bs_hasany s flags.
Proof.
  intros flags s. unfold gen_HasAny.
  match goal with |- context [fold_left ?F _ _] => set (FF := F) end.
  assert (Hsome : forall fl r, fold_left FF fl (tt, Some r) = (tt, Some r)).
  { induction fl as [|f fs IH]; intros r; [reflexivity|]. cbn [fold_left]. apply IH. }
  assert (H : forall fl, fold_left FF fl (tt, None)
                         = (tt, if bs_hasany s fl then Some true else None)).
  { induction fl as [|f fs IH]; [reflexivity|]. cbn [fold_left bs_hasany].
    unfold FF at 2. cbv beta iota. change (gen_Has s f) with (bs_has s f).
    destruct (bs_has s f); [apply Hsome | apply IH]. }
  rewrite H. destruct (bs_hasany s flags); reflexivity.
Qed.

Definition TIE_C11_OK := (tie_MakeBitSet, tie_Add, tie_Remove, tie_MaskOf, tie_Has, tie_HasAny).
Print Assumptions TIE_C11_OK.
