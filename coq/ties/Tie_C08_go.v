(* Tie_C08_go.v — (T) tie of C08 for the Go code of the generator.  Compiled on every run of
   ./check C08 against GTgen.GsortGoGen: the functions of gsort/gen that createSorterDesc,
   SortFieldDescs.Validate, SorterDesc.PriorityTree and CompareLine.String reach (helpers included)
   and the generated Less of the package's sort types, translated by harness/cmd/xlate_gsort_go
   (go/ast + go/types) into the mini-Go of GSortGoModel.v.  The translated program is RUN in the
   kernel (int64 arithmetic, heap-allocated structs, maps, sets, the sort entry points as an
   insertion sort over the translated Less / comparator) on the family GSortGoModel.go_family —
   a corpus (equal priorities, a tag pasted twice, `S` next to `*S`, priorities at the ends of
   int64 and more than 2^63 apart, names and numbers that run into one another when concatenated,
   bools, accessors, no tag, empty sorter name) and 400 pseudo-random definitions over pools of
   such names, sorters and priorities — and must produce what the Coq model of the generator
   (GSortModel.create / priority_tree / cl_string) produces: the same refusals, the same sorters in
   the same order, the same chain of (IsBool, Accessor, rendered comparison) for each.

   The tie is semantic: it does not look at how the Go code is written (index or range loops,
   cursor or back-to-front construction of the chain, helpers, sort.Sort or slices.SortFunc,
   concatenation or Sprintf — refactors/C08-r1..r3, C14-r1 leave it intact) but at what it
   computes (a comparator that overflows, a key dropped by a colliding string key, a changed
   rendering, another bool test break it — seeded C08-11, -12, -22, -31, -32, C13-21).  It is bounded
   by the family, not a proof for all definitions.                                                  *)
From Coq Require Import List String Bool.
From GT Require Import GSortModel GSortGoModel.
From GTgen Require Import GsortGoGen.
Import ListNotations.

Lemma tie_gsort_go : go_agrees gen_prog = true.
Proof. vm_compute. reflexivity. Qed.

(* the tag parser: sortFieldDescFromTag + sfdFromLine (and what they reach), translated as well
   and run on the raw struct-tag text of 2846 tag lists (0..3 pairs over the keys gsort / json /
   xgsort and 17 option texts: well-formed, bare, signed and zero-padded priorities, the ends of
   int64 and one beyond, malformed ones): the same refusals and the same (sorter, priority,
   accessor) triples as GSortTagModel.parse_all o gsort_options.  reflect.StructTag.Lookup,
   strings.Split(.., ","), strings.Replace(.., 1), strconv.Atoi / Quote are primitives of the
   interpreter (values without escape sequences).  A pointer-receiver method called on a local
   VALUE (its address is taken) is outside the subset: the tie then fails rather than guess. *)
Lemma tie_gsort_go_tags : tags_agree gen_prog = true.
Proof. vm_compute. reflexivity. Qed.

(* the family is not a family of refusals *)
Lemma tie_gsort_go_nonvacuous : Nat.leb 200 go_family_accepted = true.
Proof. vm_compute. reflexivity. Qed.

Print Assumptions tie_gsort_go.
Print Assumptions tie_gsort_go_tags.
Print Assumptions tie_gsort_go_nonvacuous.
