(* Tie_C14.v — static tie (T) for C14.  Compiled on every run of ./check C14 against
   GTgen.MapRangeGen, the list of every source of map iteration order in the generator packages
   (gsort/gen, genum/gen, gerror/gen, gencommon; tests excluded), regenerated from the current
   tree by harness/cmd/xlate_maprange (go/types through go/packages): every `range` over a
   map-typed expression, every call of maps.Keys / maps.Values / maps.All, and every call of a
   function or method of gtools/set that itself iterates a map and returns something (Set.Slice,
   ...; found by scanning that package, not listed by hand).  Today there are only `range`
   statements; a row for a call would read (pkg, file, function, "call <fun>", callee).

   What is compared (session 2): NOT the names of files, functions and variables (a rename, a
   helper extraction, a changed loop form would break such a tie although nothing changed) but,
   per source of iteration order, the triple
       (package, kind of the map's key type, EFFECT CLASS of the loop body)
   as a sorted list (`gen_order_sources`).  The effect class is computed by the translator from
   the loop body's syntax, following calls into functions of the same package: can the body
   return (a search), append to / assign to / set a constant in / delete from a variable that
   outlives the iteration, call a function that writes to the outside (log, fmt, os, sort,
   mutating slices functions), and is a variable it writes sorted later in the function
   (`then-sorted`).  So the tie now also pins WHAT each loop may do with the order — which the
   name-based tie did not — and no longer where it stands or what it is called.  The old
   detailed list (`gen_map_ranges`) is still regenerated, for diagnostics only.

   `expected_sources` is the set of map ranges the GenDet model accounts for.  Go randomises the order
   of each of them; the model (GenDetModel.v) takes that order as an argument and Props/C14.v
   proves the generators' tables independent of it:

   gencommon/comments.go  CommentsFromObj        cmap          returns at the first entry whose key
                                                                is the GenDecl of the one spec looked
                                                                for: at most one entry matches
                                                                (lookup_first, C14_lookup_first)
   gencommon/imports.go   ImportHandler.unusedName ih.imports  (fix 0af0409) `bound(candidate)`: returns
                                                                true at the first entry whose alias is
                                                                the candidate, i.e. an existsb over the
                                                                entries: the same in every order
                                                                (name_bound, C14_name_bound)
   gencommon/imports.go   ImportHandler.UseName  ih.imports    (fix 27a8c65) sets the inUse flag of
                                                                every entry whose alias equals the
                                                                given name: each write replaces one
                                                                entry in place and keys are distinct,
                                                                so the resulting map is the same in
                                                                every order (use_name, use_name_canon,
                                                                C14_use_name); the bool result is an
                                                                existsb (use_name_found)
   gencommon/imports.go   ImportHandler.GetActive ih.imports   in-use map entries (map order) ++ in-use
                                                                shadowed specs (a slice, source order),
                                                                then sort.Slice by (PkgPath, Alias);
                                                                entries with equal (path, alias) are
                                                                equal — an alias names one import spec,
                                                                only `_` can repeat and then the specs
                                                                coincide (get_active, C14_imports,
                                                                C14_imports_nodup)
   gencommon/interface.go allpkgs.findPKgByName   pkg.Imports   returns at the entry whose key
                                                                equals pkgName: keys are unique
                                                                (lookup_first, C14_lookup_first)
   gencommon/interface.go allpkgs.namedTypeToInterface methodsToAdd
                                                                appends the promoted embedded methods
                                                                to Interface.Methods in map order;
                                                                every consumer either sorts them
                                                                (Methods.Exported/Private) or files
                                                                them under their name (gerror's
                                                                FactoryComments); names are the
                                                                map's keys and differ from the
                                                                parent's (iface_methods,
                                                                C14_iface_methods_sorted,
                                                                C14_iface_comment_lookup)
   genum/gen/generate.go  processDuplicates       data          per-group deletions commute, then
                                                                sort.Sort(traits) (process_dups,
                                                                C14_genum_dups); the warnings logged
                                                                in this loop do depend on the order
                                                                (C14_warning_order_is_choice): stderr
   gsort/gen/sorter_desc.go createSorterDesc      descs (x2)    Validate loop: every failure is the
                                                                same error value; result loop: order
                                                                erased by sort.Sort(g.SorterDescs)
                                                                (gsort_type_descs, C14_gsort)

   A map range that is added to (or removed from) a generator breaks this tie; ./check C14 then
   runs the widened hash-farm search for a definition on which two generations differ.        *)
From Coq Require Import List String.
Import ListNotations.
From GTgen Require Import MapRangeGen.
Local Open Scope string_scope.

(* (package, key kind, effect class), sorted.  In the order of the table above:
   CommentsFromObj (interface key, return); unusedName, findPKgByName (return);
   UseName (set-const); GetActive (append, then sorted); namedTypeToInterface (append: consumers
   sort or file by name); processDuplicates (assigns the stripped traits, logs, then sorted);
   createSorterDesc: Validate loop (return), result loop (append: the caller sorts). *)
Definition expected_sources : list (string * string * string) := [
  ("gencommon", "interface", "return");
  ("gencommon", "string", "append");
  ("gencommon", "string", "append+then-sorted");
  ("gencommon", "string", "return");
  ("gencommon", "string", "return");
  ("gencommon", "string", "set-const");
  ("genum/gen", "uint64", "assign+call:log.Printf+call:slices.DeleteFunc+then-sorted");
  ("gsort/gen", "string", "append");
  ("gsort/gen", "string", "return")
].

Lemma tie_map_ranges : gen_order_sources = expected_sources.
Proof. reflexivity. Qed.

(* Process-wide state.  gen_state_types lists (package, type) of every package-level variable of the generator
   packages whose type is not a basic type: state that survives from one generation to the next
   inside one process ("repeated runs in one process").  Accounted for:

   gencommon ErrorInterface / ContextInterface   set once in init() from the standard library,
                                                  read only afterwards
   gencommon iFaceCache (+ iFaceCacheMu)          memo of FindIFaceDef keyed by "<package path>.<type
                                                  name>" of the interface looked up; callers pass
                                                  standard-library / yaml.v3 interfaces, whose
                                                  definition does not depend on the package being
                                                  generated: a pure function of its key
   genum/gerror/gsort  *template.Template         parsed once at package initialisation from the
                                                  embedded template text, only executed afterwards

   Every `func init()` of the packages is a row too, ("<package>", "func init()") — the one of
   gencommon/defined_interfaces.go sets ErrorInterface / ContextInterface from the standard library;
   a new init() (which could rewrite a template or a table before the first generation) breaks the
   tie.  The file set is the one go/packages type-checks: every file of the package that takes
   part in the build, whatever its name.

   Not listed (and therefore free to come and go): variables of a basic type, and READ-ONLY tables —
   variables every use of which only reads plain elements (operand of range / len / an index or
   selector expression that is read), e.g. genum's reservedIdentifiers.  Names and files of the
   variables do not enter, only (package, type).

   A new cache (map, sync.Map, slice, pointer ...) at package level breaks this tie; ./check C14
   then runs the widened search, whose twin-package batches generate equally named types of
   different packages in one process in both orders.                                          *)
Definition expected_state_types : list (string * string) := [
  ("gencommon", "*types.Interface");
  ("gencommon", "*types.Interface");
  ("gencommon", "func init()");
  ("gencommon", "map[string]*types.Interface");
  ("gencommon", "sync.Mutex");
  ("genum/gen", "*template.Template");
  ("gerror/gen", "*template.Template");
  ("gsort/gen", "*template.Template")
].

Lemma tie_pkg_state : gen_state_types = expected_state_types.
Proof. reflexivity. Qed.

Print Assumptions tie_map_ranges.
Print Assumptions tie_pkg_state.
