(* Tie_C14.v — static tie (T) for C14.  Compiled on every run of ./check C14 against
   GTgen.MapRangeGen, the list of every source of map iteration order in the generator packages
   (gsort/gen, genum/gen, gerror/gen, gencommon; tests excluded), regenerated from the current
   tree by harness/cmd/xlate_maprange (go/types through go/packages): every `range` over a
   map-typed expression, every call of maps.Keys / maps.Values / maps.All, and every call of a
   function or method of gtools/set that itself iterates a map and returns something (Set.Slice,
   ...; found by scanning that package, not listed by hand).  Today there are only `range`
   statements; a row for a call would read (pkg, file, function, "call <fun>", callee).

   `expected` is the set of map ranges the GenDet model accounts for.  Go randomises the order
   of each of them; the model (GenDetModel.v) takes that order as an argument and Props/C14.v
   proves the generators' tables independent of it:

   gencommon/comments.go  CommentsFromObj        cmap          returns at the first entry whose key
                                                                is the GenDecl of the one spec looked
                                                                for: at most one entry matches
                                                                (lookup_first, C14_lookup_first)
   gencommon/imports.go   ImportHandler.UseName  ih.imports    (fix 27a8c65) sets the inUse flag of
                                                                every entry whose alias equals the
                                                                given name: each write replaces one
                                                                entry in place and keys are distinct,
                                                                so the resulting map is the same in
                                                                every order (use_name, use_name_canon,
                                                                C14_use_name); the bool result is an
                                                                existsb (use_name_found)
   gencommon/imports.go   ImportHandler.GetActive ih.imports   in-use map entries (map order) ++ in-use
                                                                shadowed specs (a slice, source order),
                                                                then sort.Slice by (PkgPath, Alias);
                                                                entries with equal (path, alias) are
                                                                equal — an alias names one import spec,
                                                                only `_` can repeat and then the specs
                                                                coincide (get_active, C14_imports,
                                                                C14_imports_nodup)
   gencommon/interface.go allpkgs.findPKgByName   pkg.Imports   returns at the entry whose key
                                                                equals pkgName: keys are unique
                                                                (lookup_first, C14_lookup_first)
   gencommon/interface.go allpkgs.namedTypeToInterface methodsToAdd
                                                                appends the promoted embedded methods
                                                                to Interface.Methods in map order;
                                                                every consumer either sorts them
                                                                (Methods.Exported/Private) or files
                                                                them under their name (gerror's
                                                                FactoryComments); names are the
                                                                map's keys and differ from the
                                                                parent's (iface_methods,
                                                                C14_iface_methods_sorted,
                                                                C14_iface_comment_lookup)
   genum/gen/generate.go  processDuplicates       data          per-group deletions commute, then
                                                                sort.Sort(traits) (process_dups,
                                                                C14_genum_dups); the warnings logged
                                                                in this loop do depend on the order
                                                                (C14_warning_order_is_choice): stderr
   gsort/gen/sorter_desc.go createSorterDesc      descs (x2)    Validate loop: every failure is the
                                                                same error value; result loop: order
                                                                erased by sort.Sort(g.SorterDescs)
                                                                (gsort_type_descs, C14_gsort)

   A map range that is added to (or removed from) a generator breaks this tie; ./check C14 then
   runs the widened hash-farm search for a definition on which two generations differ.        *)
From Coq Require Import List String.
Import ListNotations.
From GTgen Require Import MapRangeGen.
Local Open Scope string_scope.

Definition expected : list (string * string * string * string * string) := [
  ("gencommon", "comments.go", "CommentsFromObj", "cmap", "map[ast.Node][]*ast.CommentGroup");
  ("gencommon", "imports.go", "ImportHandler.UseName", "ih.imports", "map[string]*gencommon.ImportDesc");
  ("gencommon", "imports.go", "ImportHandler.GetActive", "ih.imports", "map[string]*gencommon.ImportDesc");
  ("gencommon", "interface.go", "allpkgs.findPKgByName", "pkg.Imports", "map[string]*packages.Package");
  ("gencommon", "interface.go", "allpkgs.namedTypeToInterface", "methodsToAdd", "map[string]*gencommon.Method");
  ("genum/gen", "generate.go", "processDuplicates", "data", "map[uint64]gen.Values");
  ("gsort/gen", "sorter_desc.go", "createSorterDesc", "descs", "map[string]*gen.SorterDesc");
  ("gsort/gen", "sorter_desc.go", "createSorterDesc", "descs", "map[string]*gen.SorterDesc")
].

Lemma tie_map_ranges : gen_map_ranges = expected.
Proof. reflexivity. Qed.

(* Process-wide state.  gen_pkg_state lists every package-level variable of the generator
   packages whose type is not a basic type: state that survives from one generation to the next
   inside one process ("repeated runs in one process").  Accounted for:

   gencommon ErrorInterface / ContextInterface   set once in init() from the standard library,
                                                  read only afterwards
   gencommon iFaceCache (+ iFaceCacheMu)          memo of FindIFaceDef keyed by "<package path>.<type
                                                  name>" of the interface looked up; callers pass
                                                  standard-library / yaml.v3 interfaces, whose
                                                  definition does not depend on the package being
                                                  generated: a pure function of its key
   genum/gerror/gsort  *template.Template         parsed once at package initialisation from the
                                                  embedded template text, only executed afterwards

   A new cache (map, sync.Map, slice, pointer ...) at package level breaks this tie; ./check C14
   then runs the widened search, whose twin-package batches generate equally named types of
   different packages in one process in both orders.                                          *)
Definition expected_state : list (string * string * string * string) := [
  ("gencommon", "defined_interfaces.go", "ContextInterface", "*types.Interface");
  ("gencommon", "defined_interfaces.go", "ErrorInterface", "*types.Interface");
  ("gencommon", "defined_interfaces.go", "iFaceCache", "map[string]*types.Interface");
  ("gencommon", "defined_interfaces.go", "iFaceCacheMu", "sync.Mutex");
  ("genum/gen", "generate.go", "enumTemplate", "*template.Template");
  ("gerror/gen", "generate.go", "sortTemplate", "*template.Template");
  ("gsort/gen", "generate.go", "sortTemplate", "*template.Template")
].

Lemma tie_pkg_state : gen_pkg_state = expected_state.
Proof. reflexivity. Qed.

Print Assumptions tie_map_ranges.
Print Assumptions tie_pkg_state.
