(* Tie_C17.v — translator tie (T) for C17.  Compiled on every run of ./check C17 against
   GTgen.SetCodecGen, the Gallina file regenerated from set/set.go of the current tree by
   harness/cmd/xlate_set -part codec: MarshalJSON, UnmarshalJSON, MarshalYAML, UnmarshalYAML and
   the functions they call (Slice, Add, helpers), with json.Marshal, json.Unmarshal(data, &v)
   and Node.Decode(&v) as Section variables.  Each lemma states, for ALL arguments and ALL
   behaviours of the three library functions, that a regenerated method equals the model
   (SetCodecModel.v) the theorems of Props/C17.v are about:

     MarshalJSON    = json.Marshal applied to the listing (nil slice for the empty set)
     MarshalYAML    = the listing itself, no error
     UnmarshalJSON  = decode INTO A NIL SLICE; on success Add all decoded items to the target,
                      on error leave the target alone and report the error
     UnmarshalYAML  = the same with Node.Decode into an empty non-nil slice

   In particular the slice variable handed to the library is fresh (nil / empty): a method that
   decodes into anything else (a reused element variable, the set's own Slice(), …) either leaves
   the translator's subset or fails these lemmas.  Proofs by the shape-independent tactics of
   Base/SetLoopTie.v and SetTieLemmas.v.                                                     *)
From Coq Require Import List Bool Arith.
Import ListNotations.
From GT Require Import Base.SetLoopTie SetModel SetGenPrims SetTieLemmas SetCodecModel.
From GTgen Require Import SetCodecGen.

Section Tie.
  Variable T : Type.
  Variable eqb : T -> T -> bool.
  Variable zero : T.
  Variables jbytes ynode jresult : Type.
  Variable marshal : option (list T) -> jresult.
  Variable junm : jbytes -> option (list T) -> option (list T) * bool.
  Variable ydec : ynode -> option (list T) -> option (list T) * bool.

  (* the model's decoders (document, current value of the slice as a list) in terms of the
     library functions: the model's [] is Go's nil slice for JSON (`var v []T`) and the empty
     non-nil slice for YAML (`temp := []T{}`) *)
  Definition jdec (d : jbytes) (l0 : list T) : option (list T) :=
    let '(v, e) := junm d (match l0 with [] => None | _ => Some l0 end) in
    if e then None else Some (sl_items v).
  Definition ydecl (d : ynode) (l0 : list T) : option (list T) :=
    let '(v, e) := ydec d (Some l0) in
    if e then None else Some (sl_items v).
  (* (target afterwards, error?) *)
  Definition result_of (s : sset T) (o : option (sset T)) : sset T * bool :=
    match o with Some s' => (s', false) | None => (s, true) end.

  Ltac prep := intros; gen_unfold; cbv zeta.
  Ltac canon_steps := unfold put_step, add_step', rem_step', alloc.

  Lemma listing_slice (s : sset T) : listing (elems s) = s_slice s.
  Proof. unfold listing, s_slice. destruct (elems s); reflexivity. Qed.

  Lemma tie_MarshalJSON : forall s,
    gen_MarshalJSON T eqb zero jbytes ynode jresult marshal junm ydec s = set_marshal marshal (elems s).
  Proof.
    intros s. unfold set_marshal. rewrite listing_slice. prep.
    f_equal. slice_goal T zero s.
  Qed.

  Lemma tie_MarshalYAML : forall s,
    gen_MarshalYAML T eqb zero jbytes ynode jresult marshal junm ydec s = (listing (elems s), false).
  Proof.
    intros s. rewrite listing_slice. prep.
    f_equal. slice_goal T zero s.
  Qed.

  Ltac unmarshal_tie s Hw :=
    unfold result_of, set_unmarshal, jdec, ydecl; prep; unfold sl_make; cbn [repeat];
    match goal with
    | |- context [junm ?d ?v0] => destruct (junm d v0) as [? [|]]
    | |- context [ydec ?d ?v0] => destruct (ydec d v0) as [? [|]]
    end; cbv beta iota zeta; cbn [negb]; [reflexivity|];
    match goal with
    | |- context [s_add eqb s ?l] => rewrite (s_add_canon T eqb s l Hw)
    end;
    canon_steps; unfold set_is_nil; destruct (is_nil s) eqn:?; cbv beta iota zeta; fold_tie.

  Lemma tie_UnmarshalJSON : forall s d, wfn s ->
    gen_UnmarshalJSON T eqb zero jbytes ynode jresult marshal junm ydec s d
    = result_of s (set_unmarshal eqb jdec s d).
  Proof. intros s d Hw. unmarshal_tie s Hw. Qed.

  Lemma tie_UnmarshalYAML : forall s d, wfn s ->
    gen_UnmarshalYAML T eqb zero jbytes ynode jresult marshal junm ydec s d
    = result_of s (set_unmarshal eqb ydecl s d).
  Proof. intros s d Hw. unmarshal_tie s Hw. Qed.
End Tie.

Definition TIE_C17_OK := (tie_MarshalJSON, tie_MarshalYAML, tie_UnmarshalJSON, tie_UnmarshalYAML).
Print Assumptions TIE_C17_OK.
