(* Tie_GEnumTraits.v — (T) tie of C05 / C12, Go side: genum/gen/traits.go.

   GEnumTraitsGen is regenerated on every check by harness/cmd/xlate_genum_traits from traits.go of the
   tree under test: the kind table of extractUnderlying, the form of hasUnderlying, the filter
   condition of every GetParsable… method as a set of conjuncts (after inlining helper methods and
   closures), the interfaces the implements* predicates look up.

   Shown here, by case analysis over the finite domains (semantic — the order of the conjuncts, helper
   extraction, loop form, local names do not matter):
     - GEnumModel.extract_underlying is extractUnderlying on every basic kind and on non-basic types;
     - GEnumModel.family t k (own_of c) is the filter of GetParsableUnderlying<K>For<C>, family_own t
       (own_of c) that of GetParsable<C>Unmarshalable, for every family the decoders' skeletons range over;
     - implements<C>Unmarshaler asks for the unmarshaler interface of codec C. *)
From Coq Require Import String List Bool.
From GT Require Import GEnumModel.
From GTgen Require Import GEnumTraitsGen.
Import ListNotations.
Local Open Scope string_scope.

(* extractUnderlying *)
Lemma tie_extract_underlying : forall b, In b (BNonBasic :: all_basic_kinds) ->
  extract_from_table gen_underlying_table gen_underlying_nonbasic gen_underlying_fallthrough b
  = (Some (extract_underlying b), match b with BNonBasic => false | _ => true end).
Proof. intros b H. simpl in H. repeat (destruct H as [<-|H]; [vm_compute; reflexivity|]). contradiction. Qed.
Lemma tie_all_kinds : forall b : bkind, In b (BNonBasic :: all_basic_kinds).
Proof. intros []; simpl; tauto. Qed.
(* the table has no row for a kind outside go/types' basic kinds known to the model (a new family needs a
   new row: it would not be covered by the lemma above) *)
Lemma tie_table_rows : forallb (fun r => existsb (fun b => String.eqb (bkind_name b) (fst r)) all_basic_kinds) gen_underlying_table = true.
Proof. vm_compute. reflexivity. Qed.
Lemma tie_has_underlying : gen_has_underlying = HuOkAndEq.
Proof. reflexivity. Qed.

(* the filters.  hasUnderlying(u) = ok && family == u, with extractUnderlying as tied above *)
Definition eval_atom (c : column) (a : filter_atom) : option bool :=
  match a with
  | AtParsable => Some (col_parsable c)
  | AtHasUnderlying u =>
      match underlying_of_name u with
      | Some k => Some (match ti_bkind (col_info c) with BNonBasic => false | _ => true end
                        && tkind_eqb (extract_underlying (ti_bkind (col_info c))) k)
      | None => None
      end
  | AtNot p => match codec_of_pred p with Some own => Some (negb (own (col_info c))) | None => None end
  | AtPred p => match codec_of_pred p with Some own => Some (own (col_info c)) | None => None end
  | AtOpaque _ => None
  end.
Fixpoint eval_filter (c : column) (l : list filter_atom) : option bool :=
  match l with
  | [] => Some true
  | a :: r => match eval_atom c a, eval_filter c r with Some x, Some y => Some (x && y) | _, _ => None end
  end.
Definition getter (n : string) : list filter_atom :=
  match lookup n gen_getters with Some l => l | None => [AtOpaque n] end.

Definition fam_pred (k : tkind) (own : tyinfo -> bool) (c : column) : bool :=
  col_parsable c && tkind_eqb (extract_underlying (ti_bkind (col_info c))) k && negb (own (col_info c)).
Definition own_pred (own : tyinfo -> bool) (c : column) : bool := col_parsable c && own (col_info c).

Ltac filter_tac :=
  intros c; unfold getter, fam_pred, own_pred; cbn;
  destruct (col_parsable c); destruct (ti_bkind (col_info c)); cbn;
  try destruct (ti_json_own (col_info c)); try destruct (ti_yaml_own (col_info c)); try destruct (ti_text_own (col_info c));
  reflexivity.
Lemma tie_string_json : forall c, eval_filter c (getter "GetParsableUnderlyingStringForJSON") = Some (fam_pred KString ti_json_own c).
Proof. filter_tac. Qed.
Lemma tie_string_yaml : forall c, eval_filter c (getter "GetParsableUnderlyingStringForYAML") = Some (fam_pred KString ti_yaml_own c).
Proof. filter_tac. Qed.
Lemma tie_string_text : forall c, eval_filter c (getter "GetParsableUnderlyingStringForText") = Some (fam_pred KString ti_text_own c).
Proof. filter_tac. Qed.
Lemma tie_uint_json : forall c, eval_filter c (getter "GetParsableUnderlyingUint64ForJSON") = Some (fam_pred KUint64 ti_json_own c).
Proof. filter_tac. Qed.
Lemma tie_uint_yaml : forall c, eval_filter c (getter "GetParsableUnderlyingUint64ForYAML") = Some (fam_pred KUint64 ti_yaml_own c).
Proof. filter_tac. Qed.
Lemma tie_int_json : forall c, eval_filter c (getter "GetParsableUnderlyingInt64ForJSON") = Some (fam_pred KInt64 ti_json_own c).
Proof. filter_tac. Qed.
Lemma tie_int_yaml : forall c, eval_filter c (getter "GetParsableUnderlyingInt64ForYAML") = Some (fam_pred KInt64 ti_yaml_own c).
Proof. filter_tac. Qed.
Lemma tie_f64_json : forall c, eval_filter c (getter "GetParsableUnderlyingFloat64ForJSON") = Some (fam_pred KFloat64 ti_json_own c).
Proof. filter_tac. Qed.
Lemma tie_f64_yaml : forall c, eval_filter c (getter "GetParsableUnderlyingFloat64ForYAML") = Some (fam_pred KFloat64 ti_yaml_own c).
Proof. filter_tac. Qed.
Lemma tie_f32_json : forall c, eval_filter c (getter "GetParsableUnderlyingFloat32ForJSON") = Some (fam_pred KFloat32 ti_json_own c).
Proof. filter_tac. Qed.
Lemma tie_f32_yaml : forall c, eval_filter c (getter "GetParsableUnderlyingFloat32ForYAML") = Some (fam_pred KFloat32 ti_yaml_own c).
Proof. filter_tac. Qed.
Lemma tie_own_json : forall c, eval_filter c (getter "GetParsableJSONUnmarshalable") = Some (own_pred ti_json_own c).
Proof. filter_tac. Qed.
Lemma tie_own_yaml : forall c, eval_filter c (getter "GetParsableYAMLUnmarshalable") = Some (own_pred ti_yaml_own c).
Proof. filter_tac. Qed.
Lemma tie_own_text : forall c, eval_filter c (getter "GetParsableTextUnmarshalable") = Some (own_pred ti_text_own c).
Proof. filter_tac. Qed.

(* … and these predicates are the filters of the model's families *)
Lemma tie_family : forall t k own, family t k own = filter (fam_pred k own) (t_cols t).
Proof. reflexivity. Qed.
Lemma tie_family_own : forall t own, family_own t own = filter (own_pred own) (t_cols t).
Proof. reflexivity. Qed.

(* the implements* predicates look up the unmarshaler interface of their codec *)
Lemma tie_implements :
  lookup "implementsJSONUnmarshaler" gen_implements = Some ("encoding/json", "Unmarshaler")
  /\ lookup "implementsYAMLUnmarshaler" gen_implements = Some ("gopkg.in/yaml.v3", "Unmarshaler")
  /\ lookup "implementsTextUnmarshaler" gen_implements = Some ("encoding", "TextUnmarshaler").
Proof. vm_compute. repeat split. Qed.

(* … except for a trait typed as an enum generated by the same invocation (fix C14-genum-selfref-trait, d8826bb):
   then the answer is what this invocation generates (TraitDesc.generated.json / .yaml), not what go/types sees in a
   previous output; the text predicate needs no override.  In the model these answers are the oracle bits
   ti_json_own / ti_yaml_own / ti_text_own of the trait type. *)
Lemma tie_implements_generated :
  gen_implements_generated = [("implementsJSONUnmarshaler", "json"); ("implementsYAMLUnmarshaler", "yaml")].
Proof. reflexivity. Qed.

Print Assumptions tie_implements_generated.
Print Assumptions tie_extract_underlying.
Print Assumptions tie_all_kinds.
Print Assumptions tie_table_rows.
Print Assumptions tie_string_json.
Print Assumptions tie_uint_yaml.
Print Assumptions tie_int_json.
Print Assumptions tie_own_text.
Print Assumptions tie_family.
Print Assumptions tie_implements.
