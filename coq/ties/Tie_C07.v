(* Tie_C07.v — translator tie (T) for C07.  Compiled on every run of ./check C07 against
   GTgen.SetGen, the Gallina file regenerated from set/set.go of the current tree by
   harness/cmd/xlate_set.  Each lemma states, for ALL arguments, that a regenerated function
   equals the hand-written model (SetModel.v) the theorems of Props/C07.v are about.  [wfn s] is
   the representation invariant "a nil map has no keys" (part of SetProofs.wf, preserved by
   every operation).

   The proofs do not depend on the shape of the regenerated terms: the model is first restated
   over the map primitives (SetTieLemmas.v, proved once), then loops are related by a simulation
   whose state map is found among the tuple re-arrangements, conditions are split on their
   boolean atoms, emptiness guards are decided by cases on the key list, early-return loops go by
   induction (Base/SetLoopTie.v).  Renamed locals, helper methods (contains, allocIfNil, …), a map
   header copied into a local, index loops, `f = f || c` for `if !f { if c { f = true } }`,
   early-continue, `len(s) < 1` for `len(s) == 0`, Slice() through append … leave them intact;
   an edit that changes what a function computes breaks this file.                           *)
From Coq Require Import List Bool Arith.
Import ListNotations.
From GT Require Import Base.SetLoopTie SetModel SetGenPrims SetTieLemmas.
From GTgen Require Import SetGen.

Section Tie.
  Variable T : Type.
  Variable eqb : T -> T -> bool.
  Variable zero : T.

  (* Slice(): nil for the empty set, otherwise the keys in the order the runtime ranges over the
     map — whether a pre-sized slice is filled through a running index or an empty one appended
     to (tactic slice_goal of SetTieLemmas.v) *)
  Lemma tie_Slice : forall s, gen_Slice T eqb zero s = s_slice s.
  Proof. intros s. gen_unfold; cbv zeta. slice_goal T zero s. Qed.

  (* unfold the regenerated function: helpers first, then replace calls of Slice by the model's
     (a method may be written through another one: RemoveSet as Remove(items.Slice()...)), then
     everything else; decide tests on literal sets (`var s Set[T]` is nil, make(...) is not) *)
  Ltac prep :=
    intros; gen_unfold_helpers;
    repeat (progress (rewrite ?tie_Slice, ?sl_items_slice); gen_unfold_helpers);
    gen_unfold; rewrite ?tie_Slice, ?sl_items_slice;
    cbv zeta; cbn [set_is_nil is_nil s_nil mk_empty]; cbv beta iota zeta.
  (* decide every emptiness guard: cases on the key list of the set *)
  Ltac by_emptiness s :=
    unfold set_len; destruct (elems s) eqn:?; cbn [length Nat.eqb Nat.ltb Nat.leb negb];
    cbv beta iota zeta.
  Ltac canon_steps := unfold put_step, add_step', rem_step', alloc.
  Ltac add_tie s :=
    prep; canon_steps; unfold set_is_nil, set_keys;
    destruct (is_nil s) eqn:?; cbv beta iota zeta; fold_tie_g.
  Ltac remove_tie s :=
    prep; canon_steps; unfold set_keys; by_emptiness s; first [ reflexivity | fold_tie_g ].

  Lemma tie_Add : forall s items, wfn s -> gen_Add T eqb zero s items = s_add eqb s items.
  Proof. intros s items Hw. rewrite (s_add_canon T eqb s items Hw). unfold gen_Add. add_tie s. Qed.

  Lemma tie_AddSet : forall s t, wfn s -> gen_AddSet T eqb zero s t = s_addset eqb s (elems t).
  Proof.
    intros s t Hw. unfold s_addset. rewrite (s_add_canon T eqb s (elems t) Hw). unfold gen_AddSet.
    add_tie s.
  Qed.

  Lemma tie_Make : forall items, gen_Make T eqb zero items = s_make eqb items.
  Proof. intros items. rewrite s_make_canon. unfold gen_Make. prep. canon_steps. fold_tie_g. Qed.

  Lemma tie_Remove : forall s items, gen_Remove T eqb zero s items = s_remove eqb s items.
  Proof. intros s items. rewrite s_remove_canon. unfold gen_Remove. remove_tie s. Qed.

  Lemma tie_RemoveSet : forall s t, gen_RemoveSet T eqb zero s t = s_removeset eqb s (elems t).
  Proof.
    intros s t. unfold s_removeset. rewrite s_remove_canon. unfold gen_RemoveSet. remove_tie s.
  Qed.

  Lemma tie_Has : forall s items, gen_Has T eqb zero s items = s_has eqb s items.
  Proof.
    intros s items. rewrite s_has_canon. unfold gen_Has. prep.
    by_emptiness s; [reflexivity | loop_tie_with ltac:(cbn [loop_ret forallb])].
  Qed.

  Lemma tie_HasAny : forall s items, gen_HasAny T eqb zero s items = s_hasany eqb s items.
  Proof.
    intros s items. rewrite s_hasany_canon. unfold gen_HasAny. prep.
    by_emptiness s; [reflexivity | loop_tie_with ltac:(cbn [loop_ret existsb])].
  Qed.
End Tie.

Definition TIE_C07_OK := (tie_Make, tie_Slice, tie_Add, tie_AddSet, tie_Remove, tie_RemoveSet, tie_Has, tie_HasAny).
Print Assumptions TIE_C07_OK.
