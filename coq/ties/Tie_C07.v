(* Tie_C07.v — translator tie (T) for C07.  Compiled on every run of ./check C07 against
   GTgen.SetGen, the Gallina file regenerated from set/set.go of the current tree by
   harness/cmd/xlate_set.  Each lemma states that a regenerated function equals the hand-written
   model (SetModel.v) the theorems of Props/C07.v are about.  [wfn s] is the representation
   invariant "a nil map has no keys" (part of SetProofs.wf, preserved by every operation). *)
From Coq Require Import List Bool Arith.
Import ListNotations.
From GT Require Import SetModel SetGenPrims.
From GTgen Require Import SetGen.

Section Tie.
  Variable T : Type.
  Variable eqb : T -> T -> bool.
  Definition wfn (s : sset T) : Prop := is_nil s = true -> elems s = [].

  Lemma put_fold items : forall m,
    fold_left (fun m x => set_put eqb m x) items m
    = {| is_nil := is_nil m; elems := fold_left (fun l x => insert eqb x l) items (elems m) |}.
  Proof.
    induction items as [|x xs IH]; intros m; cbn [fold_left].
    - destruct m; reflexivity.
    - rewrite IH. reflexivity.
  Qed.

  Lemma tie_Make : forall items, gen_Make T eqb items = s_make eqb items.
  Proof. intros items. unfold gen_Make, s_make. cbv zeta. rewrite put_fold. reflexivity. Qed.

  Lemma add_flag (a mm : bool) :
    (if negb a then (if negb mm then true else a) else a) = a || negb mm.
  Proof. destruct a, mm; reflexivity. Qed.

  Lemma rem_flag (a mm : bool) :
    (if negb a then (if mm then true else a) else a) = a || mm.
  Proof. destruct a, mm; reflexivity. Qed.

  Lemma tie_Add_aux items : forall m a,
    is_nil m = false ->
    (let '(a', m') := fold_left (fun '(v_added, v_s) v_item =>
        (if negb v_added
         then if negb (set_has eqb v_s v_item) then true else v_added
         else v_added, set_put eqb v_s v_item)) items (a, m) in (m', a'))
    = (let '(l, ad) := fold_left (add_step eqb) items (elems m, a) in
       ({| is_nil := false; elems := l |}, ad)).
  Proof.
    induction items as [|x xs IH]; intros m a Hn; cbn [fold_left].
    - destruct m as [n l]. simpl in *. subst. reflexivity.
    - rewrite IH by exact Hn. unfold add_step at 2. cbn [set_put elems set_has].
      rewrite add_flag. reflexivity.
  Qed.

  Lemma tie_Add : forall s items, wfn s -> gen_Add T eqb s items = s_add eqb s items.
  Proof.
    intros s items Hw. unfold gen_Add, s_add. cbv zeta. unfold set_is_nil.
    destruct (is_nil s) eqn:En.
    - rewrite (tie_Add_aux items mk_empty false eq_refl). rewrite (Hw En). reflexivity.
    - rewrite (tie_Add_aux items s false En). reflexivity.
  Qed.

  Lemma tie_AddSet : forall s t, wfn s -> gen_AddSet T eqb s t = s_addset eqb s (elems t).
  Proof.
    intros s t Hw. unfold gen_AddSet, s_addset, s_add, set_keys. cbv zeta. unfold set_is_nil.
    destruct (is_nil s) eqn:En.
    - rewrite (tie_Add_aux (elems t) mk_empty false eq_refl). rewrite (Hw En). reflexivity.
    - rewrite (tie_Add_aux (elems t) s false En). reflexivity.
  Qed.

  Lemma tie_Remove_aux items : forall m a,
    (let '(a', m') := fold_left (fun '(v_removed, v_s) v_item =>
        (if negb v_removed
         then if set_has eqb v_s v_item then true else v_removed
         else v_removed, set_del eqb v_s v_item)) items (a, m) in (m', a'))
    = (let '(l, r) := fold_left (rem_step eqb) items (elems m, a) in
       ({| is_nil := is_nil m; elems := l |}, r)).
  Proof.
    induction items as [|x xs IH]; intros m a; cbn [fold_left].
    - destruct m; reflexivity.
    - rewrite IH. unfold rem_step at 2. cbn [set_del elems is_nil set_has].
      rewrite rem_flag. reflexivity.
  Qed.

  Lemma tie_Remove : forall s items, gen_Remove T eqb s items = s_remove eqb s items.
  Proof.
    intros s items. unfold gen_Remove, s_remove, set_len. cbv zeta.
    destruct (Nat.eqb (length (elems s)) 0); [reflexivity|]. apply tie_Remove_aux.
  Qed.

  Lemma tie_RemoveSet : forall s t, gen_RemoveSet T eqb s t = s_removeset eqb s (elems t).
  Proof.
    intros s t. unfold gen_RemoveSet, s_removeset, s_remove, set_len, set_keys. cbv zeta.
    destruct (Nat.eqb (length (elems s)) 0); [reflexivity|]. apply tie_Remove_aux.
  Qed.

  Lemma tie_Has : forall s items, gen_Has T eqb s items = s_has eqb s items.
  Proof.
    intros s items. unfold gen_Has, s_has, set_len.
    destruct (Nat.eqb (length (elems s)) 0); [reflexivity|].
    match goal with |- context [fold_left ?F _ _] => set (FF := F) end.
    assert (Hsome : forall fl r, fold_left FF fl (tt, Some r) = (tt, Some r)).
    { induction fl as [|f fs IH]; intros r; [reflexivity|]. cbn [fold_left]. apply IH. }
    assert (H : forall fl, fold_left FF fl (tt, None)
               = (tt, if forallb (fun x => memb eqb x (elems s)) fl then None else Some false)).
    { induction fl as [|f fs IH]; [reflexivity|]. cbn [fold_left forallb].
      unfold FF at 2. cbv beta iota zeta. unfold set_has.
      destruct (memb eqb f (elems s)); cbn [negb andb]; [apply IH | apply Hsome]. }
    rewrite H. destruct (forallb _ items); reflexivity.
  Qed.

  Lemma tie_HasAny : forall s items, gen_HasAny T eqb s items = s_hasany eqb s items.
  Proof.
    intros s items. unfold gen_HasAny, s_hasany, set_len.
    destruct (Nat.eqb (length (elems s)) 0); [reflexivity|].
    match goal with |- context [fold_left ?F _ _] => set (FF := F) end.
    assert (Hsome : forall fl r, fold_left FF fl (tt, Some r) = (tt, Some r)).
    { induction fl as [|f fs IH]; intros r; [reflexivity|]. cbn [fold_left]. apply IH. }
    assert (H : forall fl, fold_left FF fl (tt, None)
               = (tt, if existsb (fun x => memb eqb x (elems s)) fl then Some true else None)).
    { induction fl as [|f fs IH]; [reflexivity|]. cbn [fold_left existsb].
      unfold FF at 2. cbv beta iota zeta. unfold set_has.
      destruct (memb eqb f (elems s)); cbn [orb]; [apply Hsome | apply IH]. }
    rewrite H. destruct (existsb _ items); reflexivity.
  Qed.
End Tie.

Definition TIE_C07_OK := (tie_Make, tie_Add, tie_AddSet, tie_Remove, tie_RemoveSet, tie_Has, tie_HasAny).
Print Assumptions TIE_C07_OK.
