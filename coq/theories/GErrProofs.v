(* GErrProofs.v — CloneBase composes lawfully along any chain (lemmas behind Props/C15.v). *)
From Coq Require Import NArith List Bool Lia PeanoNat.
From GT Require Import Base.GErrStr.
From GT Require Import GErrModel GErrSpec GErrMetric GErrMetricProofs.
Import ListNotations.

(* ---------------------------------------------------------------- strings *)
Lemma is_empty_nil (s : str) : is_empty s = true <-> s = [].
Proof. destruct s; simpl; split; congruence. Qed.

Lemma nonempty_app_l (a b : str) : nonempty a = true -> nonempty (a ++ b) = true.
Proof. unfold nonempty; destruct a; simpl; [discriminate|reflexivity]. Qed.

Lemma join_cons2 sep (a b : str) l : join sep (a :: b :: l) = join sep ((a ++ sep ++ b) :: l).
Proof.
  destruct l as [|c l]; simpl; [reflexivity|].
  rewrite <- !app_assoc. reflexivity.
Qed.

Lemma str_eqb_refl (s : str) : str_eqb s s = true.
Proof. induction s; simpl; [reflexivity|]. rewrite N.eqb_refl. exact IHs. Qed.

Lemma str_eqb_eq (a b : str) : str_eqb a b = true <-> a = b.
Proof.
  revert b; induction a as [|x a IH]; destruct b as [|y b]; simpl; split; try congruence.
  - intros H. apply andb_true_iff in H as [H1 H2]. apply N.eqb_eq in H1. apply IH in H2. congruence.
  - intros H. injection H as -> ->. rewrite N.eqb_refl. apply IH. reflexivity.
Qed.

(* TrimSpace: characterisation *)
Lemma drop_space_suffix s : exists p, s = p ++ drop_space s /\ forallb is_space p = true.
Proof.
  induction s as [|c r IH]; simpl.
  - exists []. split; reflexivity.
  - destruct (is_space c) eqn:E.
    + destruct IH as [p [H1 H2]]. exists (c :: p). simpl. rewrite E, H2. split; [congruence|reflexivity].
    + exists []. split; reflexivity.
Qed.

Lemma drop_space_head s : match drop_space s with [] => True | c :: _ => is_space c = false end.
Proof.
  induction s as [|c r IH]; simpl; [exact I|].
  destruct (is_space c) eqn:E; [exact IH|exact E].
Qed.

Lemma drop_space_all s : forallb is_space s = true -> drop_space s = [].
Proof.
  induction s as [|c r IH]; simpl; [reflexivity|].
  intros H. apply andb_true_iff in H as [H1 H2]. rewrite H1. auto.
Qed.

Lemma drop_space_nil_all s : drop_space s = [] -> forallb is_space s = true.
Proof.
  induction s as [|c r IH]; simpl; [reflexivity|].
  destruct (is_space c); [auto|discriminate].
Qed.

Lemma forallb_rev {A} (p : A -> bool) l : forallb p (rev l) = forallb p l.
Proof.
  induction l as [|x l IH]; simpl; [reflexivity|].
  rewrite forallb_app, IH. simpl. rewrite andb_true_r. apply andb_comm.
Qed.

(* s = leading white space ++ TrimSpace s ++ trailing white space *)
Lemma trim_space_decomp s :
  exists p q, s = p ++ trim_space s ++ q /\ forallb is_space p = true /\ forallb is_space q = true.
Proof.
  unfold trim_space.
  destruct (drop_space_suffix s) as [p [Hp Hps]].
  destruct (drop_space_suffix (rev (drop_space s))) as [q [Hq Hqs]].
  exists p, (rev q). repeat split; [|exact Hps|rewrite forallb_rev; exact Hqs].
  rewrite <- rev_app_distr, <- Hq, rev_involutive. exact Hp.
Qed.

(* the result neither starts nor ends with white space *)
Lemma trim_space_first s : match trim_space s with [] => True | c :: _ => is_space c = false end.
Proof.
  unfold trim_space.
  pose proof (drop_space_head s) as H1.
  pose proof (drop_space_head (rev (drop_space s))) as H2.
  destruct (drop_space (rev (drop_space s))) as [|c r] eqn:E; simpl; [exact I|].
  (* rev (c :: r) = rev r ++ [c]; its first element is the first of drop_space s unless r = [] *)
  destruct (drop_space_suffix (rev (drop_space s))) as [q [Hq Hqs]].
  rewrite E in Hq.
  assert (Hd : drop_space s = rev (c :: r) ++ rev q).
  { rewrite <- rev_app_distr, <- Hq, rev_involutive. reflexivity. }
  simpl in Hd. simpl.
  destruct (rev r ++ [c]) as [|x xs] eqn:Ex.
  - destruct (rev r); discriminate.
  - rewrite Hd in H1. simpl in H1. exact H1.
Qed.

Lemma trim_space_last s : match rev (trim_space s) with [] => True | c :: _ => is_space c = false end.
Proof.
  unfold trim_space. rewrite rev_involutive. apply drop_space_head.
Qed.

Lemma trim_space_blank s : trim_space s = [] <-> forallb is_space s = true.
Proof.
  split.
  - intros H. destruct (trim_space_decomp s) as [p [q [E [Hp Hq]]]].
    rewrite H in E. simpl in E. rewrite E, forallb_app, Hp, Hq. reflexivity.
  - intros H. unfold trim_space. rewrite (drop_space_all s H). reflexivity.
Qed.

Lemma trim_space_idem s : trim_space (trim_space s) = trim_space s.
Proof.
  pose proof (trim_space_first s) as H1. pose proof (trim_space_last s) as H2.
  set (t := trim_space s) in *. unfold trim_space.
  assert (D1 : drop_space t = t).
  { destruct t as [|c r]; simpl; [reflexivity|]. simpl in H1. rewrite H1. reflexivity. }
  rewrite D1.
  assert (D2 : drop_space (rev t) = rev t).
  { destruct (rev t) as [|c r]; simpl; [reflexivity|]. rewrite H2. reflexivity. }
  rewrite D2. apply rev_involutive.
Qed.

(* ---------------------------------------------------------------- one CloneBase on views *)
Lemma view_clone_base b bp ep stt dtag src ext serr site derived :
  view_of (clone_base b bp ep stt dtag src ext serr site derived)
  = clone_view (view_of b) (mkE stt dtag src ext serr site derived).
Proof.
  unfold clone_view, clone_base, view_of, has_stack; simpl.
  repeat match goal with |- context [if ?c then _ else _] => destruct c end; reflexivity.
Qed.

Definition step_msg (m ext : str) : str :=
  let t := trim_space ext in
  if is_empty t then m else if is_empty m then t else m ++ sp ++ t.
Definition step_dtag (d t : str) : str :=
  if is_empty t then d else if is_empty d then t else d ++ dash ++ t.
Definition step_src (s : str) (e : eff) : str := if nonempty s then s else src_candidate e.
Definition step_stack (k : option N) (e : eff) : option N :=
  match k with
  | Some s => Some s
  | None => if takes_stack (e_stack e) then Some (e_site e) else None
  end.

Lemma clone_view_step v e :
  stack_has_source v = true -> derived_ok e = true ->
  clone_view v e = mkV (v_name v) (step_msg (v_msg v) (e_msg e)) (step_src (v_src v) e)
                       (step_dtag (v_dtag v) (e_dtag e)) (step_stack (v_stack v) e)
  /\ stack_has_source (clone_view v e) = true.
Proof.
  destruct v as [n m s d k], e as [stt dt sr ex se site der].
  unfold stack_has_source, derived_ok, clone_view, clone_base, view_of, has_stack, step_msg,
    step_dtag, step_src, step_stack, src_candidate, nonempty; simpl.
  intros Hk Hd.
  destruct k as [k|]; simpl.
  - (* already has a stack, hence a source *)
    destruct (is_empty s) eqn:Es; [discriminate|]. simpl.
    rewrite andb_false_r. simpl. rewrite Es. split; reflexivity.
  - destruct s as [|c s]; destruct sr as [|c' sr]; destruct stt; simpl in *;
      try (split; reflexivity);
      destruct der; try discriminate; simpl; split; reflexivity.
Qed.

(* ---------------------------------------------------------------- whole chains on views *)
Lemma spec_message_step m e effs :
  spec_message m (e :: effs) = spec_message (step_msg m (e_msg e)) effs.
Proof.
  unfold spec_message, step_msg. cbn [map].
  set (t := trim_space (e_msg e)).
  set (rest := map (fun e0 => trim_space (e_msg e0)) effs).
  clearbody rest t.
  destruct t as [|c t']; destruct m as [|c' m']; cbn [filter nonempty is_empty negb];
    try reflexivity.
  exact (join_cons2 sp (c' :: m') (c :: t') (filter nonempty rest)).
Qed.

Lemma spec_dtag_step d e effs :
  spec_dtag d (e :: effs) = spec_dtag (step_dtag d (e_dtag e)) effs.
Proof.
  unfold spec_dtag, step_dtag. cbn [map].
  set (t := e_dtag e).
  set (rest := map e_dtag effs).
  clearbody rest t.
  destruct t as [|c t']; destruct d as [|c' d']; cbn [filter nonempty is_empty negb];
    try reflexivity.
  exact (join_cons2 dash (c' :: d') (c :: t') (filter nonempty rest)).
Qed.

Lemma spec_source_step s e effs :
  spec_source s (e :: effs) = spec_source (step_src s e) effs.
Proof.
  unfold spec_source, step_src, nonempty. simpl.
  destruct (is_empty s) eqn:Es; simpl; [reflexivity|]. rewrite Es. reflexivity.
Qed.

Lemma spec_stack_step k e effs :
  spec_stack k (e :: effs) = spec_stack (step_stack k e) effs.
Proof.
  unfold spec_stack, step_stack. destruct k; simpl; [reflexivity|].
  destruct (takes_stack (e_stack e)); reflexivity.
Qed.

Lemma chain_view v effs :
  stack_has_source v = true -> forallb derived_ok effs = true ->
  fold_left clone_view effs v = spec_view v effs.
Proof.
  revert v; induction effs as [|e effs IH]; intros v Hv Hd.
  - destruct v as [n m s d k]. unfold spec_view, spec_message, spec_dtag, spec_source, spec_stack.
    simpl. unfold nonempty.
    destruct (is_empty m) eqn:Em; destruct (is_empty d) eqn:Ed; destruct (is_empty s) eqn:Es;
      simpl; rewrite ?Es;
      repeat match goal with H : is_empty ?x = true |- _ => apply is_empty_nil in H; subst x end;
      destruct k; reflexivity.
  - simpl in Hd. apply andb_true_iff in Hd as [Hd1 Hd2].
    destruct (clone_view_step v e Hv Hd1) as [E Hv'].
    simpl. rewrite (IH _ Hv' Hd2). rewrite E. unfold spec_view; simpl.
    rewrite <- spec_message_step, <- spec_dtag_step, <- spec_source_step, <- spec_stack_step.
    reflexivity.
Qed.

(* ---------------------------------------------------------------- transport to the store *)
Definition same_kind (a b : val) : Prop :=
  match a, b with VG _, VG _ | VX _, VX _ => True | _, _ => False end.

Lemma nth_error_snoc {A} (l : list A) x : nth_error (l ++ [x]) (length l) = Some x.
Proof. rewrite nth_error_app2 by lia. rewrite Nat.sub_diag. reflexivity. Qed.

Lemma call_spec xw st v m a st' r g :
  call xw st v m a = Some (st', r) -> lookup st v = Some g -> no_shortcut (m, a) = true ->
  exists c, st' = st ++ [c] /\ lookup st' r = Some (c_g c) /\ same_kind v r
            /\ view_of (c_g c) = clone_view (view_of g) (eff_of (wt_of xw v) (m, a)).
Proof.
  unfold no_shortcut; simpl. intros H L NS. apply negb_true_iff in NS.
  destruct v as [|i|i|]; simpl in H; try discriminate; unfold lookup in L; simpl in L.
  - destruct (nth_error st i) as [c|] eqn:E; [|discriminate]. simpl in L. injection L as <-.
    rewrite NS, andb_false_r in H. injection H as <- <-.
    eexists. split; [reflexivity|]. unfold lookup; simpl. rewrite nth_error_snoc. simpl.
    repeat split. unfold apply_wiring. rewrite view_clone_base. reflexivity.
  - destruct (nth_error st i) as [c|] eqn:E; [|discriminate]. simpl in L. injection L as <-.
    destruct (c_x c) as [x|]; [|discriminate].
    rewrite NS, andb_false_r in H. injection H as <- <-.
    eexists. split; [reflexivity|]. unfold lookup; simpl. rewrite nth_error_snoc. simpl.
    repeat split. unfold apply_wiring. rewrite view_clone_base. reflexivity.
Qed.

Lemma wt_of_same_kind xw a b : same_kind a b -> wt_of xw a = wt_of xw b.
Proof. destruct a, b; simpl; intros H; try contradiction; reflexivity. Qed.

Lemma derive_view xw ch : forall st v st' r g,
  derive xw st v ch = Some (st', r) -> lookup st v = Some g ->
  forallb no_shortcut ch = true ->
  exists ext g', st' = st ++ ext /\ length ext = length ch /\ lookup st' r = Some g'
    /\ view_of g' = fold_left clone_view (map (eff_of (wt_of xw v)) ch) (view_of g).
Proof.
  induction ch as [|[m a] ch IH]; intros st v st' r g H L NS.
  - simpl in H. injection H as <- <-. exists [], g. rewrite app_nil_r. auto.
  - simpl in H, NS. apply andb_true_iff in NS as [NS1 NS2].
    destruct (call xw st v m a) as [[st1 v1]|] eqn:C; [|discriminate].
    destruct (call_spec _ _ _ _ _ _ _ _ C L NS1) as [c [E1 [L1 [K V1]]]].
    destruct (IH _ _ _ _ _ H L1 NS2) as [ext [g' [E2 [Len [L2 V2]]]]].
    exists (c :: ext), g'. subst st1. rewrite <- app_assoc in E2. simpl in E2.
    repeat split; [exact E2|simpl; lia|exact L2|].
    simpl. rewrite V2, V1. rewrite (wt_of_same_kind xw v v1 K). reflexivity.
Qed.

(* the store only grows: every object that existed before a chain is unchanged after it *)
Lemma call_extends xw st v m a st' r :
  call xw st v m a = Some (st', r) -> exists ext, st' = st ++ ext.
Proof.
  intros H. destruct v as [|i|i|]; simpl in H; try discriminate.
  - destruct (nth_error st i); [|discriminate].
    destruct (w_guard (base_wiring m) && is_gerr_val (a_err a)); injection H as <- <-.
    + exists []. rewrite app_nil_r. reflexivity.
    + eexists. reflexivity.
  - destruct (nth_error st i) as [c|]; [|discriminate]. destruct (c_x c); [|discriminate].
    destruct (w_guard (xw m) && is_gerr_val (a_err a)); injection H as <- <-.
    + exists []. rewrite app_nil_r. reflexivity.
    + eexists. reflexivity.
Qed.

Lemma derive_extends xw ch : forall st v st' r,
  derive xw st v ch = Some (st', r) -> exists ext, st' = st ++ ext.
Proof.
  induction ch as [|[m a] ch IH]; intros st v st' r H; simpl in H.
  - injection H as <- <-. exists []. rewrite app_nil_r. reflexivity.
  - destruct (call xw st v m a) as [[st1 v1]|] eqn:C; [|discriminate].
    destruct (call_extends _ _ _ _ _ _ _ C) as [e1 ->].
    destruct (IH _ _ _ _ H) as [e2 ->]. exists (e1 ++ e2). rewrite app_assoc. reflexivity.
Qed.

Lemma derive_unchanged xw ch st v st' r i :
  derive xw st v ch = Some (st', r) -> i < length st -> nth_error st' i = nth_error st i.
Proof.
  intros H Hi. destruct (derive_extends _ _ _ _ _ _ H) as [ext ->].
  apply nth_error_app1. exact Hi.
Qed.

(* a chain from an existing gerror value never gets stuck *)
Lemma call_total xw st v m a g :
  lookup st v = Some g ->
  (forall i c, v = VX i -> nth_error st i = Some c -> c_x c <> None) ->
  exists st' r, call xw st v m a = Some (st', r).
Proof.
  intros L HX. destruct v as [|i|i|]; unfold lookup in L; simpl in L; try discriminate; simpl.
  - destruct (nth_error st i); [|discriminate].
    destruct (w_guard (base_wiring m) && is_gerr_val (a_err a)); eauto.
  - destruct (nth_error st i) as [c|] eqn:E; [|discriminate].
    specialize (HX i c eq_refl E). destruct (c_x c); [|contradiction].
    destruct (w_guard (xw m) && is_gerr_val (a_err a)); eauto.
Qed.

(* ---------------------------------------------------------------- the laws, on the store *)
Section Laws.
  Variables (xw : method -> wiring) (st st' : store) (v r : val) (g g' : gerr) (ch : list step).
  Hypothesis D : derive xw st v ch = Some (st', r).
  Hypothesis L : lookup st v = Some g.
  Hypothesis L' : lookup st' r = Some g'.
  Hypothesis NS : forallb no_shortcut ch = true.
  Let effs := map (eff_of (wt_of xw v)) ch.

  Lemma law_view :
    stack_has_source (view_of g) = true -> forallb derived_ok effs = true ->
    view_of g' = spec_view (view_of g) effs.
  Proof.
    intros Hs Hd. destruct (derive_view _ _ _ _ _ _ _ D L NS) as [ext [g2 [_ [_ [L2 V]]]]].
    rewrite L' in L2. injection L2 as <-. rewrite V. apply chain_view; assumption.
  Qed.

  (* message, detail tag and stack need no hypothesis on the oracle strings *)
  Lemma fold_msg : forall es w, v_msg (fold_left clone_view es w) = spec_message (v_msg w) es.
  Proof.
    induction es as [|e es IH]; intros w.
    - unfold spec_message; simpl. unfold nonempty. destruct (is_empty (v_msg w)) eqn:E; simpl;
        [apply is_empty_nil in E; congruence|reflexivity].
    - simpl. rewrite IH, spec_message_step. f_equal.
      destruct w, e; unfold clone_view, clone_base, view_of, step_msg; simpl.
      repeat match goal with |- context [if ?c then _ else _] => destruct c end; reflexivity.
  Qed.

  Lemma fold_dtag : forall es w, v_dtag (fold_left clone_view es w) = spec_dtag (v_dtag w) es.
  Proof.
    induction es as [|e es IH]; intros w.
    - unfold spec_dtag; simpl. unfold nonempty. destruct (is_empty (v_dtag w)) eqn:E; simpl;
        [apply is_empty_nil in E; congruence|reflexivity].
    - simpl. rewrite IH, spec_dtag_step. f_equal.
      destruct w, e; unfold clone_view, clone_base, view_of, step_dtag; simpl.
      repeat match goal with |- context [if ?c then _ else _] => destruct c end; reflexivity.
  Qed.

  Lemma fold_stack : forall es w, v_stack (fold_left clone_view es w) = spec_stack (v_stack w) es.
  Proof.
    induction es as [|e es IH]; intros w.
    - unfold spec_stack; simpl. destruct (v_stack w); reflexivity.
    - simpl. rewrite IH, spec_stack_step. f_equal.
      destruct w as [n m s d k], e as [stt dt sr ex se site der];
        unfold clone_view, clone_base, view_of, step_stack, has_stack; simpl.
      destruct k; simpl; [reflexivity|].
      destruct s; destruct sr; destruct stt; simpl; reflexivity.
  Qed.

  Lemma fold_name : forall es w, v_name (fold_left clone_view es w) = v_name w.
  Proof.
    induction es as [|e es IH]; intros w; simpl; [reflexivity|]. rewrite IH.
    destruct w, e; unfold clone_view, clone_base, view_of; simpl.
    repeat match goal with |- context [if ?c then _ else _] => destruct c end; reflexivity.
  Qed.

  Lemma result_view : view_of g' = fold_left clone_view effs (view_of g).
  Proof.
    destruct (derive_view _ _ _ _ _ _ _ D L NS) as [ext [g2 [_ [_ [L2 V]]]]].
    rewrite L' in L2. injection L2 as <-. exact V.
  Qed.

  Lemma law_message : g_msg g' = spec_message (g_msg g) effs.
  Proof. change (g_msg g') with (v_msg (view_of g')). rewrite result_view. apply fold_msg. Qed.

  Lemma law_dtag : g_dtag g' = spec_dtag (g_dtag g) effs.
  Proof. change (g_dtag g') with (v_dtag (view_of g')). rewrite result_view. apply fold_dtag. Qed.

  Lemma law_stack : g_stack g' = spec_stack (g_stack g) effs.
  Proof. change (g_stack g') with (v_stack (view_of g')). rewrite result_view. apply fold_stack. Qed.

  Lemma law_name : g_name g' = g_name g.
  Proof. change (g_name g') with (v_name (view_of g')). rewrite result_view. apply fold_name. Qed.

  Lemma law_source :
    stack_has_source (view_of g) = true -> forallb derived_ok effs = true ->
    g_src g' = spec_source (g_src g) effs.
  Proof.
    intros Hs Hd. change (g_src g') with (v_src (view_of g')). rewrite (law_view Hs Hd). reflexivity.
  Qed.
End Laws.

Lemma law_all : forall xw st v ch st' r g g',
    derive xw st v ch = Some (st', r) -> lookup st v = Some g -> lookup st' r = Some g' ->
    forallb no_shortcut ch = true ->
    stack_has_source (view_of g) = true ->
    forallb derived_ok (map (eff_of (wt_of xw v)) ch) = true ->
    (forall i, i < length st -> nth_error st' i = nth_error st i)
    /\ view_of g' = spec_view (view_of g) (map (eff_of (wt_of xw v)) ch).
Proof.
  intros xw st v ch st' r g g' D L L' NS Hs Hd. split.
  - intros i Hi. exact (derive_unchanged _ _ _ _ _ _ _ D Hi).
  - exact (law_view _ _ _ _ _ _ _ _ D L L' NS Hs Hd).
Qed.

(* ---------------------------------------------------------------- corollaries of the closed forms *)
Lemma first_nonempty_app_stable a b :
  nonempty (first_nonempty a) = true -> first_nonempty (a ++ b) = first_nonempty a.
Proof.
  induction a as [|x a IH]; simpl; [discriminate|].
  destruct (is_empty x); auto.
Qed.

(* once set, the source is never overwritten by later steps *)
Lemma spec_source_stable s e1 e2 :
  nonempty (spec_source s e1) = true -> spec_source s (e1 ++ e2) = spec_source s e1.
Proof.
  unfold spec_source. rewrite map_app. intros H.
  change (s :: map src_candidate e1 ++ map src_candidate e2)
    with ((s :: map src_candidate e1) ++ map src_candidate e2).
  apply first_nonempty_app_stable. exact H.
Qed.

Lemma first_nonempty_in l x : In x l -> nonempty x = true -> nonempty (first_nonempty l) = true.
Proof.
  induction l as [|y l IH]; simpl; [contradiction|].
  intros [->|H] Hx.
  - destruct x; [discriminate|]. reflexivity.
  - destruct (is_empty y) eqn:E; [auto|]. unfold nonempty. rewrite E. reflexivity.
Qed.

(* any step other than a no-stack step (Base) leaves a source behind *)
Lemma spec_source_present s effs e :
  In e effs -> e_stack e <> NoStack -> derived_ok e = true -> nonempty (spec_source s effs) = true.
Proof.
  intros Hin Hns Hd. unfold spec_source.
  apply first_nonempty_in with (x := src_candidate e).
  - right. apply in_map. exact Hin.
  - unfold src_candidate. destruct (nonempty (e_src e)) eqn:E; [exact E|].
    unfold derived_ok in Hd. destruct (e_stack e); [contradiction| | |]; exact Hd.
Qed.

(* stack presence: exactly when the factory had one or some step takes a stack *)
Lemma spec_stack_present k effs :
  (exists s, spec_stack k effs = Some s) <->
  (exists s, k = Some s) \/ (exists e, In e effs /\ takes_stack (e_stack e) = true).
Proof.
  unfold spec_stack. destruct k as [s|].
  - split; [intros _; left; eauto|intros _; eauto].
  - split.
    + intros [s H]. right. destruct (find _ effs) as [e|] eqn:F; [|discriminate].
      apply find_some in F. exists e. exact F.
    + intros [[s H]|[e [Hin Ht]]]; [discriminate|].
      destruct (find (fun e0 => takes_stack (e_stack e0)) effs) as [e'|] eqn:F.
      * eexists; reflexivity.
      * exfalso. pose proof (find_none _ _ F e Hin) as Hn. simpl in Hn. congruence.
Qed.

(* which of the 19 methods take a stack *)
Definition method_takes_stack (m : method) : bool :=
  match m with
  | MStack | MSrcS | MDTagS | MMsgS | MSrcDTagMsgS | MSrcDTagS | MSrcMsgS | MDTagMsgS
  | MConvertS => true
  | _ => false
  end.

Lemma base_wiring_takes_stack m : takes_stack (w_stack (base_wiring m)) = method_takes_stack m.
Proof. destruct m; reflexivity. Qed.

Lemma base_wiring_nostack m : w_stack (base_wiring m) = NoStack <-> m = MBase.
Proof. destruct m; simpl; split; congruence. Qed.

(* when every step's derived source is the rendering of some frame name, the hypothesis of the
   source law on the oracle strings holds *)
Lemma derived_ok_of_metric wt ch :
  (forall s, In s ch -> exists f, a_derived (snd s) = metric f) ->
  forallb derived_ok (map (eff_of wt) ch) = true.
Proof.
  intros H. apply forallb_forall. intros e He. apply in_map_iff in He as [s [<- Hs]].
  destruct (H s Hs) as [f Hf]. unfold derived_ok, eff_of. simpl.
  destruct (w_stack (wt (fst s))); try reflexivity; rewrite Hf; apply metric_nonempty.
Qed.
