(* WGProg.v — hand copies of the IR listing (Base/ConcIR.v) of Add / Wait / Count of
   gsync/selectable_wait_group.go.  harness/cmd/xlate_conc regenerates the same term from the
   source on every run; the check compiles  `tie : gen_prog = hand_prog := eq_refl`.

   The sites are the micro-steps of the machines in WGModel.v:
     current code   100 = A0 (state.Load)   101 = A1 (state.CompareAndSwap)   102 = A2 (close)
                    200 = W0 (state.Load)   300 = C0 (state.Load)
     pinned code    100 = OA0 (count.Add) 101 = OA1 (wChan.Swap) 102 = OA2 (close old)
                    103 = OA3 (wChan.CompareAndSwap) 104 = OA4 (close new)
                    200 = OW0 (count.Load) 201 = OW1 (wChan.Load) 300 = OC0 (count.Load)
   [hand_sites_ok] checks that the sites of the listing are exactly the sites the machine's
   program counters map to (WGModel.wg_site).                                              *)
From Coq Require Import List String.
From GT Require Import Base.ConcIR.
Import ListNotations.
Local Open Scope string_scope.

Definition hand_prog : list func :=
[("Add",
 [SLoop None [] ""
 ([SOps (Some 100) [OAtomic ALoad "state"] "v2 := recv.state.Load()";
 SIf None [] "v3.count == 0"
 ([])
 ([SIf None [] "v2.wChan == closedChan"
 ([SOps None [OMake] "v3.wChan = make(chan struct{})"])
 ([])]);
 SIf (Some 101) [OAtomic ACAS "state"] "recv.state.CompareAndSwap(v2, v3)"
 ([SIf None [] "v3.count == 0 && v2.wChan != closedChan"
 ([SOps (Some 102) [OClose] "close(v2.wChan)"])
 ([]);
 SReturn None [] "v3.count"])
 ([])])]);
("Wait",
 [SReturn (Some 200) [OAtomic ALoad "state"] "recv.state.Load().wChan"]);
("Count",
 [SReturn (Some 300) [OAtomic ALoad "state"] "recv.state.Load().count"])].

(* the pinned two-word algorithm (before fix C01-paircas) *)
Definition hand_prog_orig : list func :=
[("Add",
 [SOps (Some 100) [OAtomic AAdd "count"] "v2 := recv.count.Add(int64(v1))";
 SIf None [] "v2 == 0"
 ([SOps (Some 101) [OAtomic ASwap "wChan"] "v3 := recv.wChan.Swap(&closedChan)";
 SIf None [] "v3 != &closedChan"
 ([SOps (Some 102) [OClose] "close(*v3)"])
 ([])])
 ([SIf None [] "v1 > 0 && v2 == int64(v1)"
 ([SOps None [OMake] "v4 := make(chan struct{})";
 SIf (Some 103) [OAtomic ACAS "wChan"] "!recv.wChan.CompareAndSwap(&closedChan, &v4)"
 ([SOps (Some 104) [OClose] "close(v4)"])
 ([])])
 ([])]);
 SReturn None [] "int(v2)"]);
("Wait",
 [SLoop None [] ""
 ([SOps (Some 200) [OAtomic ALoad "count"] "v1 := recv.count.Load()";
 SOps (Some 201) [OAtomic ALoad "wChan"] "v2 := recv.wChan.Load()";
 SIf None [] "v1 == 0 || (v1 > 0 && v2 != &closedChan)"
 ([SReturn None [] "*v2"])
 ([])])]);
("Count",
 [SReturn (Some 300) [OAtomic ALoad "count"] "int(recv.count.Load())"])].

Definition hand_sites : list (list nat) := map func_sites hand_prog.
Definition hand_sites_orig : list (list nat) := map func_sites hand_prog_orig.

(* the shared-memory operation behind every program counter of the machines of WGModel.v;
   WGProofs.hand_prog_sites / hand_prog_orig_sites check these tables against the listing and
   against WGModel.wg_site / wgo_site *)
Definition hand_site_ops : list (nat * list op) := flat_map func_site_ops hand_prog.
Definition hand_site_ops_orig : list (nat * list op) := flat_map func_site_ops hand_prog_orig.
