(* WGProg.v — hand copies of the IR (Base/ConcIR.v) of Add / Wait / Count of
   gsync/selectable_wait_group.go.  harness/cmd/xlate_conc regenerates the same term from the
   source on every run; the check compiles  `tie : gen_prog = hand_prog := eq_refl`.
   WGDenote.v proves that the machines of WGModel.v are the denotations of these terms.

   The sites are the micro-steps of the machines in WGModel.v:
     current code   100 = A0 (state.Load)   101 = A1 (state.CompareAndSwap)   102 = A2 (close)
                    200 = W0 (state.Load)   300 = C0 (state.Load)
     pinned code    100 = OA0 (count.Add) 101 = OA1 (wChan.Swap) 102 = OA2 (close old)
                    103 = OA3 (wChan.CompareAndSwap) 104 = OA4 (close new)
                    200 = OW0 (count.Load) 201 = OW1 (wChan.Load) 300 = OC0 (count.Load)
   Locals: current Add v1 = delta, v2 = old, v3 = next; pinned Add v1 = delta, v2 = newV,
   v3 = oldChan, v4 = newChan; pinned Wait v1 = count, v2 = wgChan.                          *)
From Coq Require Import List String ZArith.
From GT Require Import Base.ConcIR.
Import ListNotations.
Local Open Scope string_scope.

Definition hand_prog : prog :=
[Func "Add" ["v1"]
 [SLoop
 ([SDefine (Some 100) "v2" (EAtomic ALoad "state" []);
 SDefine None "v3" (ENew "wgState" [("count", (EBin BAdd (EField (EVar "v2") "count") (EVar "v1"))); ("wChan", (EField (EVar "v2") "wChan"))]);
 SIf None (EBin BEq (EField (EVar "v3") "count") (EInt 0%Z))
 ([SAssign None (LField "v3" "wChan") (EGlobal "closedChan")])
 ([SIf None (EBin BEq (EField (EVar "v2") "wChan") (EGlobal "closedChan"))
 ([SAssign None (LField "v3" "wChan") EMake])
 ([])]);
 SIf (Some 101) (EAtomic ACAS "state" [(EVar "v2"); (EVar "v3")])
 ([SIf None (EBin BAnd (EBin BEq (EField (EVar "v3") "count") (EInt 0%Z)) (EBin BNe (EField (EVar "v2") "wChan") (EGlobal "closedChan")))
 ([SClose (Some 102) (EField (EVar "v2") "wChan")])
 ([]);
 SReturn None (EField (EVar "v3") "count")])
 ([])])];
Func "Wait" []
 [SReturn (Some 200) (EField (EAtomic ALoad "state" []) "wChan")];
Func "Count" []
 [SReturn (Some 300) (EField (EAtomic ALoad "state" []) "count")]].

(* the pinned two-word algorithm (before fix a7e7681) *)
Definition hand_prog_orig : prog :=
[Func "Add" ["v1"]
 [SDefine (Some 100) "v2" (EAtomic AAdd "count" [(EConv (EVar "v1"))]);
 SIf None (EBin BEq (EVar "v2") (EInt 0%Z))
 ([SDefine (Some 101) "v3" (EAtomic ASwap "wChan" [(EAddr (EGlobal "closedChan"))]);
 SIf None (EBin BNe (EVar "v3") (EAddr (EGlobal "closedChan")))
 ([SClose (Some 102) (EDeref (EVar "v3"))])
 ([])])
 ([SIf None (EBin BAnd (EBin BGt (EVar "v1") (EInt 0%Z)) (EBin BEq (EVar "v2") (EConv (EVar "v1"))))
 ([SDefine None "v4" EMake;
 SIf (Some 103) (ENot (EAtomic ACAS "wChan" [(EAddr (EGlobal "closedChan")); (EAddr (EVar "v4"))]))
 ([SClose (Some 104) (EVar "v4")])
 ([])])
 ([])]);
 SReturn None (EConv (EVar "v2"))];
Func "Wait" []
 [SLoop
 ([SDefine (Some 200) "v1" (EAtomic ALoad "count" []);
 SDefine (Some 201) "v2" (EAtomic ALoad "wChan" []);
 SIf None (EBin BOr (EBin BEq (EVar "v1") (EInt 0%Z)) (EBin BAnd (EBin BGt (EVar "v1") (EInt 0%Z)) (EBin BNe (EVar "v2") (EAddr (EGlobal "closedChan")))))
 ([SReturn None (EDeref (EVar "v2"))])
 ([])])];
Func "Count" []
 [SReturn (Some 300) (EConv (EAtomic ALoad "count" []))]].

Definition hand_site_ops : list (nat * list opkind) := flat_map func_site_ops hand_prog.
Definition hand_site_ops_orig : list (nat * list opkind) := flat_map func_site_ops hand_prog_orig.
