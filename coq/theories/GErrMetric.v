(* GErrMetric.v — how gerror renders a stack frame's function name as a "metric-safe" source
   (definitions only).  Mirrors gerror/stack.go StackElem.SourceInfo (:88-122) and Metric
   (:124-147).

   Go                                              model
   ---------------------------------------------   ------------------------------
   strings.Split(s, "/") , strings.Split(s, ".")   split_on 47 s , split_on 46 s
   last element                                    last_of
   strings.TrimSuffix(last, "[...]")               trim_suffix last lit_dots
   vals[0] = package, vals[1:] the rest            match .. with pkg :: vals
   cut at the first val with prefix "func" or ""   take_until_func
   "drop repeats": cut at the first val equal to   drop_repeats []
       an earlier one
   pkg + ":" + strings.Join(theRest, ":")          metric                                    *)
From Coq Require Import NArith List Bool.
From GT Require Import Base.GErrStr.
Import ListNotations.
Local Open Scope N_scope.

(* strings.Split on a one-character separator: always at least one piece *)
Fixpoint split_on (sep : N) (s : str) : list str :=
  match s with
  | [] => [[]]
  | c :: r =>
      if N.eqb c sep then [] :: split_on sep r
      else match split_on sep r with
           | h :: t => (c :: h) :: t
           | [] => [[c]]
           end
  end.

Definition last_of (l : list str) : str := last l [].

Fixpoint has_prefix (p s : str) : bool :=
  match p, s with
  | [], _ => true
  | x :: p', y :: s' => N.eqb x y && has_prefix p' s'
  | _ :: _, [] => false
  end.

Definition trim_suffix (s suf : str) : str :=
  if has_prefix (rev suf) (rev s) then rev (skipn (length suf) (rev s)) else s.

Definition lit_dots : str := [91; 46; 46; 46; 93].       (* "[...]" *)
Definition lit_func : str := [102; 117; 110; 99].        (* "func" *)
Definition colon : str := [58].

Fixpoint take_until_func (vals : list str) : list str :=
  match vals with
  | [] => []
  | v :: r => if has_prefix lit_func v || is_empty v then [] else v :: take_until_func r
  end.

Fixpoint drop_repeats (seen vals : list str) : list str :=
  match vals with
  | [] => []
  | v :: r => if existsb (str_eqb v) seen then [] else v :: drop_repeats (v :: seen) r
  end.

Definition metric (name : str) : str :=
  let last := trim_suffix (last_of (split_on 47 name)) lit_dots in
  match split_on 46 last with
  | pkg :: vals => pkg ++ colon ++ join colon (drop_repeats [] (take_until_func vals))
  | [] => colon
  end.
