(* GConfRelProofs.v — the relational specification of C03 (GConfRelSpec) against the model of
   the code (GConfModel.reduce / load_model / get_model) and the executable specification
   (resolve_spec / load_spec).

   On every well-formed document (WF, the quantifier of C03):
     rel_reduce_ok      reduce dims t = Ok r  <->  Resolves dims t r
     rel_reduce_err     reduce dims t = Err   <->  Fails dims t
     rel_deterministic  Resolves is a partial function, rel_exclusive: never both
     rel_total          one of the two holds
   (same for resolve_spec), and WF is used in an essential way: distinct keys, distinct parsed
   values (THE entry for the selected value), plain/switch dichotomy.  On documents that are
   not well-formed the relation is not a function (rel_not_function_outside_WF) or empty
   (rel_empty_on_mixed) while reduce still answers.
     wfb_complete       WF dims p t -> wfb dims p t = true   (with wfb_sound: wfb decides WF)
     load_get_rel       composition of loading with Get, through Resolves and ValueAt
     load_error_rel     load_model = Err <-> Fails \/ resolves to a non-map \/ not a map      *)
From Coq Require Import List String Ascii Bool Arith Lia.
From GT Require Import GConfModel GConfProofs GConfPermProofs GConfRelSpec.
Import ListNotations.
Local Open Scope string_scope.

(* ------------------------------------------------------------------ lists of results *)
Lemma rp_in_keys : forall A (kv : list (string * A)) k,
  In k (map fst kv) <-> exists c, In (k, c) kv.
Proof.
  intros A kv k. rewrite in_map_iff. split.
  - intros [[k' c] [E H]]. cbn in E. subst k'. exists c. exact H.
  - intros [c H]. exists (k, c). split; [reflexivity| exact H].
Qed.

Lemma rp_seq_list_ok : forall (f : tree -> res tree) l l',
  seq_list (map f l) = Ok l' <-> Forall2 (fun c c' => f c = Ok c') l l'.
Proof.
  intros f l. induction l as [|c l IH]; intros l'; cbn [map seq_list].
  - split; intros H; [inversion H; constructor| inversion H; reflexivity].
  - split; intros H.
    + destruct (f c) as [a|] eqn:E; [|discriminate].
      destruct (seq_list (map f l)) as [r|] eqn:Er; [|discriminate].
      inversion H; subst. constructor; [exact E| apply IH; reflexivity].
    + inversion H as [|? b ? r Hc Hr]; subst. rewrite Hc.
      apply IH in Hr. rewrite Hr. reflexivity.
Qed.

Lemma rp_seq_kv_ok : forall (f : tree -> res tree) kv kv',
  seq_kv (rmap f kv) = Ok kv' <->
  Forall2 (fun p q => fst p = fst q /\ f (snd p) = Ok (snd q)) kv kv'.
Proof.
  intros f kv. induction kv as [|[k c] kv IH]; intros kv'; cbn [rmap map seq_kv fst snd].
  - split; intros H; [inversion H; constructor| inversion H; reflexivity].
  - fold (rmap f kv). split; intros H.
    + destruct (f c) as [a|] eqn:E; [|discriminate].
      destruct (seq_kv (rmap f kv)) as [r|] eqn:Er; [|discriminate].
      inversion H; subst. constructor; [cbn; split; [reflexivity| exact E]| apply IH; reflexivity].
    + inversion H as [|? [k' b] ? r [Hk Hc] Hr]; subst. cbn in Hk, Hc. subst k'. rewrite Hc.
      apply IH in Hr. rewrite Hr. reflexivity.
Qed.

Lemma rp_Forall2_impl : forall A B (P : A -> Prop) (R R' : A -> B -> Prop) l l',
  Forall P l -> (forall a b, P a -> R a b -> R' a b) -> Forall2 R l l' -> Forall2 R' l l'.
Proof.
  intros A B P R R' l l' HP Himp H. induction H as [|a b l l' Hab _ IH]; [constructor|].
  inversion HP; subst. constructor; [apply Himp; assumption| apply IH; assumption].
Qed.

(* ------------------------------------------------------------------ inversion of the relations *)
Lemma Resolves_Lst_inv : forall dims l r, Resolves dims (Lst l) r ->
  exists l', r = Lst l' /\ Forall2 (Resolves dims) l l'.
Proof. intros dims l r H. inversion H; subst. exists l'. split; [reflexivity| assumption]. Qed.

Lemma Resolves_Mp_inv : forall dims kv r, Resolves dims (Mp kv) r ->
  (plain_keys dims kv /\ exists kv', r = Mp kv' /\
     Forall2 (fun p q => fst p = fst q /\ Resolves dims (snd p) (snd q)) kv kv') \/
  (exists d k c, switch_of dims d kv /\ selected_entry d kv k c /\ Resolves dims c r) \/
  (exists d c, switch_of dims d kv /\ none_selected d kv /\ In ("default", c) kv /\
               Resolves dims c r).
Proof.
  intros dims kv r H. inversion H; subst.
  - left. split; [assumption|]. exists kv'. split; [reflexivity| assumption].
  - right. left. exists d, k, c. split; [assumption| split; assumption].
  - right. right. exists d, c. split; [assumption| split; [assumption| split; assumption]].
Qed.

Lemma Fails_Lst_inv : forall dims l, Fails dims (Lst l) -> exists c, In c l /\ Fails dims c.
Proof. intros dims l H. inversion H; subst. exists c. split; assumption. Qed.

Lemma Fails_Mp_inv : forall dims kv, Fails dims (Mp kv) ->
  (plain_keys dims kv /\ exists k c, In (k, c) kv /\ Fails dims c) \/
  (exists d k c, switch_of dims d kv /\ selected_entry d kv k c /\ Fails dims c) \/
  (exists d c, switch_of dims d kv /\ none_selected d kv /\ In ("default", c) kv /\ Fails dims c) \/
  (exists d, switch_of dims d kv /\ none_selected d kv /\ forall c, ~ In ("default", c) kv).
Proof.
  intros dims kv H. inversion H; subst.
  - left. split; [assumption|]. exists k, c. split; assumption.
  - right. left. exists d, k, c. split; [assumption| split; assumption].
  - right. right. left. exists d, c. split; [assumption| split; [assumption| split; assumption]].
  - right. right. right. exists d. split; [assumption| split; assumption].
Qed.

(* ------------------------------------------------------------------ WF maps, relationally *)
Lemma rp_nd_key : forall (kv : list (string * tree)) k,
  In k (nondefault_keys kv) <-> (exists c, In (k, c) kv) /\ k <> "default".
Proof.
  intros kv k. rewrite nondefault_keys_in, rp_in_keys. unfold is_default.
  split; intros [H1 H2]; (split; [exact H1|]).
  - intros ->. rewrite String.eqb_refl in H2. discriminate.
  - apply String.eqb_neq. exact H2.
Qed.

Lemma plain_map_keys : forall dims kv, plain_map dims kv -> plain_keys dims kv.
Proof.
  intros dims kv [_ [H _]] k c Hin. apply H. apply rp_in_keys. exists c. exact Hin.
Qed.

Lemma switch_map_switch_of : forall dims p i d kv,
  switch_map dims p i d kv -> switch_of dims d kv.
Proof.
  intros dims p i d kv [_ [Hne [Hn [Hp [Hfirst _]]]]]. unfold switch_of. split; [|split].
  - destruct (nth_error_split dims i Hn) as [pre [post [E Hlen]]].
    exists pre, post. split; [exact E|]. intros d' Hd'.
    destruct (In_nth_error pre d' Hd') as [j Hj].
    assert (Hlt : j < i).
    { rewrite <- Hlen. apply nth_error_Some. congruence. }
    destruct (Hfirst j d' Hlt) as [k [Hk Hnone]].
    { rewrite E, nth_error_app1; [exact Hj| rewrite Hlen; exact Hlt]. }
    apply rp_nd_key in Hk. destruct Hk as [[c Hc] Hk]. exists k, c. repeat split; assumption.
  - destruct (nondefault_keys kv) as [|k ks] eqn:E; [congruence|].
    assert (Hk : In k (nondefault_keys kv)) by (rewrite E; left; reflexivity).
    apply rp_nd_key in Hk. destruct Hk as [[c Hc] Hk]. exists k, c. split; assumption.
  - intros k c Hin Hk. apply Hp. apply rp_nd_key. split; [exists c; exact Hin| exact Hk].
Qed.

(* a plain map is not a switch of any dimension, a switch is not plain *)
Lemma plain_not_switch : forall dims kv d, plain_map dims kv -> switch_of dims d kv -> False.
Proof.
  intros dims kv d HP [[pre [post [E _]]] [[k [c [Hin Hk]]] Hall]].
  apply plain_map_keys in HP. destruct (HP k c Hin) as [_ Hnone].
  apply (Hall k c Hin Hk). apply Hnone. rewrite E. apply in_or_app. right. left. reflexivity.
Qed.

Lemma switch_not_plain : forall dims p i d kv,
  switch_map dims p i d kv -> plain_keys dims kv -> False.
Proof.
  intros dims p i d kv HS HP. pose proof (switch_map_switch_of _ _ _ _ _ HS) as [_ [[k [c [Hin Hk]]] Hall]].
  destruct HS as [_ [_ [Hn _]]]. destruct (HP k c Hin) as [_ Hnone].
  apply (Hall k c Hin Hk). apply Hnone. eapply nth_error_In. exact Hn.
Qed.

(* the dimension of a well-formed switch is determined *)
Lemma switch_of_unique : forall dims p i d kv d',
  switch_map dims p i d kv -> switch_of dims d' kv -> d' = d.
Proof.
  intros dims p i d kv d' [_ [_ [Hn [Hp [Hfirst _]]]]] [[pre [post [E Hpre]]] [_ Hall]].
  assert (Hn' : nth_error dims (List.length pre) = Some d').
  { rewrite E, nth_error_app2, Nat.sub_diag; [reflexivity| lia]. }
  destruct (Nat.lt_trichotomy (List.length pre) i) as [Hlt|[Heq|Hgt]].
  - exfalso. destruct (Hfirst _ d' Hlt Hn') as [k [Hk Hnone]].
    apply rp_nd_key in Hk. destruct Hk as [[c Hc] Hk]. exact (Hall k c Hc Hk Hnone).
  - subst i. congruence.
  - exfalso. assert (Hin : In d pre).
    { apply nth_error_In with (n := i). rewrite <- Hn, E, nth_error_app1; [reflexivity| exact Hgt]. }
    destruct (Hpre d Hin) as [k [c [Hc [Hk Hnone]]]].
    apply (Hp k); [|exact Hnone]. apply rp_nd_key. split; [exists c; exact Hc| exact Hk].
Qed.

(* ------------------------------------------------------------------ the entry followed *)
Lemma followed_selected : forall d (kv : list (string * tree)) k c,
  NoDup (map fst kv) -> NoDup (parsed_values d (nondefault_keys kv)) ->
  selected_entry d kv k c -> active_entry d kv = Some c.
Proof. intros d kv k c N V [Hin [Hk Hp]]. eapply active_selected; eassumption. Qed.

Lemma followed_default : forall d (kv : list (string * tree)) c,
  NoDup (map fst kv) -> none_selected d kv -> In ("default", c) kv ->
  active_entry d kv = Some c.
Proof.
  intros d kv c N Hnone Hin. rewrite (active_default d kv Hnone).
  apply (nodup_assoc _ kv default_key c N Hin).
Qed.

Lemma followed_none : forall d (kv : list (string * tree)),
  none_selected d kv -> (forall c, ~ In ("default", c) kv) -> active_entry d kv = None.
Proof.
  intros d kv Hnone Hnd. rewrite (active_default d kv Hnone).
  destruct (assoc default_key kv) as [c|] eqn:E; [|reflexivity].
  exfalso. apply (Hnd c). apply assoc_in. exact E.
Qed.

Lemma find_sel_none : forall d (kv : list (string * tree)),
  find (fun p : string * tree => negb (is_default (fst p)) && is_sel d (fst p)) kv = None ->
  none_selected d kv.
Proof.
  intros d kv E k c Hin Hk Hp. apply (find_none _ _ E) in Hin. cbn [fst] in Hin.
  rewrite (is_default_false k Hk) in Hin. unfold is_sel in Hin.
  rewrite Hp, Nat.eqb_refl in Hin. discriminate.
Qed.

Lemma active_some_cases : forall d (kv : list (string * tree)) c,
  active_entry d kv = Some c ->
  (exists k, selected_entry d kv k c) \/ (none_selected d kv /\ In ("default", c) kv).
Proof.
  intros d kv c H. unfold active_entry in H.
  destruct (find (fun p : string * tree => negb (is_default (fst p)) && is_sel d (fst p)) kv)
    as [[k c']|] eqn:E1.
  - cbn [snd] in H. inversion H; subst c'. left. exists k.
    apply find_some in E1. destruct E1 as [Hin Hpred]. cbn [fst] in Hpred.
    apply andb_true_iff in Hpred. destruct Hpred as [Hd Hs]. apply negb_true_iff in Hd.
    split; [exact Hin|]. split.
    + intros ->. unfold is_default in Hd. rewrite String.eqb_refl in Hd. discriminate.
    + unfold is_sel in Hs. destruct (d_parse d k) as [v|]; [|discriminate].
      apply Nat.eqb_eq in Hs. subst v. reflexivity.
  - right. split; [apply find_sel_none; exact E1|].
    destruct (find (fun p : string * tree => is_default (fst p)) kv) as [[k c']|] eqn:E2; [|discriminate].
    cbn [snd] in H. inversion H; subst c'. apply find_some in E2. destruct E2 as [Hin Hd].
    cbn [fst] in Hd. unfold is_default in Hd. apply String.eqb_eq in Hd. subst k. exact Hin.
Qed.

Lemma active_none_cases : forall d (kv : list (string * tree)),
  active_entry d kv = None -> none_selected d kv /\ forall c, ~ In ("default", c) kv.
Proof.
  intros d kv H. unfold active_entry in H.
  destruct (find (fun p : string * tree => negb (is_default (fst p)) && is_sel d (fst p)) kv)
    as [[k c']|] eqn:E1; [discriminate|].
  split; [apply find_sel_none; exact E1|].
  destruct (find (fun p : string * tree => is_default (fst p)) kv) as [[k c']|] eqn:E2; [discriminate|].
  intros c Hin. apply (find_none _ _ E2) in Hin. cbn [fst] in Hin.
  unfold is_default in Hin. rewrite String.eqb_refl in Hin. discriminate.
Qed.

Lemma WF_child : forall dims p kv k c,
  WF dims p (Mp kv) -> In (k, c) kv -> exists p', WF dims p' c.
Proof.
  intros dims p kv k c H Hin. apply WF_Mp_inv in H.
  destruct H as [[_ [_ Hch]] | [i [d [_ [_ [_ [_ [_ [_ [_ Hch]]]]]]]]]];
    rewrite Forall_forall in Hch; specialize (Hch (k, c) Hin); cbn in Hch; eauto.
Qed.

(* ------------------------------------------------------------------ the main theorem *)
Theorem rel_spec_main : forall dims t p, WF dims p t ->
  (forall r, resolve_spec dims t = Ok r <-> Resolves dims t r) /\
  (resolve_spec dims t = Err <-> Fails dims t).
Proof.
  intros dims t. induction t as [s|s| |l IH|kv IH] using tree_ind'; intros p HW.
  - split; [intros r; split; intros H; inversion H; subst; [constructor| reflexivity]|].
    split; intros H; [discriminate| inversion H].
  - split; [intros r; split; intros H; inversion H; subst; [constructor| reflexivity]|].
    split; intros H; [discriminate| inversion H].
  - split; [intros r; split; intros H; inversion H; subst; [constructor| reflexivity]|].
    split; intros H; [discriminate| inversion H].
  - (* lists *)
    apply WF_Lst_inv in HW. rewrite resolve_Lst.
    assert (IH' : Forall (fun c => (forall r, resolve_spec dims c = Ok r <-> Resolves dims c r) /\
                                   (resolve_spec dims c = Err <-> Fails dims c)) l).
    { rewrite Forall_forall in *. intros c Hc. apply (IH c Hc None). apply HW. exact Hc. }
    clear IH HW. split.
    + intros r. split; intros H.
      * destruct (seq_list (map (resolve_spec dims) l)) as [l'|] eqn:E; [|discriminate].
        cbn in H. inversion H; subst r. constructor. apply rp_seq_list_ok in E.
        eapply rp_Forall2_impl; [exact IH'| |exact E]. cbn. intros a b [Ha _] Hab. apply Ha. exact Hab.
      * apply Resolves_Lst_inv in H. destruct H as [l' [-> HF]].
        assert (E : seq_list (map (resolve_spec dims) l) = Ok l').
        { apply rp_seq_list_ok. eapply rp_Forall2_impl; [exact IH'| |exact HF].
          cbn. intros a b [Ha _] Hab. apply Ha. exact Hab. }
        rewrite E. reflexivity.
    + rewrite lift_err, seq_list_err, in_map_iff. rewrite Forall_forall in IH'. split.
      * intros [c [Hc Hin]]. apply (F_lst dims l c Hin). apply (IH' c Hin). exact Hc.
      * intros H. apply Fails_Lst_inv in H. destruct H as [c [Hin Hc]].
        exists c. split; [apply (IH' c Hin); exact Hc| exact Hin].
  - (* maps *)
    pose proof HW as HW0. apply WF_Mp_inv in HW. destruct HW as [HP | [i [d HS]]].
    + (* plain map *)
      pose proof (plain_map_spec dims kv HP) as E. rewrite (resolve_plain dims kv E).
      pose proof (plain_map_keys dims kv HP) as HK.
      assert (IH' : Forall (fun q => (forall r, resolve_spec dims (snd q) = Ok r <-> Resolves dims (snd q) r) /\
                                     (resolve_spec dims (snd q) = Err <-> Fails dims (snd q))) kv).
      { destruct HP as [_ [_ Hch]]. rewrite Forall_forall in *. intros q Hq.
        apply (IH q Hq None). apply Hch. exact Hq. }
      clear IH. split.
      * intros r. split; intros H.
        -- destruct (seq_kv (rmap (resolve_spec dims) kv)) as [kv'|] eqn:Es; [|discriminate].
           cbn in H. inversion H; subst r. apply R_plain; [exact HK|]. apply rp_seq_kv_ok in Es.
           eapply rp_Forall2_impl; [exact IH'| |exact Es]. cbn.
           intros a b [Ha _] [Hk Hab]. split; [exact Hk| apply Ha; exact Hab].
        -- apply Resolves_Mp_inv in H.
           destruct H as [[_ [kv' [-> HF]]] | [[d [k [c [Hsw _]]]] | [d [c [Hsw _]]]]].
           ++ assert (Es : seq_kv (rmap (resolve_spec dims) kv) = Ok kv').
              { apply rp_seq_kv_ok. eapply rp_Forall2_impl; [exact IH'| |exact HF]. cbn.
                intros a b [Ha _] [Hk Hab]. split; [exact Hk| apply Ha; exact Hab]. }
              rewrite Es. reflexivity.
           ++ exfalso. exact (plain_not_switch dims kv d HP Hsw).
           ++ exfalso. exact (plain_not_switch dims kv d HP Hsw).
      * rewrite lift_err, seq_kv_err. rewrite Forall_forall in IH'. split.
        -- intros [k Hin]. apply in_rmap in Hin. destruct Hin as [c [Hin Hc]].
           apply (F_plain dims kv k c HK Hin). apply (IH' (k, c) Hin). exact Hc.
        -- intros H. apply Fails_Mp_inv in H.
           destruct H as [[_ [k [c [Hin Hc]]]] | [[d [k [c [Hsw _]]]] | [[d [c [Hsw _]]] | [d [Hsw _]]]]];
             try (exfalso; exact (plain_not_switch dims kv d HP Hsw)).
           exists k. apply in_rmap. exists c. split; [exact Hin| apply (IH' (k, c) Hin); exact Hc].
    + (* switch of dimension d *)
      pose proof (switch_map_spec dims p i d kv HS) as E. rewrite (resolve_switch dims kv d E).
      pose proof (switch_map_switch_of dims p i d kv HS) as Hsw.
      pose proof HS as [N [_ [_ [_ [_ [V [_ Hch]]]]]]].
      assert (IH' : forall k c, In (k, c) kv ->
                      (forall r, resolve_spec dims c = Ok r <-> Resolves dims c r) /\
                      (resolve_spec dims c = Err <-> Fails dims c)).
      { rewrite Forall_forall in *. intros k c Hin. apply (IH (k, c) Hin (Some i)).
        apply (Hch (k, c) Hin). }
      clear IH.
      assert (Huniq : forall d', switch_of dims d' kv -> d' = d).
      { intros d' H. exact (switch_of_unique dims p i d kv d' HS H). }
      split.
      * intros r. split; intros H.
        -- destruct (active_entry d kv) as [c|] eqn:Ea; [|discriminate].
           destruct (active_some_cases d kv c Ea) as [[k Hsel] | [Hnone Hdf]].
           ++ apply (R_selected dims kv d k c r Hsw Hsel). destruct Hsel as [Hin _].
              apply (IH' k c Hin). exact H.
           ++ apply (R_default dims kv d c r Hsw Hnone Hdf). apply (IH' _ c Hdf). exact H.
        -- apply Resolves_Mp_inv in H.
           destruct H as [[HK _] | [[d' [k [c [Hsw' [Hsel Hc]]]]] | [d' [c [Hsw' [Hnone [Hdf Hc]]]]]]].
           ++ exfalso. exact (switch_not_plain dims p i d kv HS HK).
           ++ apply Huniq in Hsw'. subst d'. rewrite (followed_selected d kv k c N V Hsel).
              destruct Hsel as [Hin _]. apply (IH' k c Hin). exact Hc.
           ++ apply Huniq in Hsw'. subst d'. rewrite (followed_default d kv c N Hnone Hdf).
              apply (IH' _ c Hdf). exact Hc.
      * split; intros H.
        -- destruct (active_entry d kv) as [c|] eqn:Ea.
           ++ destruct (active_some_cases d kv c Ea) as [[k Hsel] | [Hnone Hdf]].
              ** apply (F_selected dims kv d k c Hsw Hsel). destruct Hsel as [Hin _].
                 apply (IH' k c Hin). exact H.
              ** apply (F_default dims kv d c Hsw Hnone Hdf). apply (IH' _ c Hdf). exact H.
           ++ destruct (active_none_cases d kv Ea) as [Hnone Hnd].
              exact (F_none dims kv d Hsw Hnone Hnd).
        -- apply Fails_Mp_inv in H.
           destruct H as [[HK _] | [[d' [k [c [Hsw' [Hsel Hc]]]]] |
                          [[d' [c [Hsw' [Hnone [Hdf Hc]]]]] | [d' [Hsw' [Hnone Hnd]]]]]].
           ++ exfalso. exact (switch_not_plain dims p i d kv HS HK).
           ++ apply Huniq in Hsw'. subst d'. rewrite (followed_selected d kv k c N V Hsel).
              destruct Hsel as [Hin _]. apply (IH' k c Hin). exact Hc.
           ++ apply Huniq in Hsw'. subst d'. rewrite (followed_default d kv c N Hnone Hdf).
              apply (IH' _ c Hdf). exact Hc.
           ++ apply Huniq in Hsw'. subst d'. rewrite (followed_none d kv Hnone Hnd). reflexivity.
Qed.

(* ------------------------------------------------------------------ corollaries *)
Theorem rel_spec_ok : forall dims t p r, WF dims p t ->
  (resolve_spec dims t = Ok r <-> Resolves dims t r).
Proof. intros dims t p r H. apply (rel_spec_main dims t p H). Qed.

Theorem rel_spec_err : forall dims t p, WF dims p t ->
  (resolve_spec dims t = Err <-> Fails dims t).
Proof. intros dims t p H. apply (rel_spec_main dims t p H). Qed.

Theorem rel_reduce_ok : forall dims t p r, WF dims p t ->
  (reduce dims t = Ok r <-> Resolves dims t r).
Proof. intros dims t p r H. rewrite (reduce_resolves dims t p H). apply (rel_spec_ok dims t p r H). Qed.

Theorem rel_reduce_err : forall dims t p, WF dims p t ->
  (reduce dims t = Err <-> Fails dims t).
Proof. intros dims t p H. rewrite (reduce_resolves dims t p H). apply (rel_spec_err dims t p H). Qed.

Theorem rel_deterministic : forall dims t p r1 r2, WF dims p t ->
  Resolves dims t r1 -> Resolves dims t r2 -> r1 = r2.
Proof.
  intros dims t p r1 r2 H H1 H2. apply (rel_reduce_ok dims t p r1 H) in H1.
  apply (rel_reduce_ok dims t p r2 H) in H2. congruence.
Qed.

Theorem rel_exclusive : forall dims t p r, WF dims p t ->
  Resolves dims t r -> Fails dims t -> False.
Proof.
  intros dims t p r H H1 H2. apply (rel_reduce_ok dims t p r H) in H1.
  apply (rel_reduce_err dims t p H) in H2. congruence.
Qed.

Theorem rel_total : forall dims t p, WF dims p t ->
  (exists r, Resolves dims t r) \/ Fails dims t.
Proof.
  intros dims t p H. destruct (reduce dims t) as [r|] eqn:E.
  - left. exists r. apply (rel_reduce_ok dims t p r H). exact E.
  - right. apply (rel_reduce_err dims t p H). exact E.
Qed.

(* ------------------------------------------------------------------ WF is essential
   outside the well-formed documents the relation is not the function that the code computes:
   (1) two keys parsing to the selected value (case-variant spellings): two values;
   (2) a map mixing dimension values and other keys: neither resolves nor fails, while the code
       answers *)
Definition Tdup : list (string * nat) := [("D1a", 0); ("d1a", 0); ("D1b", 1)].

Lemma rel_not_function_outside_WF :
  exists dims t r1 r2, Resolves dims t r1 /\ Resolves dims t r2 /\ r1 <> r2.
Proof.
  exists [mk_dim Tdup 0], (Mp [("D1a", Str "x"); ("d1a", Str "y")]), (Str "x"), (Str "y").
  assert (Hsw : switch_of [mk_dim Tdup 0] (mk_dim Tdup 0) [("D1a", Str "x"); ("d1a", Str "y")]).
  { split; [|split].
    - exists [], []. split; [reflexivity| intros d' []].
    - exists "D1a", (Str "x"). split; [left; reflexivity| discriminate].
    - intros k c [H|[H|[]]] _; inversion H; subst; discriminate. }
  split; [|split; [|discriminate]].
  - eapply R_selected; [exact Hsw| |constructor].
    split; [left; reflexivity| split; [discriminate| reflexivity]].
  - eapply R_selected; [exact Hsw| |constructor].
    split; [right; left; reflexivity| split; [discriminate| reflexivity]].
Qed.

Lemma rel_empty_on_mixed :
  exists dims t, (forall r, ~ Resolves dims t r) /\ ~ Fails dims t /\ reduce dims t <> Err.
Proof.
  exists [mk_dim T1 0], (Mp [("D1a", Str "x"); ("other", Str "y")]).
  assert (Hnp : ~ plain_keys [mk_dim T1 0] [("D1a", Str "x"); ("other", Str "y")]).
  { intros H. destruct (H "D1a" (Str "x") (or_introl eq_refl)) as [_ Hn].
    specialize (Hn (mk_dim T1 0) (or_introl eq_refl)). discriminate. }
  assert (Hns : forall d, ~ switch_of [mk_dim T1 0] d [("D1a", Str "x"); ("other", Str "y")]).
  { intros d [[pre [post [E _]]] [_ Hall]].
    assert (Hd : In d [mk_dim T1 0]) by (rewrite E; apply in_or_app; right; left; reflexivity).
    destruct Hd as [<-|[]].
    apply (Hall "other" (Str "y")); [right; left; reflexivity| discriminate| reflexivity]. }
  split; [|split].
  - intros r H. apply Resolves_Mp_inv in H.
    destruct H as [[HK _] | [[d [k [c [Hsw _]]]] | [d [c [Hsw _]]]]];
      [exact (Hnp HK)| exact (Hns d Hsw)| exact (Hns d Hsw)].
  - intros H. apply Fails_Mp_inv in H.
    destruct H as [[HK _] | [[d [k [c [Hsw _]]]] | [[d [c [Hsw _]]] | [d [Hsw _]]]]];
      [exact (Hnp HK)| exact (Hns d Hsw)| exact (Hns d Hsw)| exact (Hns d Hsw)].
  - vm_compute. discriminate.
Qed.

(* ------------------------------------------------------------------ wfb decides WF *)
Lemma nodup_strings_complete : forall l, NoDup l -> nodup_strings l = true.
Proof.
  induction l as [|x r IH]; intros H; [reflexivity|]. inversion H as [|? ? Hn Hr]; subst.
  cbn. rewrite (IH Hr), andb_true_r. apply negb_true_iff.
  destruct (existsb (String.eqb x) r) eqn:E; [|reflexivity].
  apply existsb_exists in E. destruct E as [y [Hy Hxy]]. apply String.eqb_eq in Hxy. subst y.
  contradiction.
Qed.

Lemma nodup_nats_complete : forall l, NoDup l -> nodup_nats l = true.
Proof.
  induction l as [|x r IH]; intros H; [reflexivity|]. inversion H as [|? ? Hn Hr]; subst.
  cbn. rewrite (IH Hr), andb_true_r. apply negb_true_iff.
  destruct (existsb (Nat.eqb x) r) eqn:E; [|reflexivity].
  apply existsb_exists in E. destruct E as [y [Hy Hxy]]. apply Nat.eqb_eq in Hxy. subst y.
  contradiction.
Qed.

Lemma index_of_switch_complete : forall dims keys i d i0,
  nth_error dims i = Some d -> forallb (parses d) keys = true ->
  (forall j dj, j < i -> nth_error dims j = Some dj -> forallb (parses dj) keys = false) ->
  index_of_switch dims keys i0 = Some (i0 + i).
Proof.
  induction dims as [|d0 ds IH]; intros keys i d i0 Hn Hp Hfirst; [destruct i; discriminate|].
  cbn [index_of_switch]. destruct i as [|i].
  - cbn in Hn. inversion Hn; subst d0. rewrite Hp. f_equal. lia.
  - rewrite (Hfirst 0 d0 (Nat.lt_0_succ i) eq_refl). cbn in Hn.
    rewrite (IH keys i d (S i0) Hn Hp); [f_equal; lia|].
    intros j dj Hj Hnj. apply (Hfirst (S j) dj); [lia| exact Hnj].
Qed.

Theorem wfb_complete : forall dims t p, WF dims p t -> wfb dims p t = true.
Proof.
  intros dims t. induction t as [s|s| |l IH|kv IH] using tree_ind'; intros p HW; try reflexivity.
  - cbn [wfb]. apply WF_Lst_inv in HW. apply forallb_forall. rewrite Forall_forall in *.
    intros c Hc. apply (IH c Hc). apply HW. exact Hc.
  - apply WF_Mp_inv in HW. cbn [wfb]. cbv zeta. rewrite Forall_forall in IH.
    destruct HW as [[N [Hkeys Hch]] | [i [d [N [Hne [Hn [Hp [Hfirst [V [Hpar Hch]]]]]]]]]].
    + rewrite (nodup_strings_complete _ N). cbn [andb].
      assert (Ec : forallb (fun k => negb (is_default k) && forallb (fun d => negb (parses d k)) dims)
                           (map fst kv) = true).
      { apply forallb_forall. intros k Hk. destruct (Hkeys k Hk) as [Hd Hnone].
        rewrite (is_default_false k Hd). cbn [negb andb]. apply forallb_forall.
        intros d Hd'. unfold parses. rewrite (Hnone d Hd'). reflexivity. }
      rewrite Ec. apply forallb_forall. rewrite Forall_forall in Hch.
      intros q Hq. apply (IH q Hq). apply Hch. exact Hq.
    + rewrite (nodup_strings_complete _ N). cbn [andb].
      assert (Hall : forallb (parses d) (nondefault_keys kv) = true).
      { apply forallb_forall. intros k Hk. specialize (Hp k Hk). unfold parses.
        destruct (d_parse d k); [reflexivity| congruence]. }
      assert (Ec : forallb (fun k => negb (is_default k) && forallb (fun d => negb (parses d k)) dims)
                           (map fst kv) = false).
      { destruct (forallb _ (map fst kv)) eqn:Ec; [|reflexivity]. exfalso.
        destruct (nondefault_keys kv) as [|k ks] eqn:Ek; [congruence|].
        assert (Hk : In k (nondefault_keys kv)) by (rewrite Ek; left; reflexivity).
        pose proof Hk as Hk'. apply nondefault_keys_in in Hk'. destruct Hk' as [Hin _].
        rewrite forallb_forall in Ec. specialize (Ec k Hin). apply andb_true_iff in Ec.
        destruct Ec as [_ Ec]. rewrite forallb_forall in Ec.
        specialize (Ec d (nth_error_In _ _ Hn)). rewrite forallb_forall in Hall.
        rewrite (Hall k) in Ec; [discriminate|]. left. reflexivity. }
      rewrite Ec.
      destruct (nondefault_keys kv) as [|k0 ks] eqn:Ek; [congruence|]. rewrite <- Ek in *.
      assert (Ei : index_of_switch dims (nondefault_keys kv) 0 = Some i).
      { apply (index_of_switch_complete dims _ i d 0 Hn Hall).
        intros j dj Hj Hnj. destruct (Hfirst j dj Hj Hnj) as [k [Hk Hnone]].
        destruct (forallb (parses dj) (nondefault_keys kv)) eqn:Ef; [|reflexivity].
        rewrite forallb_forall in Ef. specialize (Ef k Hk). unfold parses in Ef.
        rewrite Hnone in Ef. discriminate. }
      rewrite Ei, Hn, (nodup_nats_complete _ V).
      assert (Epar : negb (opt_nat_eqb p i) = true).
      { destruct p as [x|]; [|reflexivity]. cbn. apply negb_true_iff. apply Nat.eqb_neq.
        intros ->. apply Hpar. reflexivity. }
      rewrite Epar. cbn [andb]. apply forallb_forall. rewrite Forall_forall in Hch.
      intros q Hq. apply (IH q Hq). apply Hch. exact Hq.
Qed.

Theorem wfb_decides_WF : forall dims t p, wfb dims p t = true <-> WF dims p t.
Proof. intros. split; [apply wfb_sound| apply wfb_complete]. Qed.

(* ------------------------------------------------------------------ the value at a path *)
(* every map of a resolved document has distinct keys *)
Inductive NDK : tree -> Prop :=
| NDK_str : forall s, NDK (Str s)
| NDK_atom : forall s, NDK (Atom s)
| NDK_null : NDK Null
| NDK_lst : forall l, Forall NDK l -> NDK (Lst l)
| NDK_mp : forall kv, NoDup (map fst kv) -> Forall (fun q => NDK (snd q)) kv -> NDK (Mp kv).

Lemma resolved_ndk : forall dims t p r, WF dims p t -> Resolves dims t r -> NDK r.
Proof.
  intros dims t. induction t as [s|s| |l IH|kv IH] using tree_ind'; intros p r HW HR.
  - inversion HR; subst. constructor.
  - inversion HR; subst. constructor.
  - inversion HR; subst. constructor.
  - apply WF_Lst_inv in HW. apply Resolves_Lst_inv in HR. destruct HR as [l' [-> HF]].
    constructor. induction HF as [|a b l l' Hab _ IHF]; [constructor|].
    inversion IH; subst. inversion HW; subst. constructor; [eauto| apply IHF; assumption].
  - rewrite Forall_forall in IH.
    assert (Hfollow : forall k c, In (k, c) kv -> Resolves dims c r -> NDK r).
    { intros k c Hin Hc. destruct (WF_child dims p kv k c HW Hin) as [p' Hp'].
      exact (IH (k, c) Hin p' r Hp' Hc). }
    apply Resolves_Mp_inv in HR.
    destruct HR as [[HK [kv' [-> HF]]] | [[d [k [c [_ [[Hin _] Hc]]]]] | [d [c [_ [_ [Hin Hc]]]]]]];
      [|exact (Hfollow k c Hin Hc)| exact (Hfollow _ c Hin Hc)].
    apply WF_Mp_inv in HW. destruct HW as [[N [_ Hch]] | [i [d HS]]].
    + constructor.
      * assert (Ek : map fst kv' = map fst kv).
        { clear -HF. induction HF as [|a b l l' [Hk _] _ IHF]; [reflexivity|]. cbn. rewrite Hk, IHF. reflexivity. }
        rewrite Ek. exact N.
      * rewrite Forall_forall in Hch. clear Hfollow N HK.
        induction HF as [|a b l l' [_ Hab] _ IHF]; [constructor|]. constructor.
        -- apply (IH a (or_introl eq_refl) None _ (Hch a (or_introl eq_refl)) Hab).
        -- apply IHF.
           ++ intros x Hx. apply IH. right. exact Hx.
           ++ intros x Hx. apply Hch. right. exact Hx.
    + exfalso. exact (switch_not_plain dims p i d kv HS HK).
Qed.

Lemma subtree_value_at : forall path t, NDK t ->
  forall v, subtree_at t path = Some v <-> ValueAt t path v.
Proof.
  induction path as [|k rest IH]; intros t HN v.
  - cbn. split; intros H; [inversion H; constructor| inversion H; reflexivity].
  - cbn [subtree_at]. destruct t as [s|s| |l|kv];
      try (split; intros H; [discriminate| inversion H]).
    inversion HN as [| | | |? N Hch]; subst. rewrite Forall_forall in Hch. split; intros H.
    + destruct (assoc k kv) as [c|] eqn:Ea; [|discriminate]. apply assoc_in in Ea.
      apply (VA_step kv k c rest v Ea). apply IH; [apply (Hch (k, c) Ea)| exact H].
    + inversion H; subst. rewrite (nodup_assoc _ kv k c N H3).
      apply IH; [apply (Hch (k, c) H3)| assumption].
Qed.

(* ------------------------------------------------------------------ loading, then Get *)
Lemma load_model_ok : forall dims t cfg,
  load_model dims t = Ok cfg -> reduce dims t = Ok (Mp cfg).
Proof.
  intros dims t cfg H. unfold load_model in H. destruct t; try discriminate.
  destruct (reduce dims (Mp kv)) as [[| | | |kv']|]; try discriminate. inversion H; subst. reflexivity.
Qed.

Theorem load_get_rel : forall dims p t cfg,
  WF dims p t -> load_model dims t = Ok cfg ->
  Resolves dims t (Mp cfg) /\
  forall r, Resolves dims t r ->
    r = Mp cfg /\
    forall path, path <> [] -> Forall (fun s => no_dot s = true) path ->
      get_model cfg (join_dots path) = subtree_at r path /\
      forall v, get_model cfg (join_dots path) = Some v <-> ValueAt r path v.
Proof.
  intros dims p t cfg HW HL. apply load_model_ok in HL.
  assert (HR : Resolves dims t (Mp cfg)) by (apply (rel_reduce_ok dims t p _ HW); exact HL).
  split; [exact HR|]. intros r Hr.
  assert (r = Mp cfg) by (exact (rel_deterministic dims t p _ _ HW Hr HR)). subst r.
  split; [reflexivity|]. intros path Hne Hdots.
  assert (Hb : forallb no_dot path = true).
  { apply forallb_forall. rewrite Forall_forall in Hdots. exact Hdots. }
  rewrite (get_at_path cfg path Hne Hb). split; [reflexivity|].
  apply subtree_value_at. exact (resolved_ndk dims t p _ HW HR).
Qed.

(* ------------------------------------------------------------------ loading fails, exactly *)
Theorem load_error_rel : forall dims p t, WF dims p t ->
  (load_model dims t = Err <->
   Fails dims t \/ (exists r, Resolves dims t r /\ ~ is_map r) \/ ~ is_map t).
Proof.
  intros dims p t HW. split.
  - intros H. destruct t as [s|s| |l|kv];
      try (right; right; intros [kv' E]; discriminate).
    unfold load_model in H. destruct (reduce dims (Mp kv)) as [r|] eqn:E.
    + right. left. exists r. split; [apply (rel_reduce_ok dims _ p r HW); exact E|].
      intros [kv' ->]. discriminate.
    + left. apply (rel_reduce_err dims _ p HW). exact E.
  - intros [H | [[r [Hr Hnm]] | H]].
    + apply (rel_reduce_err dims t p HW) in H. unfold load_model. rewrite H.
      destruct t; reflexivity.
    + apply (rel_reduce_ok dims t p r HW) in Hr. unfold load_model. rewrite Hr.
      destruct t; try reflexivity. destruct r; try reflexivity.
      exfalso. apply Hnm. eexists. reflexivity.
    + destruct t; try reflexivity. exfalso. apply H. eexists. reflexivity.
Qed.

Theorem load_spec_error_rel : forall dims p t, WF dims p t ->
  (load_spec dims t = Err <->
   Fails dims t \/ (exists r, Resolves dims t r /\ ~ is_map r) \/ ~ is_map t).
Proof.
  intros dims p t HW. rewrite <- (load_resolves dims t p HW). exact (load_error_rel dims p t HW).
Qed.

(* a well-formed document whose root is a switch resolving to a scalar: loading fails, yet no
   switch is stuck *)
Lemma root_non_map_witness :
  WF dims12 None (Mp [("D1a", Str "x")]) /\
  Resolves dims12 (Mp [("D1a", Str "x")]) (Str "x") /\ ~ is_map (Str "x") /\
  load_model dims12 (Mp [("D1a", Str "x")]) = Err /\
  ~ Fails dims12 (Mp [("D1a", Str "x")]) /\ ~ Stuck dims12 (Mp [("D1a", Str "x")]).
Proof.
  assert (HW : WF dims12 None (Mp [("D1a", Str "x")])) by (apply wfb_sound; vm_compute; reflexivity).
  assert (HR : Resolves dims12 (Mp [("D1a", Str "x")]) (Str "x")).
  { apply (rel_reduce_ok dims12 _ None _ HW). vm_compute. reflexivity. }
  split; [exact HW|]. split; [exact HR|]. split; [intros [kv E]; discriminate|].
  split; [vm_compute; reflexivity|]. split.
  - intros HF. exact (rel_exclusive dims12 _ None _ HW HR HF).
  - intros HS. apply error_iff_stuck in HS. vm_compute in HS. discriminate.
Qed.

(* ------------------------------------------------------------------ the first-registered clause *)
Lemma switch_of_loose : forall dims d kv, switch_of dims d kv -> loose_switch dims d kv.
Proof.
  intros dims d kv [[pre [post [E _]]] [H1 H2]]. split; [|split; assumption].
  rewrite E. apply in_or_app. right. left. reflexivity.
Qed.

Lemma loose_switch_disjoint : forall dims d kv,
  disjoint_dims dims -> loose_switch dims d kv -> switch_of dims d kv.
Proof.
  intros dims d kv HD [Hin [[k [c [Hc Hk]]] Hall]]. split; [|split; [exists k, c; split; assumption| exact Hall]].
  destruct (In_nth_error dims d Hin) as [i Hi].
  destruct (nth_error_split dims i Hi) as [pre [post [E Hlen]]].
  exists pre, post. split; [exact E|]. intros d' Hd'. exists k, c. split; [exact Hc|]. split; [exact Hk|].
  destruct (d_parse d' k) as [v|] eqn:Ep; [|reflexivity]. exfalso.
  destruct (In_nth_error pre d' Hd') as [j Hj].
  assert (Hlt : j < i) by (rewrite <- Hlen; apply nth_error_Some; congruence).
  assert (Hj' : nth_error dims j = Some d').
  { rewrite E, nth_error_app1; [exact Hj| rewrite Hlen; exact Hlt]. }
  assert (j = i); [|lia].
  apply (HD j i d' d k Hj' Hi); [congruence| exact (Hall k c Hc Hk)].
Qed.

(* without the clause the value of a well-formed document is ambiguous as soon as two
   registered dimensions share a value name: "X" is value 0 of the first and value 1 of the
   second dimension, both have 0 selected *)
Lemma loose_ambiguous :
  exists dims t r1 r2, WF dims None t /\ LooseResolves dims t r1 /\ LooseResolves dims t r2 /\
                       r1 <> r2 /\ reduce dims t = Ok r1.
Proof.
  exists [mk_dim [("X", 0)] 0; mk_dim [("X", 1)] 0],
         (Mp [("X", Str "a"); ("default", Str "b")]), (Str "a"), (Str "b").
  split; [apply wfb_sound; vm_compute; reflexivity|].
  split; [|split; [|split; [discriminate| vm_compute; reflexivity]]].
  - eapply (LR_selected _ _ (mk_dim [("X", 0)] 0) "X"); [| |constructor].
    + split; [left; reflexivity|]. split.
      * exists "X", (Str "a"). split; [left; reflexivity| discriminate].
      * intros k c [H|[H|[]]] Hk; inversion H; subst; [discriminate| congruence].
    + split; [left; reflexivity| split; [discriminate| reflexivity]].
  - eapply (LR_default _ _ (mk_dim [("X", 1)] 0)); [| | |constructor].
    + split; [right; left; reflexivity|]. split.
      * exists "X", (Str "a"). split; [left; reflexivity| discriminate].
      * intros k c [H|[H|[]]] Hk; inversion H; subst; [discriminate| congruence].
    + intros k c [H|[H|[]]] Hk; inversion H; subst; [discriminate| congruence].
    + right. left. reflexivity.
Qed.

(* with pairwise disjoint value names (the registered enums of the property's generator) the
   first-registered clause says nothing: both readings are the same relation *)
Theorem loose_iff_disjoint : forall dims, disjoint_dims dims ->
  forall t r, LooseResolves dims t r <-> Resolves dims t r.
Proof.
  intros dims HD t. induction t as [s|s| |l IH|kv IH] using tree_ind'; intros r.
  - split; intros H; inversion H; subst; constructor.
  - split; intros H; inversion H; subst; constructor.
  - split; intros H; inversion H; subst; constructor.
  - split; intros H; inversion H; subst; constructor.
    + eapply rp_Forall2_impl; [exact IH| |eassumption]. cbn. intros a b Ha Hab. apply Ha. exact Hab.
    + eapply rp_Forall2_impl; [exact IH| |eassumption]. cbn. intros a b Ha Hab. apply Ha. exact Hab.
  - assert (IH' : forall k c, In (k, c) kv -> forall r, LooseResolves dims c r <-> Resolves dims c r).
    { rewrite Forall_forall in IH. intros k c Hin. exact (IH (k, c) Hin). }
    split; intros H; inversion H; subst.
    + apply R_plain; [assumption|]. eapply rp_Forall2_impl; [exact IH| |eassumption]. cbn.
      intros a b Ha [Hk Hab]. split; [exact Hk| apply Ha; exact Hab].
    + match goal with Hs : selected_entry _ _ _ _ |- _ => pose proof Hs as [Hin _] end.
      eapply R_selected; [apply loose_switch_disjoint; eassumption| eassumption|].
      apply (IH' k c Hin). assumption.
    + eapply R_default; [apply loose_switch_disjoint; eassumption| eassumption| eassumption|].
      eapply IH'; eassumption.
    + apply LR_plain; [assumption|]. eapply rp_Forall2_impl; [exact IH| |eassumption]. cbn.
      intros a b Ha [Hk Hab]. split; [exact Hk| apply Ha; exact Hab].
    + match goal with Hs : selected_entry _ _ _ _ |- _ => pose proof Hs as [Hin _] end.
      eapply LR_selected; [apply switch_of_loose; eassumption| eassumption|].
      apply (IH' k c Hin). assumption.
    + eapply LR_default; [apply switch_of_loose; eassumption| eassumption| eassumption|].
      eapply IH'; eassumption.
Qed.
