(* GSortGoModel.v — a small imperative language ("mini-Go") with an interpreter, into which
   harness/cmd/xlate_gsort_go translates the Go source of gsort/gen/sorter_desc.go (go/ast +
   go/types), and the comparison of what the translated program computes with GSortModel.v.
   No proofs here.

   What is translated (GsortGoGen.v, regenerated on every run): every function and method of package
   gsort/gen that createSorterDesc, SortFieldDescs.Validate, SorterDesc.PriorityTree and
   CompareLine.String reach inside the package (helpers a refactoring may introduce included), and
   the generated Less methods of the package's own sort types.  Primitive (not translated):
   sortFieldDescFromTag (the tag parser has its own model and theorems, GSortTagModel.v: the
   interpreter is handed the parsed tags), the go/types accessors of the struct under
   generation (NumFields / Field(i) / Tag(i) / Name() / Type().String(), read from the input
   record), gtools/set (Make, Add), sort.Sort / sort.Stable / slices.SortFunc /
   slices.SortStableFunc (an insertion sort that calls the translated Less / comparator),
   slices.Clone, strings.HasPrefix / TrimPrefix, strconv.Itoa, errors.New, len, append, make.

   Semantics: ints are int64 (+, -, * wrap around), strings, bools, nil; structs live in a heap
   and are reached through pointers (`&T{...}`), struct values are copied; maps and sets are
   heap objects (reference semantics), slices are values (append / sort results are written
   back by the statement that produces them: no aliasing between slices is modelled); a map
   is ranged over in insertion order (C14 is about the other orders); `fuel` bounds the nesting
   depth of calls and blocks, loops over a slice or map recurse on the list.

   The tie (coq/ties/Tie_C08_go.v) evaluates, inside the kernel, the translated createSorterDesc +
   PriorityTree + CompareLine.String on a family of struct definitions — a fixed corpus (equal
   priorities, `S` next to `*S`, priorities at the ends of int64 and more than 2^63 apart, names
   and numbers that run into one another when concatenated, accessors, bools) and a
   pseudo-random family over pools of such names, sorters and priorities — and requires the
   result (error or not; per sorter the chain of (IsBool, Accessor) and the rendered comparison
   of every line) to be what GSortModel.create / priority_tree / cl_string give.            *)
From Coq Require Import List Bool ZArith String Ascii.
From GT Require Import GSortModel GSortTagModel.
Import ListNotations.
Local Open Scope string_scope.

(* ------------------------------------------------------------------ syntax *)
Inductive expr :=
| EInt (z : Z) | EStr (s : string) | EBool (b : bool) | ENil
| EVar (x : string)
| EField (e : expr) (f : string)
| EIndex (e i : expr)
| EBin (op : string) (a b : expr)
| ENot (e : expr)
| ECall (f : string) (args : list expr)          (* user function / method (receiver first) / primitive *)
| ECallV (f : expr) (args : list expr)           (* call of a function value *)
| ENew (fields : list (string * expr))           (* &T{...}: all fields given *)
| ERec (fields : list (string * expr))           (* T{...} *)
| EList (es : list expr)                         (* []T{...} *)
| EFunc (params : list string) (body : list stmt)
| EUnknown (src : string)
with stmt :=
| SAssign (lhs : list expr) (rhs : list expr)    (* also := ; lhs are lvalue expressions or EVar "_" *)
| SLookup2 (v ok : string) (m k : expr)          (* v, ok := m[k] *)
| SIf (init : list stmt) (c : expr) (th el : list stmt)
| SRange (k v : string) (e : expr) (body : list stmt)
| SFor (init : list stmt) (c : expr) (post : list stmt) (body : list stmt)
| SReturn (es : list expr)
| SContinue | SBreak
| SExpr (e : expr)
| SUnknown (src : string).

Record func := { fn_params : list string; fn_body : list stmt }.
Definition program := list (string * func).

(* ------------------------------------------------------------------ values and state *)
Inductive val :=
| VInt (z : Z) | VStr (s : string) | VBool (b : bool) | VNil
| VPtr (l : nat)
| VRec (fs : list (string * val))
| VList (vs : list val)
| VMap (kvs : list (val * val))
| VClos (params : list string) (body : list stmt) (env : list (string * val))
| VTup (vs : list val).

Definition env := list (string * val).
Record state := { st_env : env; st_heap : list val }.

Inductive signal := Normal | Ret (v : val) | Brk | Cont.

Fixpoint lookup (x : string) (e : env) : option val :=
  match e with
  | [] => None
  | (y, v) :: r => if String.eqb x y then Some v else lookup x r
  end.
Fixpoint update (x : string) (v : val) (e : env) : env :=
  match e with
  | [] => [(x, v)]
  | (y, w) :: r => if String.eqb x y then (x, v) :: r else (y, w) :: update x v r
  end.
Fixpoint set_nth (n : nat) (v : val) (l : list val) : list val :=
  match l, n with
  | [], _ => []
  | _ :: r, O => v :: r
  | x :: r, S k => x :: set_nth k v r
  end.
Definition alloc (v : val) (s : state) : val * state :=
  (VPtr (List.length (st_heap s)), {| st_env := st_env s; st_heap := (st_heap s ++ [v])%list |}).
Definition deref (s : state) (l : nat) : val := nth l (st_heap s) VNil.
Definition store (l : nat) (v : val) (s : state) : state :=
  {| st_env := st_env s; st_heap := set_nth l v (st_heap s) |}.
Definition setvar (x : string) (v : val) (s : state) : state :=
  if String.eqb x "_" then s else {| st_env := update x v (st_env s); st_heap := st_heap s |}.

(* int64 *)
Definition two63 : Z := 9223372036854775808.
Definition wrap64 (z : Z) : Z := ((z + two63) mod (2 * two63) - two63)%Z.

Fixpoint val_eqb (a b : val) : bool :=
  match a, b with
  | VInt x, VInt y => Z.eqb x y
  | VStr x, VStr y => String.eqb x y
  | VBool x, VBool y => Bool.eqb x y
  | VNil, VNil => true
  | VPtr x, VPtr y => Nat.eqb x y
  | VNil, VList [] | VList [], VNil => true
  | _, _ => false
  end.

Definition binop (op : string) (a b : val) : option val :=
  match a, b with
  | VInt x, VInt y =>
      if String.eqb op "+" then Some (VInt (wrap64 (x + y)))
      else if String.eqb op "-" then Some (VInt (wrap64 (x - y)))
      else if String.eqb op "*" then Some (VInt (wrap64 (x * y)))
      else if String.eqb op "<" then Some (VBool (x <? y)%Z)
      else if String.eqb op "<=" then Some (VBool (x <=? y)%Z)
      else if String.eqb op ">" then Some (VBool (y <? x)%Z)
      else if String.eqb op ">=" then Some (VBool (y <=? x)%Z)
      else if String.eqb op "==" then Some (VBool (x =? y)%Z)
      else if String.eqb op "!=" then Some (VBool (negb (x =? y)%Z))
      else None
  | VStr x, VStr y =>
      if String.eqb op "+" then Some (VStr (x ++ y))
      else if String.eqb op "==" then Some (VBool (String.eqb x y))
      else if String.eqb op "!=" then Some (VBool (negb (String.eqb x y)))
      else if String.eqb op "<" then Some (VBool (String.ltb x y))
      else if String.eqb op ">" then Some (VBool (String.ltb y x))
      else None
  | _, _ =>
      if String.eqb op "==" then Some (VBool (val_eqb a b))
      else if String.eqb op "!=" then Some (VBool (negb (val_eqb a b)))
      else None
  end.

Fixpoint assoc_get (k : val) (kvs : list (val * val)) : option val :=
  match kvs with
  | [] => None
  | (k', v) :: r => if val_eqb k' k then Some v else assoc_get k r
  end.
Fixpoint assoc_set (k v : val) (kvs : list (val * val)) : list (val * val) :=
  match kvs with
  | [] => [(k, v)]
  | (k', v') :: r => if val_eqb k' k then (k, v) :: r else (k', v') :: assoc_set k v r
  end.
Fixpoint rec_set (f : string) (v : val) (fs : list (string * val)) : list (string * val) :=
  match fs with
  | [] => [(f, v)]
  | (g, w) :: r => if String.eqb f g then (f, v) :: r else (g, w) :: rec_set f v r
  end.

Definition field_of (s : state) (v : val) (f : string) : option val :=
  match v with
  | VRec fs => lookup f fs
  | VPtr l => match deref s l with VRec fs => lookup f fs | _ => None end
  | _ => None
  end.
Definition len_of (s : state) (v : val) : option Z :=
  match v with
  | VList l => Some (Z.of_nat (List.length l))
  | VStr x => Some (Z.of_nat (String.length x))
  | VNil => Some 0%Z
  | VPtr l => match deref s l with
              | VMap kvs => Some (Z.of_nat (List.length kvs))
              | VList vs => Some (Z.of_nat (List.length vs))
              | _ => None
              end
  | _ => None
  end.
Definition as_list (v : val) : list val := match v with VList l => l | _ => [] end.

(* ---- string primitives of the tag parser *)
(* strings.Replace(s, old, new, 1) *)
Fixpoint replace_first (old new s : string) : string :=
  if negb (String.eqb old "") && prefix old s
  then new ++ substring (String.length old) (String.length s - String.length old) s
  else match s with
       | EmptyString => EmptyString
       | String c r => String c (replace_first old new r)
       end.
(* reflect.StructTag.Lookup (values without escape sequences: strconv.Unquote is the identity on
   the text between the quotes) *)
Fixpoint skip_blanks (s : string) : string :=
  match s with String " "%char r => skip_blanks r | _ => s end.
Definition name_char (c : ascii) : bool :=
  let n := nat_of_ascii c in
  Nat.ltb 32 n && negb (Nat.eqb n 58) && negb (Nat.eqb n 34) && negb (Nat.eqb n 127).
Fixpoint take_name (s : string) : string * string :=
  match s with
  | String c r => if name_char c then let (n, rest) := take_name r in (String c n, rest) else ("", s)
  | EmptyString => ("", "")
  end.
Fixpoint take_quoted (s : string) : option (string * string) :=
  match s with
  | EmptyString => None
  | String c r =>
      if Ascii.eqb c """"%char then Some ("", r)
      else match take_quoted r with
           | Some (v, rest) => Some (String c v, rest)
           | None => None
           end
  end.
Fixpoint tag_lookup (fuel : nat) (key tag : string) : option string :=
  match fuel with
  | O => None
  | S f =>
      let t := skip_blanks tag in
      match t with
      | EmptyString => None
      | _ =>
          let (name, r) := take_name t in
          match name, r with
          | EmptyString, _ => None
          | _, String c1 (String c2 r2) =>
              if Ascii.eqb c1 ":"%char && Ascii.eqb c2 """"%char
              then match take_quoted r2 with
                   | Some (v, r3) => if String.eqb name key then Some v else tag_lookup f key r3
                   | None => None
                   end
              else None
          | _, _ => None
          end
      end
  end.

(* generic insertion sort with a stateful "x goes before y" test *)
Section ISort.
  Context {S : Type}.
  Variable before : val -> val -> S -> option (bool * S).
  Fixpoint ins (x : val) (l : list val) (s : S) : option (list val * S) :=
    match l with
    | [] => Some ([x], s)
    | y :: r => match before x y s with
                | None => None
                | Some (true, s') => Some (x :: y :: r, s')
                | Some (false, s') => match ins x r s' with
                                      | Some (r', s'') => Some (y :: r', s'')
                                      | None => None
                                      end
                end
    end.
  (* stable: elements are inserted from the back *)
  Fixpoint isort_st (l : list val) (s : S) : option (list val * S) :=
    match l with
    | [] => Some ([], s)
    | x :: r => match isort_st r s with
                | Some (r', s') => ins x r' s'
                | None => None
                end
    end.
End ISort.

(* ------------------------------------------------------------------ interpreter *)
Section Run.
  Variable prog : program.
  Variable itoa_z : Z -> string.

  Fixpoint find_fn (f : string) (p : program) : option func :=
    match p with
    | [] => None
    | (g, d) :: r => if String.eqb f g then Some d else find_fn f r
    end.

  Fixpoint bind (ps : list string) (vs : list val) : env :=
    match ps, vs with
    | p :: ps', v :: vs' => (p, v) :: bind ps' vs'
    | _, _ => []
    end.

  Definition bool_of (v : val) : option bool := match v with VBool b => Some b | _ => None end.

  (* fuel = nesting depth *)
  Fixpoint eval (fuel : nat) (e : expr) (s : state) {struct fuel} : option (val * state) :=
    match fuel with
    | O => None
    | S f =>
      let evs := fix evs (es : list expr) (s : state) : option (list val * state) :=
        match es with
        | [] => Some ([], s)
        | e :: r => match eval f e s with
                    | Some (v, s1) => match evs r s1 with
                                      | Some (vs, s2) => Some (v :: vs, s2)
                                      | None => None
                                      end
                    | None => None
                    end
        end in
      let efs := fix efs (fs : list (string * expr)) (s : state) : option (list (string * val) * state) :=
        match fs with
        | [] => Some ([], s)
        | (n, e) :: r => match eval f e s with
                         | Some (v, s1) => match efs r s1 with
                                           | Some (vs, s2) => Some ((n, v) :: vs, s2)
                                           | None => None
                                           end
                         | None => None
                         end
        end in
      (* call a function value / named function with evaluated arguments: fresh env, shared heap *)
      let call_body := fun (params : list string) (body : list stmt) (cenv : env) (vs : list val) (s : state) =>
        let caller := st_env s in
        match exec_list f body {| st_env := (bind params vs ++ cenv)%list; st_heap := st_heap s |} with
        | Some (Ret v, s') => Some (v, {| st_env := caller; st_heap := st_heap s' |})
        | Some (_, s') => Some (VNil, {| st_env := caller; st_heap := st_heap s' |})
        | None => None
        end in
      let call_val := fun (fv : val) (vs : list val) (s : state) =>
        match fv with
        | VClos ps body cenv => call_body ps body cenv vs s
        | _ => None
        end in
      match e with
      | EInt z => Some (VInt z, s)
      | EStr x => Some (VStr x, s)
      | EBool b => Some (VBool b, s)
      | ENil => Some (VNil, s)
      | EVar x => match lookup x (st_env s) with Some v => Some (v, s) | None => None end
      | EField e1 fld =>
          match eval f e1 s with
          | Some (v, s1) => match field_of s1 v fld with Some w => Some (w, s1) | None => None end
          | None => None
          end
      | EIndex e1 i =>
          match eval f e1 s with
          | Some (v, s1) =>
              match eval f i s1 with
              | Some (iv, s2) =>
                  match v, iv with
                  | VList l, VInt z => match nth_error l (Z.to_nat z) with
                                       | Some w => Some (w, s2) | None => None end
                  | VPtr p, _ => match deref s2 p with
                                 | VMap kvs => Some (match assoc_get iv kvs with Some w => w | None => VNil end, s2)
                                 | _ => None
                                 end
                  | _, _ => None
                  end
              | None => None
              end
          | None => None
          end
      | EBin op a b =>
          if String.eqb op "&&" then
            match eval f a s with
            | Some (VBool false, s1) => Some (VBool false, s1)
            | Some (VBool true, s1) => eval f b s1
            | _ => None
            end
          else if String.eqb op "||" then
            match eval f a s with
            | Some (VBool true, s1) => Some (VBool true, s1)
            | Some (VBool false, s1) => eval f b s1
            | _ => None
            end
          else
            match eval f a s with
            | Some (va, s1) => match eval f b s1 with
                               | Some (vb, s2) => match binop op va vb with
                                                  | Some r => Some (r, s2) | None => None end
                               | None => None
                               end
            | None => None
            end
      | ENot e1 => match eval f e1 s with
                   | Some (VBool b, s1) => Some (VBool (negb b), s1)
                   | _ => None
                   end
      | ENew fs => match efs fs s with
                   | Some (vs, s1) => Some (alloc (VRec vs) s1)
                   | None => None
                   end
      | ERec fs => match efs fs s with
                   | Some (vs, s1) => Some (VRec vs, s1)
                   | None => None
                   end
      | EList es => match evs es s with
                    | Some (vs, s1) => Some (VList vs, s1)
                    | None => None
                    end
      | EFunc ps body => Some (VClos ps body (st_env s), s)
      | EUnknown _ => None
      | ECallV fe args =>
          match eval f fe s with
          | Some (fv, s1) => match evs args s1 with
                             | Some (vs, s2) => call_val fv vs s2
                             | None => None
                             end
          | None => None
          end
      | ECall name args =>
          match evs args s with
          | None => None
          | Some (vs, s1) =>
              (* primitives first *)
              if String.eqb name "len" then
                match vs with [v] => match len_of s1 v with Some z => Some (VInt z, s1) | None => None end
                            | _ => None end
              else if String.eqb name "append" then
                match vs with v :: more => Some (VList (as_list v ++ more)%list, s1) | _ => None end
              else if String.eqb name "append..." then
                match vs with [v; w] => Some (VList (as_list v ++ as_list w)%list, s1) | _ => None end
              else if String.eqb name "make.map" then Some (alloc (VMap []) s1)
              else if String.eqb name "make.slice" then Some (VList [], s1)
              else if String.eqb name "set.Make" then Some (alloc (VList vs) s1)
              else if String.eqb name "set.Add" then
                (* Add(items...): true iff some item was new *)
                match vs with
                | VPtr p :: items =>
                    let cur := as_list (deref s1 p) in
                    let isnew := existsb (fun x => negb (existsb (val_eqb x) cur)) items in
                    Some (VBool isnew, store p (VList (cur ++ filter (fun x => negb (existsb (val_eqb x) cur)) items)%list) s1)
                | _ => None
                end
              else if String.eqb name "errors.New" then
                match vs with [m] => Some (VRec [("error", m)], s1) | _ => None end
              else if String.eqb name "strings.HasPrefix" then
                match vs with [VStr a; VStr b] => Some (VBool (prefix b a), s1) | _ => None end
              else if String.eqb name "strings.TrimPrefix" then
                match vs with
                | [VStr a; VStr b] =>
                    Some (VStr (if prefix b a then substring (String.length b) (String.length a - String.length b) a else a), s1)
                | _ => None
                end
              else if String.eqb name "strconv.Itoa" then
                match vs with [VInt z] => Some (VStr (itoa_z z), s1) | _ => None end
              else if String.eqb name "reflect.Lookup" then
                match vs with
                | [VStr tag; VStr key] =>
                    match tag_lookup (S (String.length tag)) key tag with
                    | Some v => Some (VTup [VStr v; VBool true], s1)
                    | None => Some (VTup [VStr ""; VBool false], s1)
                    end
                | _ => None
                end
              else if String.eqb name "strings.ReplaceFirst" then
                match vs with [VStr a; VStr old; VStr new] => Some (VStr (replace_first old new a), s1) | _ => None end
              else if String.eqb name "strings.SplitComma" then
                match vs with [VStr a] => Some (VList (map VStr (split_comma a)), s1) | _ => None end
              else if String.eqb name "strconv.Quote" then
                match vs with [VStr a] => Some (VStr (String """"%char a ++ String """"%char ""), s1) | _ => None end
              else if String.eqb name "strconv.Atoi" then
                match vs with
                | [VStr a] =>
                    match atoi a with
                    | Some z => if (Z.leb (- two63) z && Z.ltb z two63)%bool
                                then Some (VTup [VInt z; VNil], s1)
                                else Some (VTup [VInt 0; VRec [("error", VStr "out of range")]], s1)
                    | None => Some (VTup [VInt 0; VRec [("error", VStr "syntax")]], s1)
                    end
                | _ => None
                end
              else if String.eqb name "prim.compare" then
                match vs with
                | [VInt a; VInt b] => Some (VInt (if (a <? b)%Z then (-1) else if (a =? b)%Z then 0 else 1)%Z, s1)
                | [VStr a; VStr b] => Some (VInt (if String.ltb a b then (-1) else if String.eqb a b then 0 else 1)%Z, s1)
                | _ => None
                end
              else if String.eqb name "slices.Clone" then
                match vs with [v] => Some (v, s1) | _ => None end
              else if String.eqb name "sort.byLess" then
                (* sort.Sort(x) with x of a type whose Less is function `lessfn`: vs = [x; VStr lessfn] *)
                match vs with
                | [v; VStr lessfn] =>
                    match find_fn lessfn prog with
                    | Some d =>
                        let before := fun (x y : val) (s : state) =>
                          match call_body (fn_params d) (fn_body d) [] [VList [x; y]; VInt 0; VInt 1] s with
                          | Some (VBool b, s') => Some (b, s')
                          | _ => None
                          end in
                        match isort_st before (as_list v) s1 with
                        | Some (l, s2) => Some (VList l, s2)
                        | None => None
                        end
                    | None => None
                    end
                | _ => None
                end
              else if String.eqb name "sort.byCmp" then
                (* slices.SortFunc(x, cmp): x goes before y iff cmp(x, y) < 0 *)
                match vs with
                | [v; fv] =>
                    let before := fun (x y : val) (s : state) =>
                      match call_val fv [x; y] s with
                      | Some (VInt c, s') => Some ((c <? 0)%Z, s')
                      | _ => None
                      end in
                    match isort_st before (as_list v) s1 with
                    | Some (l, s2) => Some (VList l, s2)
                    | None => None
                    end
                | _ => None
                end
              else
                match find_fn name prog with
                | Some d => call_body (fn_params d) (fn_body d) [] vs s1
                | None => None
                end
          end
      end
    end
  with exec (fuel : nat) (st : stmt) (s : state) {struct fuel} : option (signal * state) :=
    match fuel with
    | O => None
    | S f =>
      (* assignment to an lvalue expression *)
      let assign := fun (lv : expr) (v : val) (s : state) =>
        match lv with
        | EVar x => Some (setvar x v s)
        | EField base fld =>
            match eval f base s with
            | Some (VPtr p, s1) =>
                match deref s1 p with
                | VRec fs => Some (store p (VRec (rec_set fld v fs)) s1)
                | _ => None
                end
            | Some (VRec fs, s1) =>
                match base with
                | EVar x => Some (setvar x (VRec (rec_set fld v fs)) s1)
                | _ => None
                end
            | _ => None
            end
        | EIndex base i =>
            match eval f base s with
            | Some (VPtr p, s1) =>
                match eval f i s1 with
                | Some (k, s2) => match deref s2 p with
                                  | VMap kvs => Some (store p (VMap (assoc_set k v kvs)) s2)
                                  | _ => None
                                  end
                | None => None
                end
            | Some (VList l, s1) =>
                match eval f i s1, base with
                | Some (VInt z, s2), EVar x => Some (setvar x (VList (set_nth (Z.to_nat z) v l)) s2)
                | _, _ => None
                end
            | _ => None
            end
        | _ => None
        end in
      let assign_all := fix go (lvs : list expr) (vs : list val) (s : state) : option state :=
        match lvs, vs with
        | [], [] => Some s
        | lv :: lr, v :: vr => match assign lv v s with
                               | Some s1 => go lr vr s1
                               | None => None
                               end
        | _, _ => None
        end in
      let evs := fix evs (es : list expr) (s : state) : option (list val * state) :=
        match es with
        | [] => Some ([], s)
        | e :: r => match eval f e s with
                    | Some (v, s1) => match evs r s1 with
                                      | Some (vs, s2) => Some (v :: vs, s2)
                                      | None => None
                                      end
                    | None => None
                    end
        end in
      match st with
      | SAssign lhs rhs =>
          match evs rhs s with
          | Some (vs, s1) =>
              let vs' := match vs, lhs with
                         | [VTup ts], _ :: _ :: _ => ts      (* a, b := f() *)
                         | _, _ => vs
                         end in
              match assign_all lhs vs' s1 with
              | Some s2 => Some (Normal, s2)
              | None => None
              end
          | None => None
          end
      | SLookup2 v ok m k =>
          match eval f m s with
          | Some (VPtr p, s1) =>
              match eval f k s1 with
              | Some (kv, s2) =>
                  match deref s2 p with
                  | VMap kvs =>
                      match assoc_get kv kvs with
                      | Some w => Some (Normal, setvar ok (VBool true) (setvar v w s2))
                      | None => Some (Normal, setvar ok (VBool false) (setvar v VNil s2))
                      end
                  | _ => None
                  end
              | None => None
              end
          | _ => None
          end
      | SIf init c th el =>
          match exec_list f init s with
          | Some (Normal, s1) =>
              match eval f c s1 with
              | Some (VBool true, s2) => exec_list f th s2
              | Some (VBool false, s2) => exec_list f el s2
              | _ => None
              end
          | other => other
          end
      | SRange k v e body =>
          match eval f e s with
          | Some (coll, s1) =>
              let items : option (list (val * val)) :=
                match coll with
                | VList l => Some (combine (map (fun n => VInt (Z.of_nat n)) (seq 0 (List.length l))) l)
                | VNil => Some []
                | VPtr p => match deref s1 p with
                            | VMap kvs => Some kvs
                            | VList l => Some (map (fun x => (x, VNil)) l)
                            | _ => None
                            end
                | VInt n => Some (map (fun i => (VInt (Z.of_nat i), VNil)) (seq 0 (Z.to_nat n)))
                | _ => None
                end in
              match items with
              | None => None
              | Some its =>
                  (fix loop (its : list (val * val)) (s : state) : option (signal * state) :=
                     match its with
                     | [] => Some (Normal, s)
                     | (kv, vv) :: r =>
                         match exec_list f body (setvar v vv (setvar k kv s)) with
                         | Some (Normal, s') | Some (Cont, s') => loop r s'
                         | Some (Brk, s') => Some (Normal, s')
                         | other => other
                         end
                     end) its s1
              end
          | None => None
          end
      | SFor init c post body =>
          match exec_list f init s with
          | Some (Normal, s1) =>
              (* the loop itself unrolls on the fuel *)
              (fix loop (n : nat) (s : state) : option (signal * state) :=
                 match n with
                 | O => None
                 | S n' =>
                     match eval f c s with
                     | Some (VBool false, s2) => Some (Normal, s2)
                     | Some (VBool true, s2) =>
                         match exec_list f body s2 with
                         | Some (Normal, s3) | Some (Cont, s3) =>
                             match exec_list f post s3 with
                             | Some (Normal, s4) => loop n' s4
                             | other => other
                             end
                         | Some (Brk, s3) => Some (Normal, s3)
                         | other => other
                         end
                     | _ => None
                     end
                 end) 64%nat s1
          | other => other
          end
      | SReturn es =>
          match evs es s with
          | Some ([v], s1) => Some (Ret v, s1)
          | Some ([], s1) => Some (Ret VNil, s1)
          | Some (vs, s1) => Some (Ret (VTup vs), s1)
          | None => None
          end
      | SContinue => Some (Cont, s)
      | SBreak => Some (Brk, s)
      | SExpr e => match eval f e s with Some (_, s1) => Some (Normal, s1) | None => None end
      | SUnknown _ => None
      end
    end
  with exec_list (fuel : nat) (ss : list stmt) (s : state) {struct fuel} : option (signal * state) :=
    match fuel with
    | O => None
    | S f =>
        (fix go (ss : list stmt) (s : state) : option (signal * state) :=
           match ss with
           | [] => Some (Normal, s)
           | st :: r => match exec f st s with
                        | Some (Normal, s1) => go r s1
                        | other => other
                        end
           end) ss s
    end.
End Run.

(* ------------------------------------------------------------------ running the generator *)
(* the outcome of createSorterDesc + PriorityTree + CompareLine.String on a definition: an error,
   or per sorter (name as written, in the map's insertion order) the lines of its chain as
   (IsBool, Accessor, rendered comparison) *)
Inductive gres := GErr | GOk (sorters : list (string * list (bool * string * string))) | GStuck.

Section Drive.
  Variable prog : program.
  Definition fuel0 : nat := 200.

  (* the input struct: every field record carries Name(), Type() (whose String() is "bool" for a
     plain bool) and its parsed tags as pointers to SortFieldDesc records on the heap *)
  Definition sfd_rec (f : fieldT) (t : tagT) : val :=
    VRec [("FieldName", VStr (fd_name f));
          ("FieldType", VRec [("String()", VStr (if fd_isbool f then "bool" else "farm.T"))]);
          ("CustomAccessor", VStr (tg_acc t)); ("SortTypeName", VStr (tg_sorter t));
          ("Priority", VInt (tg_prio t))].
  Fixpoint build_fields (fs : list fieldT) (heap : list val) : list val * list val :=
    match fs with
    | [] => ([], heap)
    | f :: r =>
        let base := List.length heap in
        let recs := map (sfd_rec f) (fd_tags f) in
        let ptrs := map (fun i => VPtr (base + i)) (seq 0 (List.length recs)) in
        let frec := VRec [("Name()", VStr (fd_name f));
                          ("Type()", VRec [("String()", VStr (if fd_isbool f then "bool" else "farm.T"))]);
                          ("Sfds", VList ptrs)] in
        let (rest, heap') := build_fields r (heap ++ recs)%list in
        (frec :: rest, heap')
    end.
  Definition input_of (fs : list fieldT) : val * list val :=
    let (frecs, heap) := build_fields fs [] in
    (VRec [("Type()", VRec [("Underlying()",
             VRec [("NumFields()", VInt (Z.of_nat (List.length fs))); ("Field", VList frecs);
                   ("Tag", VList (map (fun _ => VStr "") fs))])])], heap).

  Definition call (f : string) (args : list val) (s : state) : option (val * state) :=
    eval prog itoa fuel0 (ECall f (map (fun i => EVar (String (ascii_of_nat (97 + i)) "")) (seq 0 (List.length args))))
         {| st_env := combine (map (fun i => String (ascii_of_nat (97 + i)) "") (seq 0 (List.length args))) args;
            st_heap := st_heap s |}.

  Fixpoint chain_of (n : nat) (p : val) (s : state) : option (list (bool * string * string)) :=
    match n with
    | O => None
    | S n' =>
        match p with
        | VNil => Some []
        | VPtr l =>
            match deref s l with
            | VRec fs =>
                match lookup "IsBool" fs, lookup "Accessor" fs, lookup "Nest" fs with
                | Some (VBool b), Some (VStr a), Some nest =>
                    match call "CompareLine.String" [VRec fs] s with
                    | Some (VStr txt, s') =>
                        match chain_of n' nest s' with
                        | Some r => Some ((b, a, txt) :: r)
                        | None => None
                        end
                    | _ => None
                    end
                | _, _, _ => None
                end
            | _ => None
            end
        | _ => None
        end
    end.

  Fixpoint trees (descs : list val) (s : state) : option (list (string * list (bool * string * string))) :=
    match descs with
    | [] => Some []
    | VPtr l :: r =>
        match deref s l with
        | VRec fs =>
            match lookup "sortTypeName" fs, call "SorterDesc.PriorityTree" [VRec fs] s with
            | Some (VStr name), Some (root, s') =>
                match chain_of 64 root s', trees r s' with
                | Some c, Some rest => Some ((name, c) :: rest)
                | _, _ => None
                end
            | _, _ => None
            end
        | _ => None
        end
    | _ => None
    end.

  Definition run_generator (ty : string) (fs : list fieldT) : gres :=
    let (obj, heap) := input_of fs in
    match call "createSorterDesc" [obj; VStr ty] {| st_env := []; st_heap := heap |} with
    | Some (VTup [res; err], s) =>
        if val_eqb err VNil
        then match trees (as_list res) s with Some t => GOk t | None => GStuck end
        else GErr
    | _ => GStuck
    end.
End Drive.

(* ---- the tag parser: sortFieldDescFromTag on the raw struct tag of one field *)
Inductive tres := TErr | TOk (tags : list (string * Z * string)) | TStuck.
Definition raw_tag_text (tl : struct_tag) : string :=
  String.concat " " (map (fun kv => fst kv ++ String ":"%char (String """"%char (snd kv ++ String """"%char ""))) tl).
Section DriveTags.
  Variable prog : program.
  Fixpoint read_sfds (ps : list val) (s : state) : option (list (string * Z * string)) :=
    match ps with
    | [] => Some []
    | VPtr l :: r =>
        match deref s l with
        | VRec fs =>
            match lookup "SortTypeName" fs, lookup "Priority" fs, lookup "CustomAccessor" fs, read_sfds r s with
            | Some (VStr n), Some (VInt p), Some (VStr a), Some rest => Some ((n, p, a) :: rest)
            | _, _, _, _ => None
            end
        | _ => None
        end
    | _ => None
    end.
  Definition run_tagparser (tl : struct_tag) : tres :=
    let fld := VRec [("Name()", VStr "F"); ("Type()", VRec [("String()", VStr "int")])] in
    match call prog "sortFieldDescFromTag" [fld; VStr (raw_tag_text tl)] {| st_env := []; st_heap := [] |} with
    | Some (VTup [res; err], s) =>
        if val_eqb err VNil
        then match read_sfds (as_list res) s with Some t => TOk t | None => TStuck end
        else TErr
    | _ => TStuck
    end.
End DriveTags.
(* the model: GSortTagModel; Go's Atoi additionally refuses what does not fit an int64 *)
Definition model_tags (tl : struct_tag) : tres :=
  match parse_all (gsort_options tl) with
  | Some ts => if forallb (fun t => (Z.leb (- two63) (tg_prio t) && Z.ltb (tg_prio t) two63)%bool) ts
               then TOk (map (fun t => (tg_sorter t, tg_prio t, tg_acc t)) ts) else TErr
  | None => TErr
  end.
Fixpoint triples_eqb (a b : list (string * Z * string)) : bool :=
  match a, b with
  | [], [] => true
  | (n1, p1, a1) :: r1, (n2, p2, a2) :: r2 =>
      String.eqb n1 n2 && Z.eqb p1 p2 && String.eqb a1 a2 && triples_eqb r1 r2
  | _, _ => false
  end.
Definition tres_eqb (a b : tres) : bool :=
  match a, b with
  | TErr, TErr => true
  | TOk x, TOk y => triples_eqb x y
  | _, _ => false
  end.
(* struct tags: every list of 0..3 pairs over these keys and option texts *)
Definition tag_values : list string :=
  ["A,1"; "B,2,String()"; "*C"; "A,-3"; "B,+7"; "C,007"; "A,one"; "B,"; "C,1,x,y"; "A,1 "; ""; "A,,String()";
   "B,9223372036854775807"; "B,9223372036854775808"; "A,-9223372036854775808"; "A,5"; "B"].
Definition tag_keys : list string := ["gsort"; "gsort"; "gsort"; "json"; "xgsort"].
Definition tag_family : list struct_tag :=
  let pairs := flat_map (fun k => map (fun v => (k, v)) tag_values) tag_keys in
  ([] :: map (fun p => [p]) pairs
   ++ flat_map (fun p => map (fun q => [p; q]) (firstn 40 pairs)) (firstn 60 pairs)
   ++ flat_map (fun p => map (fun q => [("gsort", "A,1,String()"); p; q]) (firstn 12 pairs)) (firstn 30 pairs))%list.
Definition tags_agree_on (prog : program) (tl : struct_tag) : bool :=
  tres_eqb (run_tagparser prog tl) (model_tags tl).
Definition tags_agree (prog : program) : bool := forallb (tags_agree_on prog) tag_family.

(* what the Coq model of the generator says *)
Definition model_result (ty : string) (fs : list fieldT) : gres :=
  match create ty fs with
  | None => GErr
  | Some ds => GOk (map (fun d => (sd_sorter d,
                                   map (fun c => (cl_isbool c, cl_acc c, cl_string c)) (priority_tree d))) ds)
  end.

Fixpoint lines_eqb (a b : list (bool * string * string)) : bool :=
  match a, b with
  | [], [] => true
  | (b1, a1, t1) :: r1, (b2, a2, t2) :: r2 =>
      Bool.eqb b1 b2 && String.eqb a1 a2 && String.eqb t1 t2 && lines_eqb r1 r2
  | _, _ => false
  end.
Fixpoint sorters_eqb (a b : list (string * list (bool * string * string))) : bool :=
  match a, b with
  | [], [] => true
  | (n1, l1) :: r1, (n2, l2) :: r2 => String.eqb n1 n2 && lines_eqb l1 l2 && sorters_eqb r1 r2
  | _, _ => false
  end.
Definition gres_eqb (a b : gres) : bool :=
  match a, b with
  | GErr, GErr => true
  | GOk x, GOk y => sorters_eqb x y
  | _, _ => false
  end.
Definition go_agrees_on (prog : program) (fs : list fieldT) : bool :=
  gres_eqb (run_generator prog "T" fs) (model_result "T" fs).

(* ------------------------------------------------------------------ the family of definitions *)
Definition mk_tag (s : string) (p : Z) (a : string) : tagT := {| tg_sorter := s; tg_prio := p; tg_acc := a |}.
Definition mk_field (n : string) (b : bool) (ts : list tagT) : fieldT :=
  {| fd_name := n; fd_isbool := b; fd_tags := ts |}.
Definition imax : Z := 9223372036854775807.
Definition imin : Z := (-9223372036854775808)%Z.

Definition go_corpus : list (list fieldT) := [
  (* one key; bool last; accessor *)
  [mk_field "Flag" true [mk_tag "ByFlag" 1 ""]];
  [mk_field "Name" false [mk_tag "By" 1 ""; mk_tag "*PBy" 2 ""]; mk_field "Flag" true [mk_tag "By" 2 ""; mk_tag "*PBy" 1 ""]];
  [mk_field "Cat" false [mk_tag "ByCat" 1 "String()"; mk_tag "Plain" 1 ""]; mk_field "N" false [mk_tag "ByCat" (-3) ""]];
  (* equal priorities in one sorter: refused *)
  [mk_field "A" false [mk_tag "S" 1 ""]; mk_field "B" false [mk_tag "S" 1 ""]];
  (* the same tag pasted twice onto one field: two keys with one priority, refused *)
  [mk_field "A" false [mk_tag "S" 1 ""; mk_tag "S" 1 ""]];
  (* S next to *S: refused *)
  [mk_field "A" false [mk_tag "*S" 1 ""]; mk_field "B" false [mk_tag "S" 1 ""]];
  (* priorities at the ends of int64, more than 2^63 apart *)
  [mk_field "X" false [mk_tag "By" imax ""; mk_tag "E" imin ""]; mk_field "Y" false [mk_tag "By" (-2) ""; mk_tag "E" imax ""];
   mk_field "Z" true [mk_tag "By" 0 ""; mk_tag "E" 1 ""]];
  [mk_field "X" false [mk_tag "By" imin ""]; mk_field "Y" false [mk_tag "By" 1 ""]; mk_field "Z" false [mk_tag "By" imax ""]];
  [mk_field "X" false [mk_tag "By" 4611686018427387904 ""]; mk_field "Y" false [mk_tag "By" (-4611686018427387905) ""]];
  (* names and numbers that run into one another when written side by side *)
  [mk_field "Grade1" false [mk_tag "By" 2 ""]; mk_field "Grade" false [mk_tag "By" 12 ""]];
  [mk_field "AB" false [mk_tag "By" 1 ""]; mk_field "B" false [mk_tag "ByA" 1 ""]];
  [mk_field "X" false [mk_tag "By1" 2 ""]; mk_field "Y" false [mk_tag "By" 12 ""]; mk_field "1X" false [mk_tag "By" 2 ""]];
  [mk_field "A" false [mk_tag "By" (-1) ""; mk_tag "By-" 1 ""]; mk_field "A-" false [mk_tag "By" 1 ""]];
  (* no tag at all; an empty sorter name *)
  [mk_field "A" false []];
  [mk_field "A" false [mk_tag "" 0 ""]]
].

(* a pseudo-random family over pools of confusable names and extreme priorities *)
Definition lcg (x : Z) : Z := ((x * 6364136223846793005 + 1442695040888963407) mod 18446744073709551616)%Z.
Definition pick {A} (d : A) (l : list A) (x : Z) : A := nth (Z.to_nat ((x / 65536) mod Z.of_nat (List.length l))) l d.
Definition name_pool : list string := ["A"; "AB"; "B"; "BA"; "Grade"; "Grade1"; "Grade12"; "G"; "G1"; "b1"].
Definition sorter_pool : list string := ["By"; "ByA"; "ByAB"; "*By"; "By1"; "*ByG"; "S"; "*S"].
Definition prio_pool : list Z :=
  [0; 1; 2; 11; 12; 21; 112; (-1); (-2); (-12); imax; imin; (imax - 1); (imin + 1);
   4611686018427387904; (-4611686018427387904); 2147483648]%Z.
Fixpoint gen_tags (n : nat) (x : Z) : list tagT * Z :=
  match n with
  | O => ([], x)
  | S n' =>
      let x1 := lcg x in let x2 := lcg x1 in let x3 := lcg x2 in
      let t := mk_tag (pick "By" sorter_pool x1) (pick 0%Z prio_pool x2)
                      (if ((x3 / 65536) mod 3 =? 0)%Z then "String()" else "") in
      let (r, x') := gen_tags n' x3 in (t :: r, x')
  end.
Fixpoint gen_fields (n : nat) (k : nat) (x : Z) : list fieldT * Z :=
  match n with
  | O => ([], x)
  | S n' =>
      let x1 := lcg x in let x2 := lcg x1 in
      let (ts, x3) := gen_tags (Z.to_nat ((x1 / 65536) mod 3)) x2 in
      let f := mk_field (nth k name_pool "Q" ++ (if ((x2 / 65536) mod 4 =? 0)%Z then "1" else ""))
                        (((x2 / 1048576) mod 4 =? 0)%Z) ts in
      let (r, x') := gen_fields n' (S k) x3 in (f :: r, x')
  end.
Fixpoint gen_defs (n : nat) (x : Z) : list (list fieldT) :=
  match n with
  | O => []
  | S n' =>
      let x1 := lcg x in
      let (fs, x2) := gen_fields (S (Z.to_nat ((x1 / 65536) mod 4))) (Z.to_nat ((x1 / 1048576) mod 5)) x1 in
      fs :: gen_defs n' x2
  end.
Definition go_family : list (list fieldT) := (go_corpus ++ gen_defs 400 20261001)%list.

Definition go_agrees (prog : program) : bool := forallb (go_agrees_on prog) go_family.
(* how many definitions of the family the model accepts (so that the comparison is not all errors) *)
Definition go_family_accepted : nat :=
  List.length (filter (fun fs => match create "T" fs with Some (_ :: _) => true | _ => false end) go_family).
