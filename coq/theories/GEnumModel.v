(* GEnumModel.v — executable mirror of the genum code generator and of the code it emits.
   No proofs here.

   Two layers.

   GENERATOR LAYER   gen : defn -> opts -> outcome tables
   Go source (current tree, with the repairs of fixes/C04-.., C05-.., C12-..)      model
   -----------------------------------------------------------------------  ----------------------
   generate.go  Parse: constant.Uint64Val(v.Val()) -> Value{Value,Signed}    to_gvalue  (u64 = z mod 2^64,
                                                                              Signed = z < 0: the wrap is written out)
   values.go    Value.Less (signed/unsigned compare, then name)              g_less
   generate.go  sort.Sort(values)  (unstable sort)                           sort_values = isort g_less
                                                                              (any sorted permutation equals it:
                                                                               GEnumProofs.sort_values_unique)
   values.go    ValueDeduplicatedSet (addedDeprecated reset on replacement)  dedup          (pinned code: dedup_orig)
   values.go    getPrimary                                                   get_primary
   generate.go  validateCaseInsensitiveNames (-caseInsensitive)             gen (GenErr on names differing only by case)
   generate.go  extractTraitDescs (names/types from the lowest value's       first_columns, validate_counts
                line, count validation)
   generate.go  per-line TraitInstances, sorted like the values              column_rows
   generate.go  processDuplicates (non-primary rows of every duplicated      drop_dup_rows  (pinned code: only for
                value are dropped)                                            "unsafe" groups, drop_dup_rows_orig)
   generate.go  validateParsableTraits (one owner per parsable constant)     validate_parsable
   traits.go    TraitDescs sort by name; extractUnderlying                   sort_columns, extract_underlying
   enumTemplate.gotmpl  `gt (len $values) 15` -> slices.BinarySearch         t_binsearch
   traits.go ParsableValuesOf: Parse switch rows by owning value, each      case_consts    (pinned code: index $j,
                constant once                                                
                                                                              case_consts_orig / rows_in_range_orig)
   Go compiler  duplicate `case` constants / duplicate methods               build_ok

   BEHAVIOUR LAYER   sem_* : tables -> behaviour of the emitted code
   enumTemplate.gotmpl :25-29,:63   _TValues, Values()                        sem_values
   :47-60   IsValid (linear scan | slices.BinarySearch)                      sem_isvalid
   :69-75   StringValues                                                     sem_stringvalues
   :79-88   String (first matching case, else "Undefined<T>:%d")             sem_string
   :97-122  Parse<T> (first matching case over names and parsable trait      sem_parse
            constants; lower-cased fallback when CaseInsensitive)
   :91,:127 ParseString / ParseGeneric                                       sem_parse on a string
   :31-44   trait accessor (first matching case, else zero value)            sem_accessor
   :132-225 MarshalJSON/UnmarshalJSON                                        encode_json / decode_json
   :227-264 MarshalText/UnmarshalText                                        encode_text / decode_text
   :266-355 MarshalYAML/UnmarshalYAML (strconv guards `err == nil`,          encode_yaml / decode_yaml
            lossless-conversion check of the integer fallbacks)              (before it: decode_*_norc)
                                                                              (pinned code: decode_yaml_orig)
   Library behaviour (encoding/json, yaml.v3, strconv, unmarshalers of trait types) enters the
   decoders only through per-document view records measured by the harness.                     *)
From Coq Require Import String Ascii ZArith List Bool.
From GT Require Import Base.GEnumStr.
From GT Require Import Base.GEnumSort.
Import ListNotations.
Local Open Scope string_scope.
Local Open Scope list_scope.
Local Open Scope Z_scope.

(* ------------------------------------------------------------------ definitions *)

(* underlying integer type of the enum *)
Record ety := { ty_name : string; ty_signed : bool; ty_bits : Z }.
Definition ty_min (t : ety) : Z := if ty_signed t then - 2 ^ (ty_bits t - 1) else 0.
Definition ty_max (t : ety) : Z := if ty_signed t then 2 ^ (ty_bits t - 1) - 1 else 2 ^ (ty_bits t) - 1.
Definition in_range (t : ety) (z : Z) : bool := (ty_min t <=? z) && (z <=? ty_max t).

(* Go interface values holding constants: dynamic type (an identifier of the type) and value *)
Inductive payload := PStr (s : string) | PInt (z : Z) | PBool (b : bool).
Record dyn := { dty : string; dval : payload }.
Definition payload_eqb (a b : payload) : bool :=
  match a, b with
  | PStr x, PStr y => String.eqb x y
  | PInt x, PInt y => Z.eqb x y
  | PBool x, PBool y => Bool.eqb x y
  | _, _ => false
  end.
(* == on interface values: identical dynamic types and equal values *)
Definition dyn_eqb (a b : dyn) : bool := String.eqb (dty a) (dty b) && payload_eqb (dval a) (dval b).
Definition DStr (s : string) : dyn := {| dty := "string"; dval := PStr s |}.

(* go/types basic kind of the underlying type of a trait type (oracle, per trait type) *)
Inductive bkind :=
| BUntypedInt | BInt | BInt8 | BInt16 | BInt32 | BInt64
| BUint | BUint8 | BUint16 | BUint32 | BUint64
| BUntypedRune | BUntypedString | BString | BBool | BUntypedBool | BNonBasic.

Record tyinfo := { ti_bkind : bkind; ti_json_own : bool; ti_yaml_own : bool; ti_text_own : bool }.

(* a trait cell on a constant's line: the name bound on the left (or "_"), the expression text
   (types.ExprString) and the constant value it denotes (with its default type when untyped) *)
Record cell := { cl_var : string; cl_expr : string; cl_val : dyn }.

Record const := { c_name : string; c_val : Z; c_dep : bool; c_cells : list cell }.

Record defn := { d_ty : ety; d_consts : list const; d_types : list (string * tyinfo) }.

Record opts := { o_json : bool; o_yaml : bool; o_text : bool; o_ci : bool; o_notraits : bool;
                 o_parsable : list string }.

(* ------------------------------------------------------------------ generator layer *)

Record gvalue := { g_name : string; g_u64 : Z; g_signed : bool; g_dep : bool;
                   g_z : Z;               (* what the identifier evaluates to in the emitted code *)
                   g_cells : list cell }.

Definition two64 : Z := 2 ^ 64.
Definition to_gvalue (c : const) : gvalue :=
  {| g_name := c_name c; g_u64 := c_val c mod two64; g_signed := c_val c <? 0; g_dep := c_dep c;
     g_z := c_val c; g_cells := c_cells c |}.

(* int64(v.Value) *)
Definition as_i64 (u : Z) : Z := if u <? 2 ^ 63 then u else u - two64.

Definition g_less (a b : gvalue) : bool :=
  if g_signed a || g_signed b then
    let v1 := as_i64 (g_u64 a) in
    let v2 := as_i64 (g_u64 b) in
    if v1 =? v2 then str_ltb (g_name a) (g_name b) else v1 <? v2
  else
    if g_u64 a =? g_u64 b then str_ltb (g_name a) (g_name b) else g_u64 a <? g_u64 b.

Definition sort_values (cs : list const) : list gvalue := isort g_less (map to_gvalue cs).

(* ValueDeduplicatedSet.  [res_rev] is the result slice reversed (its head is result[len-1]).
   [reset] = true is the repaired code (addedDeprecated = false after a replacement). *)
Fixpoint dedup_go (reset : bool) (s : list gvalue) (res_rev : list gvalue) (lastv : Z) (added : bool)
  : list gvalue :=
  match s with
  | [] => rev res_rev
  | c :: rest =>
      if negb (lastv =? g_u64 c) then dedup_go reset rest (c :: res_rev) (g_u64 c) (g_dep c)
      else if added && negb (g_dep c) then
             dedup_go reset rest (c :: tl res_rev) lastv (if reset then false else added)
           else dedup_go reset rest res_rev lastv added
  end.
Definition dedup_gen (reset : bool) (s : list gvalue) : list gvalue :=
  match s with
  | [] => []
  | [x] => [x]
  | x :: rest => dedup_go reset rest [x] (g_u64 x) (g_dep x)
  end.
Definition dedup := dedup_gen true.
Definition dedup_orig := dedup_gen false.      (* pinned code *)

(* getPrimary on a group of equal-valued constants (in sorted order): (primary, safe) *)
Fixpoint gp_loop (primary : gvalue) (rest : list gvalue) : gvalue * bool :=
  match rest with
  | [] => (primary, negb (g_dep primary))
  | v :: r =>
      if g_dep primary && negb (g_dep v) then gp_loop v r
      else if negb (g_dep primary) && negb (g_dep v) then (primary, false)
      else gp_loop primary r
  end.
Definition get_primary (s : list gvalue) : option (gvalue * bool) :=
  match s with
  | [] => None
  | [x] => Some (x, true)
  | x :: r => Some (gp_loop x r)
  end.

(* traits.go extractUnderlying: family of a trait type (floats are outside the modelled space) *)
Inductive tkind := KString | KInt64 | KUint64 | KUnknown.
Definition extract_underlying (b : bkind) : tkind :=
  match b with
  | BUntypedInt | BInt | BInt8 | BInt16 | BInt32 | BInt64 => KInt64
  | BUntypedRune => KInt64                       (* repaired code; pinned: unknown *)
  | BUint | BUint8 | BUint16 | BUint32 | BUint64 => KUint64
  | BString => KString
  | BUntypedString | BBool | BUntypedBool | BNonBasic => KUnknown
  end.
Definition extract_underlying_orig (b : bkind) : tkind :=
  match b with BUntypedRune => KUnknown | _ => extract_underlying b end.
Definition tkind_eqb (a b : tkind) : bool :=
  match a, b with
  | KString, KString | KInt64, KInt64 | KUint64, KUint64 | KUnknown, KUnknown => true
  | _, _ => false
  end.

(* integer conversion T(x) for a trait type of the given basic kind (two's complement wrap) *)
Definition wrap_to (signed : bool) (bits : Z) (x : Z) : Z :=
  let m := x mod 2 ^ bits in
  if signed && (2 ^ (bits - 1) <=? m) then m - 2 ^ bits else m.
Definition conv_int (b : bkind) (x : Z) : Z :=
  match b with
  | BUntypedInt | BInt | BInt64 => wrap_to true 64 x
  | BInt8 => wrap_to true 8 x | BInt16 => wrap_to true 16 x
  | BInt32 | BUntypedRune => wrap_to true 32 x
  | BUint | BUint64 => wrap_to false 64 x
  | BUint8 => wrap_to false 8 x | BUint16 => wrap_to false 16 x | BUint32 => wrap_to false 32 x
  | _ => x
  end.
Definition zero_payload (b : bkind) : payload :=
  match b with
  | BUntypedString | BString => PStr ""
  | BBool | BUntypedBool => PBool false
  | _ => PInt 0
  end.

Record row := { r_owner : gvalue; r_cell : cell;
                r_valstr : string }.  (* TraitInstance.value: ExactString on the first line, ExprString elsewhere *)
Record column := { col_name : string; col_type : string; col_info : tyinfo; col_parsable : bool;
                   col_rows : list row }.

Record tables := { t_ty : ety; t_opts : opts;
                   t_all : list gvalue;         (* Generate.Values[i]: all constants, sorted *)
                   t_dedup : list gvalue;       (* ValueDeduplicatedSet *)
                   t_binsearch : bool;          (* gt (len $values) 15 *)
                   t_cols : list column }.      (* Generate.Traits[i], sorted by name *)

Inductive outcome (T : Type) :=
| Built (t : T)      (* generation succeeds and the output compiles *)
| GenErr             (* the CLI exits with an error (validation or template execution) *)
| BuildErr           (* output written but rejected by the compiler *)
| Unsupported.       (* definition shape outside the modelled space *)
Arguments Built {T} t. Arguments GenErr {T}. Arguments BuildErr {T}. Arguments Unsupported {T}.

Fixpoint lookup {V} (k : string) (l : list (string * V)) : option V :=
  match l with
  | [] => None
  | (k', v) :: r => if String.eqb k k' then Some v else lookup k r
  end.

Definition exact_string (p : payload) : string :=
  match p with
  | PStr s => quote s
  | PInt z => dec z
  | PBool true => "true"
  | PBool false => "false"
  end.

(* extractTraitDescs, first part: one column per trait cell of the lowest value's line *)
Fixpoint first_columns (d : defn) (o : opts) (first : gvalue) (cells : list cell) : outcome (list column) :=
  match cells with
  | [] => Built []
  | c :: rest =>
      if String.eqb (cl_var c) "_" then Unsupported          (* pkgScope.Lookup("_") fails: column skipped *)
      else
        let name := trim_underscore (cl_var c) in
        if String.eqb name "" || String.eqb name "_" then GenErr
        else match lookup (dty (cl_val c)) (d_types d) with
             | None => Unsupported
             | Some info =>
                 match first_columns d o first rest with
                 | Built cols =>
                     Built ({| col_name := name; col_type := dty (cl_val c); col_info := info;
                               col_parsable := str_mem name (o_parsable o);
                               col_rows := [ {| r_owner := first; r_cell := c;
                                                r_valstr := exact_string (dval (cl_val c)) |} ] |} :: cols)
                 | e => e
                 end
             end
  end.

(* extractTraitDescs, validation: a line with trait cells must have (or share its value with a
   line that has) exactly one cell per column *)
Definition count_found (vs : list gvalue) (ncols : nat) (u : Z) : bool :=
  existsb (fun v => (g_u64 v =? u) && Nat.eqb (length (g_cells v)) ncols) vs.
Definition validate_counts (vs : list gvalue) (ncols : nat) : bool :=
  forallb (fun v => count_found vs ncols (g_u64 v) || Nat.eqb (length (g_cells v)) 0) vs.

(* the rows appended to column j by the per-line loop (lines after the first, in sorted order) *)
Definition later_rows (rest : list gvalue) (j : nat) : list row :=
  flat_map (fun v => match nth_error (g_cells v) j with
                     | Some c => [ {| r_owner := v; r_cell := c; r_valstr := cl_expr c |} ]
                     | None => []
                     end) rest.
Fixpoint add_rows (rest : list gvalue) (j : nat) (cols : list column) : list column :=
  match cols with
  | [] => []
  | c :: cs =>
      {| col_name := col_name c; col_type := col_type c; col_info := col_info c;
         col_parsable := col_parsable c; col_rows := col_rows c ++ later_rows rest j |}
      :: add_rows rest (S j) cs
  end.

(* processDuplicates: rows of non-primary constants are dropped.
   [all_groups] = true is the repaired code; false the pinned code (only "unsafe" groups) *)
Definition group_of (vs : list gvalue) (u : Z) : list gvalue := filter (fun v => g_u64 v =? u) vs.
Definition keep_row (all_groups : bool) (vs : list gvalue) (r : row) : bool :=
  match get_primary (group_of vs (g_u64 (r_owner r))) with
  | None => true
  | Some (p, safe) =>
      if safe && negb all_groups then true
      else String.eqb (g_name (r_owner r)) (g_name p)
  end.
Definition drop_dup_rows_gen (all_groups : bool) (vs : list gvalue) (cols : list column) : list column :=
  map (fun c => {| col_name := col_name c; col_type := col_type c; col_info := col_info c;
                   col_parsable := col_parsable c;
                   col_rows := filter (keep_row all_groups vs) (col_rows c) |}) cols.
Definition drop_dup_rows := drop_dup_rows_gen true.
Definition drop_dup_rows_orig := drop_dup_rows_gen false.

(* validateParsableTraits: two parsable instances that are the same constant (identical default
   type, equal value) must belong to the same enum value (fix C12-parsable-uniqueness-by-constant;
   before it the value strings r_valstr were compared) *)
Definition parsable_instances (cols : list column) : list (dyn * string) :=
  flat_map (fun c => if col_parsable c
                     then map (fun r => (cl_val (r_cell r), g_name (r_owner r))) (col_rows c)
                     else []) cols.
Fixpoint validate_pairs (l : list (dyn * string)) : bool :=
  match l with
  | [] => true
  | (x, n) :: r =>
      forallb (fun p => negb (dyn_eqb (fst p) x) || String.eqb (snd p) n) r && validate_pairs r
  end.
Definition validate_parsable (cols : list column) : bool := validate_pairs (parsable_instances cols).

(* validateParsableTraits, second rule: a parsable plain-string trait must not spell the name of
   another definition *)
Definition validate_trait_names (vs : list gvalue) (cols : list column) : bool :=
  forallb (fun p => forallb (fun g => String.eqb (g_name g) (snd p) || negb (dyn_eqb (fst p) (DStr (g_name g)))) vs)
          (parsable_instances cols).

Definition col_less (a b : column) : bool := str_ltb (col_name a) (col_name b).
Definition sort_columns (cols : list column) : list column := isort col_less cols.

(* constants of the Parse switch case of value v: its name, then for every parsable column
   (template order) the cells owned by v *)
Definition owned_cells (c : column) (v : gvalue) : list dyn :=
  map (fun r => cl_val (r_cell r))
      (filter (fun r => String.eqb (g_name (r_owner r)) (g_name v)) (col_rows c)).
(* ParsableValuesOf lists a constant once per value: a cell identical (same default type, equal
   value) to one already listed for the value is skipped (fix C12-parsable-equal-cells) *)
Fixpoint dyn_dedup_from (seen : list dyn) (l : list dyn) : list dyn :=
  match l with
  | [] => []
  | x :: r => if existsb (dyn_eqb x) seen then dyn_dedup_from seen r
              else x :: dyn_dedup_from (x :: seen) r
  end.
Definition dyn_dedup (l : list dyn) : list dyn := dyn_dedup_from [] l.
(* … and a plain string trait that spells the value's own name is the constant already listed
   for the name (fix C12-parsable-trait-equals-name) *)
Definition case_consts (cols : list column) (v : gvalue) : list dyn :=
  DStr (g_name v) ::
  dyn_dedup_from [DStr (g_name v)] (flat_map (fun c => if col_parsable c then owned_cells c v else []) cols).

(* pinned template: `index $trait.Traits $j` — row j of the column, whoever owns it *)
Fixpoint indexed_cells_orig (cols : list column) (j : nat) : option (list dyn) :=
  match cols with
  | [] => Some []
  | c :: cs =>
      match indexed_cells_orig cs j with
      | None => None
      | Some l =>
          if col_parsable c then
            match nth_error (col_rows c) j with
            | Some r => Some (cl_val (r_cell r) :: l)
            | None => None                      (* template: index out of range, generation aborts *)
            end
          else Some l
      end
  end.
Definition case_consts_orig (cols : list column) (j : nat) (v : gvalue) : option (list dyn) :=
  match indexed_cells_orig cols j with
  | Some l => Some (DStr (g_name v) :: l)
  | None => None
  end.

Fixpoint dyn_nodupb (l : list dyn) : bool :=
  match l with
  | [] => true
  | x :: r => negb (existsb (dyn_eqb x) r) && dyn_nodupb r
  end.
Fixpoint z_nodupb (l : list Z) : bool :=
  match l with
  | [] => true
  | x :: r => negb (existsb (Z.eqb x) r) && z_nodupb r
  end.

(* what the Go compiler rejects in the emitted file *)
Definition build_ok (o : opts) (vs : list gvalue) (cols : list column) : bool :=
  (* accessor switch: no two rows of a column owned by the same enum value *)
  forallb (fun c => z_nodupb (map (fun r => g_z (r_owner r)) (col_rows c))) cols
  (* Parse switch: no constant twice *)
  && dyn_nodupb (flat_map (case_consts cols) vs)
  (* lower-cased fallback switch *)
  && (negb (o_ci o) || str_nodupb (map (fun v => to_lower (g_name v)) vs))
  (* one method per column *)
  && str_nodupb (map col_name cols).

Definition mk_tables (d : defn) (o : opts) (vs : list gvalue) (cols : list column) : outcome tables :=
  if build_ok o vs cols then
    Built {| t_ty := d_ty d; t_opts := o; t_all := vs; t_dedup := dedup vs;
             t_binsearch := Nat.ltb 15 (length vs); t_cols := cols |}
  else BuildErr.

Definition gen (d : defn) (o : opts) : outcome tables :=
  let vs := sort_values (d_consts d) in
  match vs with
  | [] => Unsupported
  | first :: rest =>
      (* validateCaseInsensitiveNames: names that differ only by case cannot be told apart *)
      if o_ci o && negb (str_nodupb (map (fun v => to_lower (g_name v)) vs)) then GenErr
      else if o_notraits o then mk_tables d o vs []
      else
        match first_columns d o first (g_cells first) with
        | Built cols0 =>
            let ncols := length cols0 in
            if Nat.eqb ncols 0 then
              if forallb (fun v => Nat.eqb (length (g_cells v)) 0) vs then mk_tables d o vs []
              else Unsupported
            else if negb (validate_counts vs ncols) then GenErr
            else if existsb (fun v => Nat.ltb ncols (length (g_cells v))) rest then Unsupported
            else
              let cols1 := add_rows rest 0 cols0 in
              let cols2 := sort_columns (drop_dup_rows vs cols1) in
              if negb (validate_parsable cols2) then GenErr
              else if negb (validate_trait_names vs cols2) then GenErr
              else mk_tables d o vs cols2
        | GenErr => GenErr
        | BuildErr => BuildErr
        | Unsupported => Unsupported
        end
  end.

(* ------------------------------------------------------------------ behaviour layer *)

Definition sem_values (t : tables) : list Z := map g_z (t_dedup t).

Definition sem_isvalid (t : tables) (e : Z) : bool :=
  if t_binsearch t then snd (binsearch (sem_values t) e)
  else existsb (fun v => Z.eqb v e) (sem_values t).

Definition sem_stringvalues (t : tables) : list string := map g_name (t_dedup t).

Definition undefined_string (t : ety) (e : Z) : string :=
  ("Undefined" ++ ty_name t ++ ":" ++ dec e)%string.

Definition sem_string (t : tables) (e : Z) : string :=
  match find (fun g => Z.eqb (g_z g) e) (t_dedup t) with
  | Some g => g_name g
  | None => undefined_string (t_ty t) e
  end.

(* Parse<T>(input any): None = error *)
Definition sem_parse (t : tables) (input : dyn) : option Z :=
  match find (fun g => existsb (dyn_eqb input) (case_consts (t_cols t) g)) (t_all t) with
  | Some g => Some (g_z g)
  | None =>
      if o_ci (t_opts t) then
        match dval input with
        | PStr s =>
            if String.eqb (dty input) "string" then
              match find (fun g => String.eqb (to_lower (g_name g)) (to_lower s)) (t_all t) with
              | Some g => Some (g_z g)
              | None => None
              end
            else None
        | _ => None
        end
      else None
  end.
Definition sem_parse_string (t : tables) (s : string) : option Z := sem_parse t (DStr s).

(* trait accessor of column c: payload of the result (its static type is the column type) *)
Definition sem_accessor (c : column) (e : Z) : payload :=
  match find (fun r => Z.eqb (g_z (r_owner r)) e) (col_rows c) with
  | Some r => dval (cl_val (r_cell r))
  | None => zero_payload (ti_bkind (col_info c))
  end.

(* ---- codecs ---- *)
Definition family (t : tables) (k : tkind) (own : tyinfo -> bool) : list column :=
  filter (fun c => col_parsable c && tkind_eqb (extract_underlying (ti_bkind (col_info c))) k
                   && negb (own (col_info c))) (t_cols t).
Definition family_own (t : tables) (own : tyinfo -> bool) : list column :=
  filter (fun c => col_parsable c && own (col_info c)) (t_cols t).

Definition typed (c : column) (p : payload) : dyn := {| dty := col_type c; dval := p |}.
Definition typed_int (c : column) (x : Z) : dyn := typed c (PInt (conv_int (ti_bkind (col_info c)) x)).

Fixpoint try_all (t : tables) (inputs : list dyn) : option Z :=
  match inputs with
  | [] => None
  | i :: r => match sem_parse t i with Some v => Some v | None => try_all t r end
  end.

(* what the libraries report about one document; native = result of the trait type's own
   unmarshaler, per trait type *)
Record jview := { jv_null : bool;      (* the document is the literal null (json.Unmarshal of null into
                                          string / uint64 / int64 "succeeds" with "" / 0) *)
                  jv_string : option string; jv_u64 : option Z; jv_i64 : option Z;
                  jv_native : list (string * option payload) }.
Record yview := { yv_value : string; yv_u64 : option Z; yv_i64 : option Z;
                  yv_native : list (string * option payload) }.
Record tview := { tv_text : string; tv_native : list (string * option payload) }.

Definition native_attempts (cols : list column) (nat_view : list (string * option payload)) : list dyn :=
  flat_map (fun c => match lookup (col_type c) nat_view with
                     | Some (Some p) => [typed c p]
                     | _ => []
                     end) cols.

(* the integer fallbacks: the 64-bit reading x is converted to the trait's type; with the range
   check (fix C05-numeric-trait-range-check, [rc] = true) only when the conversion is lossless —
   `if tv := T(x); uint64(tv) == x { … Parse<T>(tv) … }` *)
Definition int_attempts (rc : bool) (cols : list column) (x : Z) : list dyn :=
  flat_map (fun c => if rc && negb (conv_int (ti_bkind (col_info c)) x =? x) then [] else [typed_int c x]) cols.

Definition json_attempts_gen (rc : bool) (t : tables) (v : jview) : list dyn :=
  (match jv_string v with
   | Some s => DStr s :: map (fun c => typed c (PStr s)) (family t KString ti_json_own)
   | None => []
   end)
  ++ (match jv_u64 v with
      | Some u => int_attempts rc (family t KUint64 ti_json_own) u
      | None => []
      end)
  ++ (match jv_i64 v with
      | Some i => int_attempts rc (family t KInt64 ti_json_own) i
      | None => []
      end)
  ++ native_attempts (family_own t ti_json_own) (jv_native v).
Definition json_attempts (t : tables) (v : jview) : list dyn := json_attempts_gen true t v.
(* UnmarshalJSON rejects null before any fallback (fix C05-json-null-rejected) *)
Definition decode_json (t : tables) (v : jview) : option Z :=
  if jv_null v then None else try_all t (json_attempts t v).
(* before that fix *)
Definition decode_json_nullok (t : tables) (v : jview) : option Z := try_all t (json_attempts t v).
(* before the range check: plain wrapping conversion *)
Definition decode_json_norc (t : tables) (v : jview) : option Z := try_all t (json_attempts_gen false t v).

Definition text_attempts (t : tables) (v : tview) : list dyn :=
  DStr (tv_text v) :: map (fun c => typed c (PStr (tv_text v))) (family t KString ti_text_own)
  ++ native_attempts (family_own t ti_text_own) (tv_native v).
Definition decode_text (t : tables) (v : tview) : option Z := try_all t (text_attempts t v).

(* [fixed] = true: numeric fallbacks run when strconv succeeded (err == nil);
   false: the pinned guard err != nil — they run when it FAILED, with the zero result *)
Definition yaml_attempts_gen2 (fixed rc : bool) (t : tables) (v : yview) : list dyn :=
  DStr (yv_value v) :: map (fun c => typed c (PStr (yv_value v))) (family t KString ti_yaml_own)
  ++ (match yv_u64 v with
      | Some u => if fixed then int_attempts rc (family t KUint64 ti_yaml_own) u else []
      | None => if fixed then [] else int_attempts rc (family t KUint64 ti_yaml_own) 0
      end)
  ++ (match yv_i64 v with
      | Some i => if fixed then int_attempts rc (family t KInt64 ti_yaml_own) i else []
      | None => if fixed then [] else int_attempts rc (family t KInt64 ti_yaml_own) 0
      end)
  ++ native_attempts (family_own t ti_yaml_own) (yv_native v).
(* [fixed] = true: the current code (guards err == nil, range check); false: the pinned code *)
Definition yaml_attempts_gen (fixed : bool) (t : tables) (v : yview) : list dyn := yaml_attempts_gen2 fixed fixed t v.
Definition decode_yaml (t : tables) (v : yview) : option Z := try_all t (yaml_attempts_gen true t v).
Definition decode_yaml_orig (t : tables) (v : yview) : option Z := try_all t (yaml_attempts_gen false t v).
Definition decode_yaml_norc (t : tables) (v : yview) : option Z := try_all t (yaml_attempts_gen2 true false t v).

(* encoders: all three emit String() *)
Definition encode_json (t : tables) (e : Z) : string := quote (sem_string t e).
Definition encode_text (t : tables) (e : Z) : string := sem_string t e.
Definition encode_yaml (t : tables) (e : Z) : string := sem_string t e.   (* MarshalYAML's return value *)

(* ------------------------------------------------------------------ specification *)

(* ascending list of the distinct defined values *)
Definition values_spec (cs : list const) : list Z :=
  isort Z.ltb (nodup Z.eq_dec (map c_val cs)).

Fixpoint min_string (x : string) (l : list string) : string :=
  match l with
  | [] => x
  | y :: r => if str_ltb y x then min_string y r else min_string x r
  end.
Definition least (l : list string) : option string :=
  match l with [] => None | x :: r => Some (min_string x r) end.

(* primary name of value v: least non-deprecated name, or least name when all are deprecated *)
Definition primary (cs : list const) (v : Z) : option string :=
  let mine := filter (fun c => Z.eqb (c_val c) v) cs in
  match least (map c_name (filter (fun c => negb (c_dep c)) mine)) with
  | Some n => Some n
  | None => least (map c_name mine)
  end.

Definition string_spec (d : defn) (v : Z) : string :=
  match primary (d_consts d) v with
  | Some n => n
  | None => undefined_string (d_ty d) v
  end.

(* the constant that supplies the traits of value v: the one carrying the primary name *)
Definition primary_const (cs : list const) (v : Z) : option const :=
  match primary cs v with
  | Some n => find (fun c => String.eqb (c_name c) n) cs
  | None => None
  end.

(* names and (for -caseInsensitive) their case variants *)
Definition name_value (cs : list const) (s : string) : option Z :=
  match find (fun c => String.eqb (c_name c) s) cs with
  | Some c => Some (c_val c)
  | None => None
  end.
Definition name_value_ci (cs : list const) (s : string) : option Z :=
  match find (fun c => String.eqb (to_lower (c_name c)) (to_lower s)) cs with
  | Some c => Some (c_val c)
  | None => None
  end.

(* ---- spec-level view of traits: columns are named on the line of the least (value, name) *)
Definition const_less (a b : const) : bool :=
  if c_val a =? c_val b then str_ltb (c_name a) (c_name b) else c_val a <? c_val b.
(* the constant whose line names the traits: the first in ascending (value, name) order *)
Definition lowest_const (cs : list const) : option const := hd_error (isort const_less cs).
Definition column_names (d : defn) : list string :=
  match lowest_const (d_consts d) with
  | Some c => map (fun cl => trim_underscore (cl_var cl)) (c_cells c)
  | None => []
  end.
(* (column name, cell) pairs of a constant *)
Definition named_cells (d : defn) (c : const) : list (string * cell) := combine (column_names d) (c_cells c).
Definition parsable_cells (d : defn) (o : opts) (c : const) : list cell :=
  if o_notraits o then []
  else map snd (filter (fun p => str_mem (fst p) (o_parsable o)) (named_cells d c)).
(* is the dynamic value x the value of a parsable trait (of any constant)? *)
Definition is_parsable_trait_value (d : defn) (o : opts) (x : dyn) : bool :=
  existsb (fun c => existsb (fun cl => dyn_eqb x (cl_val cl)) (parsable_cells d o c)) (d_consts d).


(* the cell of column col on the primary definition line of value e *)
Definition primary_cell (d : defn) (col : string) (e : Z) : option cell :=
  match primary_const (d_consts d) e with
  | Some c => match find (fun p => String.eqb (fst p) col) (named_cells d c) with
              | Some p => Some (snd p)
              | None => None
              end
  | None => None
  end.
Definition column_zero (d : defn) (col : string) : payload :=
  match lowest_const (d_consts d) with
  | Some l => match find (fun p => String.eqb (fst p) col) (named_cells d l) with
              | Some p => match lookup (dty (cl_val (snd p))) (d_types d) with
                          | Some ti => zero_payload (ti_bkind ti)
                          | None => PInt 0
                          end
              | None => PInt 0
              end
  | None => PInt 0
  end.
Definition accessor_spec (d : defn) (col : string) (e : Z) : payload :=
  match primary_cell d col e with
  | Some cl => dval (cl_val cl)
  | None => column_zero d col
  end.

