(* GEnumModel.v — executable mirror of the genum code generator and of the code it emits.
   No proofs here.

   Two layers.

   GENERATOR LAYER   gen : defn -> opts -> outcome tables
   Go source (current tree, with the repairs of fixes/C04-.., C05-.., C12-..)      model
   -----------------------------------------------------------------------  ----------------------
   generate.go  Parse: constant.Uint64Val(v.Val()) -> Value{Value,Signed}    to_gvalue  (u64 = z mod 2^64,
                                                                              Signed = z < 0: the wrap is written out)
   values.go    Value.Less (signed/unsigned compare, then name)              g_less
   generate.go  sort.Sort(values)  (unstable sort)                           sort_values = isort g_less
                                                                              (any sorted permutation equals it:
                                                                               GEnumProofs.sort_values_unique)
   values.go    ValueDeduplicatedSet (addedDeprecated reset on replacement)  dedup          (pinned code: dedup_orig)
   values.go    getPrimary                                                   get_primary
   generate.go  validateCaseInsensitiveNames (-caseInsensitive)             gen (GenErr on names differing only by case)
   generate.go  extractTraitDescs (names/types from the lowest value's       first_columns, validate_counts
                line, count validation)
   generate.go  per-line TraitInstances, sorted like the values              column_rows
   generate.go  processDuplicates (non-primary rows of every duplicated      drop_dup_rows  (pinned code: only for
                value are dropped)                                            "unsafe" groups, drop_dup_rows_orig)
   generate.go  validateParsableTraits (one owner per parsable constant)     validate_parsable
   traits.go    TraitDescs sort by name; extractUnderlying                   sort_columns, extract_underlying
   enumTemplate.gotmpl  `gt (len $values) 15` -> slices.BinarySearch         t_binsearch
   traits.go ParsableValuesOf: Parse switch rows by owning value, each      case_consts    (pinned code: index $j,
                constant once                                                
                                                                              case_consts_orig / rows_in_range_orig)
   Go compiler  duplicate `case` constants / duplicate methods               build_ok

   BEHAVIOUR LAYER   sem_* : tables -> behaviour of the emitted code
   enumTemplate.gotmpl :25-29,:63   _TValues, Values()                        sem_values
   :47-60   IsValid (linear scan | slices.BinarySearch)                      sem_isvalid
   :69-75   StringValues                                                     sem_stringvalues
   :79-88   String (first matching case, else "Undefined<T>:%d")             sem_string
   :97-122  Parse<T> (first matching case over names and parsable trait      sem_parse
            constants; lower-cased fallback when CaseInsensitive)
   :91,:127 ParseString / ParseGeneric                                       sem_parse on a string
   :31-44   trait accessor (first matching case, else zero value)            sem_accessor
   :132-225 MarshalJSON/UnmarshalJSON                                        encode_json / decode_json
   :227-264 MarshalText/UnmarshalText                                        encode_text / decode_text
   :266-355 MarshalYAML/UnmarshalYAML (strconv guards `err == nil`,          encode_yaml / decode_yaml
            lossless-conversion check of the integer fallbacks)              (before it: decode_*_norc)
                                                                              (pinned code: decode_yaml_orig)
   Library behaviour (encoding/json, yaml.v3, strconv, unmarshalers of trait types) enters the
   decoders only through per-document view records measured by the harness.                     *)
From Coq Require Import String Ascii ZArith List Bool.
From GT Require Import Base.GEnumStr.
From GT Require Import Base.GEnumSort.
Import ListNotations.
Local Open Scope string_scope.
Local Open Scope list_scope.
Local Open Scope Z_scope.

(* ------------------------------------------------------------------ definitions *)

(* underlying integer type of the enum *)
Record ety := { ty_name : string; ty_signed : bool; ty_bits : Z }.
Definition ty_min (t : ety) : Z := if ty_signed t then - 2 ^ (ty_bits t - 1) else 0.
Definition ty_max (t : ety) : Z := if ty_signed t then 2 ^ (ty_bits t - 1) - 1 else 2 ^ (ty_bits t) - 1.
Definition in_range (t : ety) (z : Z) : bool := (ty_min t <=? z) && (z <=? ty_max t).

(* Go interface values holding constants: dynamic type (an identifier of the type) and value *)
Inductive payload := PStr (s : string) | PInt (z : Z) | PBool (b : bool).
Record dyn := { dty : string; dval : payload }.
Definition payload_eqb (a b : payload) : bool :=
  match a, b with
  | PStr x, PStr y => String.eqb x y
  | PInt x, PInt y => Z.eqb x y
  | PBool x, PBool y => Bool.eqb x y
  | _, _ => false
  end.
(* == on interface values: identical dynamic types and equal values *)
Definition dyn_eqb (a b : dyn) : bool := String.eqb (dty a) (dty b) && payload_eqb (dval a) (dval b).
Definition DStr (s : string) : dyn := {| dty := "string"; dval := PStr s |}.

(* go/types basic kind of the underlying type of a trait type (oracle, per trait type) *)
Inductive bkind :=
| BUntypedInt | BInt | BInt8 | BInt16 | BInt32 | BInt64
| BUint | BUint8 | BUint16 | BUint32 | BUint64
| BUntypedRune | BUntypedString | BString | BBool | BUntypedBool
| BFloat32 | BFloat64 | BUntypedFloat       (* classified by the generator; trait VALUES of these kinds are outside the
                                               modelled space: gen answers Unsupported *)
| BNonBasic.

Record tyinfo := { ti_bkind : bkind; ti_json_own : bool; ti_yaml_own : bool; ti_text_own : bool }.

(* a trait cell on a constant's line: the name bound on the left (or "_"), the expression text
   (types.ExprString) and the constant value it denotes (with its default type when untyped) *)
Record cell := { cl_var : string; cl_expr : string; cl_val : dyn }.

Record const := { c_name : string; c_val : Z; c_dep : bool; c_cells : list cell }.

Record defn := { d_ty : ety; d_consts : list const; d_types : list (string * tyinfo) }.

Record opts := { o_json : bool; o_yaml : bool; o_text : bool; o_ci : bool; o_notraits : bool;
                 o_parsable : list string }.

(* ------------------------------------------------------------------ generator layer *)

Record gvalue := { g_name : string; g_u64 : Z; g_signed : bool; g_dep : bool;
                   g_z : Z;               (* what the identifier evaluates to in the emitted code *)
                   g_cells : list cell }.

Definition two64 : Z := 2 ^ 64.
Definition to_gvalue (c : const) : gvalue :=
  {| g_name := c_name c; g_u64 := c_val c mod two64; g_signed := c_val c <? 0; g_dep := c_dep c;
     g_z := c_val c; g_cells := c_cells c |}.

(* int64(v.Value) *)
Definition as_i64 (u : Z) : Z := if u <? 2 ^ 63 then u else u - two64.

Definition g_less (a b : gvalue) : bool :=
  if g_signed a || g_signed b then
    let v1 := as_i64 (g_u64 a) in
    let v2 := as_i64 (g_u64 b) in
    if v1 =? v2 then str_ltb (g_name a) (g_name b) else v1 <? v2
  else
    if g_u64 a =? g_u64 b then str_ltb (g_name a) (g_name b) else g_u64 a <? g_u64 b.

Definition sort_values (cs : list const) : list gvalue := isort g_less (map to_gvalue cs).

(* ValueDeduplicatedSet.  [res_rev] is the result slice reversed (its head is result[len-1]).
   [reset] = true is the repaired code (addedDeprecated = false after a replacement). *)
Fixpoint dedup_go (reset : bool) (s : list gvalue) (res_rev : list gvalue) (lastv : Z) (added : bool)
  : list gvalue :=
  match s with
  | [] => rev res_rev
  | c :: rest =>
      if negb (lastv =? g_u64 c) then dedup_go reset rest (c :: res_rev) (g_u64 c) (g_dep c)
      else if added && negb (g_dep c) then
             dedup_go reset rest (c :: tl res_rev) lastv (if reset then false else added)
           else dedup_go reset rest res_rev lastv added
  end.
Definition dedup_gen (reset : bool) (s : list gvalue) : list gvalue :=
  match s with
  | [] => []
  | [x] => [x]
  | x :: rest => dedup_go reset rest [x] (g_u64 x) (g_dep x)
  end.
Definition dedup := dedup_gen true.
Definition dedup_orig := dedup_gen false.      (* pinned code *)

(* getPrimary on a group of equal-valued constants (in sorted order): (primary, safe) *)
Fixpoint gp_loop (primary : gvalue) (rest : list gvalue) : gvalue * bool :=
  match rest with
  | [] => (primary, negb (g_dep primary))
  | v :: r =>
      if g_dep primary && negb (g_dep v) then gp_loop v r
      else if negb (g_dep primary) && negb (g_dep v) then (primary, false)
      else gp_loop primary r
  end.
Definition get_primary (s : list gvalue) : option (gvalue * bool) :=
  match s with
  | [] => None
  | [x] => Some (x, true)
  | x :: r => Some (gp_loop x r)
  end.

(* traits.go extractUnderlying: family of a trait type (floats are outside the modelled space) *)
Inductive tkind := KString | KInt64 | KUint64 | KFloat64 | KFloat32 | KUnknown.
Definition extract_underlying (b : bkind) : tkind :=
  match b with
  | BUntypedInt | BInt | BInt8 | BInt16 | BInt32 | BInt64 => KInt64
  | BUntypedRune => KInt64                       (* repaired code; pinned: unknown *)
  | BUint | BUint8 | BUint16 | BUint32 | BUint64 => KUint64
  | BString => KString
  | BFloat32 => KFloat32
  | BFloat64 | BUntypedFloat => KFloat64
  | BUntypedString | BBool | BUntypedBool | BNonBasic => KUnknown
  end.
Definition is_float_kind (b : bkind) : bool :=
  match b with BFloat32 | BFloat64 | BUntypedFloat => true | _ => false end.

Definition extract_underlying_orig (b : bkind) : tkind :=
  match b with BUntypedRune => KUnknown | _ => extract_underlying b end.
Definition tkind_eqb (a b : tkind) : bool :=
  match a, b with
  | KString, KString | KInt64, KInt64 | KUint64, KUint64 | KFloat64, KFloat64 | KFloat32, KFloat32
  | KUnknown, KUnknown => true
  | _, _ => false
  end.

(* integer conversion T(x) for a trait type of the given basic kind (two's complement wrap) *)
Definition wrap_to (signed : bool) (bits : Z) (x : Z) : Z :=
  let m := x mod 2 ^ bits in
  if signed && (2 ^ (bits - 1) <=? m) then m - 2 ^ bits else m.
Definition conv_int (b : bkind) (x : Z) : Z :=
  match b with
  | BUntypedInt | BInt | BInt64 => wrap_to true 64 x
  | BInt8 => wrap_to true 8 x | BInt16 => wrap_to true 16 x
  | BInt32 | BUntypedRune => wrap_to true 32 x
  | BUint | BUint64 => wrap_to false 64 x
  | BUint8 => wrap_to false 8 x | BUint16 => wrap_to false 16 x | BUint32 => wrap_to false 32 x
  | _ => x
  end.
Definition zero_payload (b : bkind) : payload :=
  match b with
  | BUntypedString | BString => PStr ""
  | BBool | BUntypedBool => PBool false
  | _ => PInt 0
  end.

Record row := { r_owner : gvalue; r_cell : cell;
                r_valstr : string }.  (* TraitInstance.value: ExactString on the first line, ExprString elsewhere *)
Record column := { col_name : string; col_type : string; col_info : tyinfo; col_parsable : bool;
                   col_rows : list row }.

Record tables := { t_ty : ety; t_opts : opts;
                   t_all : list gvalue;         (* Generate.Values[i]: all constants, sorted *)
                   t_dedup : list gvalue;       (* ValueDeduplicatedSet *)
                   t_binsearch : bool;          (* gt (len $values) 15 *)
                   t_cols : list column }.      (* Generate.Traits[i], sorted by name *)

Inductive outcome (T : Type) :=
| Built (t : T)      (* generation succeeds and the output compiles *)
| GenErr             (* the CLI exits with an error (validation or template execution) *)
| BuildErr           (* output written but rejected by the compiler *)
| Unsupported.       (* definition shape outside the modelled space *)
Arguments Built {T} t. Arguments GenErr {T}. Arguments BuildErr {T}. Arguments Unsupported {T}.

Fixpoint lookup {V} (k : string) (l : list (string * V)) : option V :=
  match l with
  | [] => None
  | (k', v) :: r => if String.eqb k k' then Some v else lookup k r
  end.

(* ---- traits.go as data (regenerated by harness/cmd/xlate_genum_traits, tied in coq/ties/Tie_GEnumTraits.v) *)
(* go/types names of the basic kinds *)
Definition bkind_name (b : bkind) : string :=
  match b with
  | BUntypedInt => "UntypedInt" | BInt => "Int" | BInt8 => "Int8" | BInt16 => "Int16" | BInt32 => "Int32" | BInt64 => "Int64"
  | BUint => "Uint" | BUint8 => "Uint8" | BUint16 => "Uint16" | BUint32 => "Uint32" | BUint64 => "Uint64"
  | BUntypedRune => "UntypedRune" | BUntypedString => "UntypedString" | BString => "String"
  | BBool => "Bool" | BUntypedBool => "UntypedBool"
  | BFloat32 => "Float32" | BFloat64 => "Float64" | BUntypedFloat => "UntypedFloat"
  | BNonBasic => ""
  end.
Definition all_basic_kinds : list bkind :=
  [BUntypedInt; BInt; BInt8; BInt16; BInt32; BInt64; BUint; BUint8; BUint16; BUint32; BUint64; BUntypedRune;
   BUntypedString; BString; BBool; BUntypedBool; BFloat32; BFloat64; BUntypedFloat].
(* the `underlying` constants of traits.go *)
Definition underlying_of_name (n : string) : option tkind :=
  if String.eqb n "stringUnderlying" then Some KString
  else if String.eqb n "uint64Underlying" then Some KUint64
  else if String.eqb n "int64Underlying" then Some KInt64
  else if String.eqb n "float64Underlying" then Some KFloat64
  else if String.eqb n "float32Underlying" then Some KFloat32
  else if String.eqb n "unknown" then Some KUnknown
  else None.
(* extractUnderlying read off its table: (family, ok) *)
Definition extract_from_table (tbl : list (string * string)) (nonbasic fall : string) (b : bkind) : option tkind * bool :=
  match b with
  | BNonBasic => (underlying_of_name nonbasic, false)
  | _ => (underlying_of_name (match lookup (bkind_name b) tbl with Some u => u | None => fall end), true)
  end.
(* hasUnderlying: `x, ok := extractUnderlying(); ok && x == u` *)
Inductive hu_form := HuOkAndEq | HuOpaque (what : string).
(* the conjuncts of the filter condition of a Get… method *)
Inductive filter_atom :=
| AtParsable | AtHasUnderlying (u : string) | AtNot (pred : string) | AtPred (pred : string) | AtOpaque (what : string).
Definition codec_of_pred (p : string) : option (tyinfo -> bool) :=
  if String.eqb p "implementsJSONUnmarshaler" then Some ti_json_own
  else if String.eqb p "implementsYAMLUnmarshaler" then Some ti_yaml_own
  else if String.eqb p "implementsTextUnmarshaler" then Some ti_text_own
  else None.

Definition exact_string (p : payload) : string :=
  match p with
  | PStr s => quote s
  | PInt z => dec z
  | PBool true => "true"
  | PBool false => "false"
  end.

(* extractTraitDescs, first part: one column per trait cell of the lowest value's line *)
Fixpoint first_columns (d : defn) (o : opts) (first : gvalue) (cells : list cell) : outcome (list column) :=
  match cells with
  | [] => Built []
  | c :: rest =>
      if String.eqb (cl_var c) "_" then Unsupported          (* pkgScope.Lookup("_") fails: column skipped *)
      else
        let name := trim_underscore (cl_var c) in
        if String.eqb name "" || String.eqb name "_" then GenErr
        else match lookup (dty (cl_val c)) (d_types d) with
             | None => Unsupported
             | Some info =>
                 match first_columns d o first rest with
                 | Built cols =>
                     Built ({| col_name := name; col_type := dty (cl_val c); col_info := info;
                               col_parsable := str_mem name (o_parsable o);
                               col_rows := [ {| r_owner := first; r_cell := c;
                                                r_valstr := exact_string (dval (cl_val c)) |} ] |} :: cols)
                 | e => e
                 end
             end
  end.

(* extractTraitDescs, validation: a line with trait cells must have (or share its value with a
   line that has) exactly one cell per column *)
Definition count_found (vs : list gvalue) (ncols : nat) (u : Z) : bool :=
  existsb (fun v => (g_u64 v =? u) && Nat.eqb (length (g_cells v)) ncols) vs.
Definition validate_counts (vs : list gvalue) (ncols : nat) : bool :=
  forallb (fun v => count_found vs ncols (g_u64 v) || Nat.eqb (length (g_cells v)) 0) vs.

(* the rows appended to column j by the per-line loop (lines after the first, in sorted order) *)
Definition later_rows (rest : list gvalue) (j : nat) : list row :=
  flat_map (fun v => match nth_error (g_cells v) j with
                     | Some c => [ {| r_owner := v; r_cell := c; r_valstr := cl_expr c |} ]
                     | None => []
                     end) rest.
Fixpoint add_rows (rest : list gvalue) (j : nat) (cols : list column) : list column :=
  match cols with
  | [] => []
  | c :: cs =>
      {| col_name := col_name c; col_type := col_type c; col_info := col_info c;
         col_parsable := col_parsable c; col_rows := col_rows c ++ later_rows rest j |}
      :: add_rows rest (S j) cs
  end.

(* processDuplicates: rows of non-primary constants are dropped.
   [all_groups] = true is the repaired code; false the pinned code (only "unsafe" groups) *)
Definition group_of (vs : list gvalue) (u : Z) : list gvalue := filter (fun v => g_u64 v =? u) vs.
Definition keep_row (all_groups : bool) (vs : list gvalue) (r : row) : bool :=
  match get_primary (group_of vs (g_u64 (r_owner r))) with
  | None => true
  | Some (p, safe) =>
      if safe && negb all_groups then true
      else String.eqb (g_name (r_owner r)) (g_name p)
  end.
Definition drop_dup_rows_gen (all_groups : bool) (vs : list gvalue) (cols : list column) : list column :=
  map (fun c => {| col_name := col_name c; col_type := col_type c; col_info := col_info c;
                   col_parsable := col_parsable c;
                   col_rows := filter (keep_row all_groups vs) (col_rows c) |}) cols.
Definition drop_dup_rows := drop_dup_rows_gen true.
Definition drop_dup_rows_orig := drop_dup_rows_gen false.

(* validateParsableTraits: two parsable instances that are the same constant (identical default
   type, equal value) must belong to the same enum value (fix C12-parsable-uniqueness-by-constant;
   before it the value strings r_valstr were compared) *)
Definition parsable_instances (cols : list column) : list (dyn * string) :=
  flat_map (fun c => if col_parsable c
                     then map (fun r => (cl_val (r_cell r), g_name (r_owner r))) (col_rows c)
                     else []) cols.
Fixpoint validate_pairs (l : list (dyn * string)) : bool :=
  match l with
  | [] => true
  | (x, n) :: r =>
      forallb (fun p => negb (dyn_eqb (fst p) x) || String.eqb (snd p) n) r && validate_pairs r
  end.
Definition validate_parsable (cols : list column) : bool := validate_pairs (parsable_instances cols).

(* validateParsableTraits, second rule: a parsable plain-string trait must not spell the name of
   another definition *)
Definition validate_trait_names (vs : list gvalue) (cols : list column) : bool :=
  forallb (fun p => forallb (fun g => String.eqb (g_name g) (snd p) || negb (dyn_eqb (fst p) (DStr (g_name g)))) vs)
          (parsable_instances cols).

Definition col_less (a b : column) : bool := str_ltb (col_name a) (col_name b).
Definition sort_columns (cols : list column) : list column := isort col_less cols.

(* constants of the Parse switch case of value v: its name, then for every parsable column
   (template order) the cells owned by v *)
Definition owned_cells (c : column) (v : gvalue) : list dyn :=
  map (fun r => cl_val (r_cell r))
      (filter (fun r => String.eqb (g_name (r_owner r)) (g_name v)) (col_rows c)).
(* ParsableValuesOf lists a constant once per value: a cell identical (same default type, equal
   value) to one already listed for the value is skipped (fix C12-parsable-equal-cells) *)
Fixpoint dyn_dedup_from (seen : list dyn) (l : list dyn) : list dyn :=
  match l with
  | [] => []
  | x :: r => if existsb (dyn_eqb x) seen then dyn_dedup_from seen r
              else x :: dyn_dedup_from (x :: seen) r
  end.
Definition dyn_dedup (l : list dyn) : list dyn := dyn_dedup_from [] l.
(* … and a plain string trait that spells the value's own name is the constant already listed
   for the name (fix C12-parsable-trait-equals-name) *)
Definition case_consts (cols : list column) (v : gvalue) : list dyn :=
  DStr (g_name v) ::
  dyn_dedup_from [DStr (g_name v)] (flat_map (fun c => if col_parsable c then owned_cells c v else []) cols).

(* pinned template: `index $trait.Traits $j` — row j of the column, whoever owns it *)
Fixpoint indexed_cells_orig (cols : list column) (j : nat) : option (list dyn) :=
  match cols with
  | [] => Some []
  | c :: cs =>
      match indexed_cells_orig cs j with
      | None => None
      | Some l =>
          if col_parsable c then
            match nth_error (col_rows c) j with
            | Some r => Some (cl_val (r_cell r) :: l)
            | None => None                      (* template: index out of range, generation aborts *)
            end
          else Some l
      end
  end.
Definition case_consts_orig (cols : list column) (j : nat) (v : gvalue) : option (list dyn) :=
  match indexed_cells_orig cols j with
  | Some l => Some (DStr (g_name v) :: l)
  | None => None
  end.

Fixpoint dyn_nodupb (l : list dyn) : bool :=
  match l with
  | [] => true
  | x :: r => negb (existsb (dyn_eqb x) r) && dyn_nodupb r
  end.
Fixpoint z_nodupb (l : list Z) : bool :=
  match l with
  | [] => true
  | x :: r => negb (existsb (Z.eqb x) r) && z_nodupb r
  end.

(* what the Go compiler rejects in the emitted file *)
Definition build_ok (o : opts) (vs : list gvalue) (cols : list column) : bool :=
  (* accessor switch: no two rows of a column owned by the same enum value *)
  forallb (fun c => z_nodupb (map (fun r => g_z (r_owner r)) (col_rows c))) cols
  (* Parse switch: no constant twice *)
  && dyn_nodupb (flat_map (case_consts cols) vs)
  (* lower-cased fallback switch *)
  && (negb (o_ci o) || str_nodupb (map (fun v => to_lower (g_name v)) vs))
  (* one method per column *)
  && str_nodupb (map col_name cols).

Definition mk_tables (d : defn) (o : opts) (vs : list gvalue) (cols : list column) : outcome tables :=
  if build_ok o vs cols then
    Built {| t_ty := d_ty d; t_opts := o; t_all := vs; t_dedup := dedup vs;
             t_binsearch := Nat.ltb 15 (length vs); t_cols := cols |}
  else BuildErr.

(* generate.go validateValueNames / reservedIdentifiers (fix C04-reserved-identifiers): a constant named like an
   identifier the template binds where it refers to the constants — the receiver `e` of String() and the
   accessors, the parameter `input` of Parse<T>, `text` / `ok` of its -caseInsensitive fallback — would be
   shadowed there; generation fails.  (Before the fix such a definition generated `switch e { case e: …`.) *)
Definition reserved_name (o : opts) (n : string) : bool :=
  String.eqb n "e" || String.eqb n "input" || (o_ci o && (String.eqb n "text" || String.eqb n "ok")).
(* the same for the identifiers of trait cells (validateTraitIdentifiers): definitions with such cells are
   outside the modelled space *)
Definition reserved_cell_var (n : string) : bool := String.eqb n "e" || String.eqb n "input".

Definition gen (d : defn) (o : opts) : outcome tables :=
  let vs := sort_values (d_consts d) in
  match vs with
  | [] => Unsupported
  | first :: rest =>
      if existsb (fun v => reserved_name o (g_name v)) vs then GenErr
      else
      (* validateCaseInsensitiveNames: names that differ only by case cannot be told apart *)
      if o_ci o && negb (str_nodupb (map (fun v => to_lower (g_name v)) vs)) then GenErr
      else if o_notraits o then mk_tables d o vs []
      else if existsb (fun v => existsb (fun c => reserved_cell_var (cl_var c)) (g_cells v)) vs then Unsupported
      else
        match first_columns d o first (g_cells first) with
        | Built cols0 =>
            let ncols := length cols0 in
            if Nat.eqb ncols 0 then
              if forallb (fun v => Nat.eqb (length (g_cells v)) 0) vs then mk_tables d o vs []
              else Unsupported
            else if negb (validate_counts vs ncols) then GenErr
            else if existsb (fun v => Nat.ltb ncols (length (g_cells v))) rest then Unsupported
            else
              let cols1 := add_rows rest 0 cols0 in
              let cols2 := sort_columns (drop_dup_rows vs cols1) in
              if negb (validate_parsable cols2) then GenErr
              else if negb (validate_trait_names vs cols2) then GenErr
              else mk_tables d o vs cols2
        | GenErr => GenErr
        | BuildErr => BuildErr
        | Unsupported => Unsupported
        end
  end.

(* ------------------------------------------------------------------ behaviour layer *)

Definition sem_values (t : tables) : list Z := map g_z (t_dedup t).

Definition sem_isvalid (t : tables) (e : Z) : bool :=
  if t_binsearch t then snd (binsearch (sem_values t) e)
  else existsb (fun v => Z.eqb v e) (sem_values t).

Definition sem_stringvalues (t : tables) : list string := map g_name (t_dedup t).

Definition undefined_string (t : ety) (e : Z) : string :=
  ("Undefined" ++ ty_name t ++ ":" ++ dec e)%string.

Definition sem_string (t : tables) (e : Z) : string :=
  match find (fun g => Z.eqb (g_z g) e) (t_dedup t) with
  | Some g => g_name g
  | None => undefined_string (t_ty t) e
  end.

(* Parse<T>(input any): None = error *)
Definition sem_parse (t : tables) (input : dyn) : option Z :=
  match find (fun g => existsb (dyn_eqb input) (case_consts (t_cols t) g)) (t_all t) with
  | Some g => Some (g_z g)
  | None =>
      if o_ci (t_opts t) then
        match dval input with
        | PStr s =>
            if String.eqb (dty input) "string" then
              match find (fun g => String.eqb (to_lower (g_name g)) (to_lower s)) (t_all t) with
              | Some g => Some (g_z g)
              | None => None
              end
            else None
        | _ => None
        end
      else None
  end.
Definition sem_parse_string (t : tables) (s : string) : option Z := sem_parse t (DStr s).

(* trait accessor of column c: payload of the result (its static type is the column type) *)
Definition sem_accessor (c : column) (e : Z) : payload :=
  match find (fun r => Z.eqb (g_z (r_owner r)) e) (col_rows c) with
  | Some r => dval (cl_val (r_cell r))
  | None => zero_payload (ti_bkind (col_info c))
  end.

(* ---- codecs ----
   The decoders, encoders, Parse<T> and the small functions of the emitted code are INTERPRETERS of
   control skeletons.  A skeleton says which steps a function takes in which order: for a decoder the
   null check, the guarded library readings with the Parse attempts made on them (the plain name
   attempt; per trait family a conversion T(x), plain or checked against wrap-around; the `len` gate of
   the block; the polarity of the error test), the own-unmarshaler attempts.  The skeletons of the
   current template are the constants cur_* below; harness/cmd/xlate_genum_skel regenerates them from
   genum/gen/enumTemplate.gotmpl on every check (GEnumSkelGen.gen_skels), the theorems are proved for
   EVERY skeleton record satisfying the executable well-formedness predicate skels_ok, and the
   regenerated record is shown to satisfy it by vm_compute (coq/ties/Tie_GEnumSkel.v). *)
Inductive codec_id := CoJSON | CoYAML | CoText.
Definition codec_eqb (a b : codec_id) : bool :=
  match a, b with CoJSON, CoJSON | CoYAML, CoYAML | CoText, CoText => true | _, _ => false end.
Definition own_of (c : codec_id) (i : tyinfo) : bool :=
  match c with CoJSON => ti_json_own i | CoYAML => ti_yaml_own i | CoText => ti_text_own i end.

(* traits.go getParsableUnderlying(u, excluding) / GetParsable<Codec>Unmarshalable *)
Definition family (t : tables) (k : tkind) (own : tyinfo -> bool) : list column :=
  filter (fun c => col_parsable c && tkind_eqb (extract_underlying (ti_bkind (col_info c))) k
                   && negb (own (col_info c))) (t_cols t).
Definition family_own (t : tables) (own : tyinfo -> bool) : list column :=
  filter (fun c => col_parsable c && own (col_info c)) (t_cols t).

(* the trait families the template ranges over: GetParsableUnderlying<K>For<Codec>,
   GetParsable<Codec>Unmarshalable *)
Inductive fam := FamKind (k : tkind) (c : codec_id) | FamOwn (c : codec_id).
Definition fam_cols (t : tables) (f : fam) : list column :=
  match f with
  | FamKind k c => family t k (own_of c)
  | FamOwn c => family_own t (own_of c)
  end.
Definition fam_eqb (a b : fam) : bool :=
  match a, b with
  | FamKind k c, FamKind k' c' => tkind_eqb k k' && codec_eqb c c'
  | FamOwn c, FamOwn c' => codec_eqb c c'
  | _, _ => false
  end.
Definition opt_fam_eqb (a b : option fam) : bool :=
  match a, b with Some x, Some y => fam_eqb x y | None, None => true | _, _ => false end.

Definition typed (c : column) (p : payload) : dyn := {| dty := col_type c; dval := p |}.
Definition typed_int (c : column) (x : Z) : dyn := typed c (PInt (conv_int (ti_bkind (col_info c)) x)).

(* first successful Parse among the inputs *)
Fixpoint try_with (P : dyn -> option Z) (inputs : list dyn) : option Z :=
  match inputs with
  | [] => None
  | i :: r => match P i with Some v => Some v | None => try_with P r end
  end.

(* what the libraries report about one document; native = result of the trait type's own
   unmarshaler, per trait type *)
Record jview := { jv_null : bool;      (* the document is the literal null (json.Unmarshal of null into
                                          string / uint64 / int64 "succeeds" with "" / 0) *)
                  jv_string : option string; jv_u64 : option Z; jv_i64 : option Z;
                  jv_native : list (string * option payload) }.
Record yview := { yv_scalar : bool;    (* the node is a scalar (yaml.v3 hands sequence and mapping nodes to
                                          UnmarshalYAML too; their Value is "") *)
                  yv_value : string; yv_u64 : option Z; yv_i64 : option Z;
                  yv_native : list (string * option payload) }.
Record tview := { tv_text : string; tv_native : list (string * option payload) }.
(* the common form the interpreter works on; dv_null = the document holds no scalar at all (JSON null, a
   YAML sequence or mapping) *)
Record dview := { dv_null : bool; dv_str : option string; dv_u64 : option Z; dv_i64 : option Z;
                  dv_native : list (string * option payload) }.
Definition dv_of_j (v : jview) : dview :=
  {| dv_null := jv_null v; dv_str := jv_string v; dv_u64 := jv_u64 v; dv_i64 := jv_i64 v; dv_native := jv_native v |}.
Definition dv_of_y (v : yview) : dview :=
  {| dv_null := negb (yv_scalar v); dv_str := Some (yv_value v); dv_u64 := yv_u64 v; dv_i64 := yv_i64 v; dv_native := yv_native v |}.
Definition dv_of_t (v : tview) : dview :=
  {| dv_null := false; dv_str := Some (tv_text v); dv_u64 := None; dv_i64 := None; dv_native := tv_native v |}.

Definition native_attempts (cols : list column) (nat_view : list (string * option payload)) : list dyn :=
  flat_map (fun c => match lookup (col_type c) nat_view with
                     | Some (Some p) => [typed c p]
                     | _ => []
                     end) cols.

(* the integer fallbacks: the 64-bit reading x is converted to the trait's type; with the range
   check (fix C05-numeric-trait-range-check, [rc] = true) only when the conversion is lossless —
   `if tv := T(x); uint64(tv) == x { … Parse<T>(tv) … }` *)
Definition int_attempts (rc : bool) (cols : list column) (x : Z) : list dyn :=
  flat_map (fun c => if rc && negb (conv_int (ti_bkind (col_info c)) x =? x) then [] else [typed_int c x]) cols.

(* ---- decoder skeletons *)
(* the library reading a block is guarded by: json.Unmarshal into string / uint64 / int64 / float64 /
   float32; YAML value.Value, strconv.ParseUint/ParseInt(…, 10, 64), ParseFloat(…, 64 | 32); the text *)
Inductive src := SrcString | SrcU64 | SrcI64 | SrcF64 | SrcF32.
(* how the reading reaches Parse<T>: as it is; converted T(x); converted and checked
   `if tv := T(x); wide(tv) == x` *)
Inductive conv := CvNone | CvTyped | CvChecked.
(* one Parse attempt (followed by `if err == nil { return nil }`): on the reading itself
   (at_fam = None) or, ranging over a trait family, on the reading converted to each trait's type *)
Record attempt := { at_fam : option fam; at_conv : conv }.
Inductive step :=
| StNullReject                                                    (* documents that hold no scalar are refused up front:
                                                                     if string(data) == "null" { return err } /
                                                                     if value.Kind != yaml.ScalarNode { return err } *)
| StRead (gate : option fam) (s : src) (on_ok : bool) (body : list attempt)
                                                                  (* [{{if len gate}}] if reading; err == nil (on_ok) / err != nil { body } *)
| StNative (gate : option fam) (f : fam) (via : codec_id)         (* range f: v := new(T); if unmarshal-via(v) == nil { Parse(v) } *)
| StOpaque (what : string).                                       (* code outside the skeleton language *)
(* option gates of a function: the {{if}} / {{range}} nodes enclosing its emission *)
Inductive gate := GFlag (name : string) (positive : bool) | GCond (text : string) (positive : bool) | GRange (text : string).
Record dskel := { ds_gates : list gate; ds_steps : list step }.

Definition src_eqb (a b : src) : bool :=
  match a, b with
  | SrcString, SrcString | SrcU64, SrcU64 | SrcI64, SrcI64 | SrcF64, SrcF64 | SrcF32, SrcF32 => true
  | _, _ => false
  end.
Definition conv_eqb (a b : conv) : bool :=
  match a, b with CvNone, CvNone | CvTyped, CvTyped | CvChecked, CvChecked => true | _, _ => false end.
Definition attempt_eqb (a b : attempt) : bool := opt_fam_eqb (at_fam a) (at_fam b) && conv_eqb (at_conv a) (at_conv b).

Definition read_src (v : dview) (s : src) : option payload :=
  match s with
  | SrcString => match dv_str v with Some x => Some (PStr x) | None => None end
  | SrcU64 => match dv_u64 v with Some x => Some (PInt x) | None => None end
  | SrcI64 => match dv_i64 v with Some x => Some (PInt x) | None => None end
  | SrcF64 | SrcF32 => None          (* floating-point traits are outside the modelled space *)
  end.
Definition zero_src (s : src) : payload := match s with SrcString => PStr "" | _ => PInt 0 end.
Definition src_type (s : src) : string :=
  match s with SrcString => "string" | SrcU64 => "uint64" | SrcI64 => "int64" | SrcF64 => "float64" | SrcF32 => "float32" end.

Definition attempt_dyns (t : tables) (s : src) (p : payload) (a : attempt) : list dyn :=
  match at_fam a with
  | None => [ {| dty := src_type s; dval := p |} ]
  | Some f =>
      match p with
      | PInt x => int_attempts (match at_conv a with CvChecked => true | _ => false end) (fam_cols t f) x
      | _ => map (fun c => typed c p) (fam_cols t f)
      end
  end.
Definition gate_open (t : tables) (g : option fam) : bool :=
  match g with None => true | Some f => match fam_cols t f with [] => false | _ => true end end.
(* the Parse inputs a step tries, in order *)
Definition step_dyns (t : tables) (v : dview) (st : step) : list dyn :=
  match st with
  | StNullReject | StOpaque _ => []
  | StRead g s on_ok body =>
      if gate_open t g then
        match read_src v s, on_ok with
        | Some p, true => flat_map (attempt_dyns t s p) body
        | None, false => flat_map (attempt_dyns t s (zero_src s)) body     (* err != nil: the variable holds its zero value *)
        | _, _ => []
        end
      else []
  | StNative g f _ => if gate_open t g then native_attempts (fam_cols t f) (dv_native v) else []
  end.
Definition skel_attempts (t : tables) (v : dview) (sk : list step) : list dyn := flat_map (step_dyns t v) sk.

(* a decoder: the steps in order, the first successful Parse wins, an error at the end *)
Fixpoint run_steps (P : dyn -> option Z) (t : tables) (v : dview) (sk : list step) : option Z :=
  match sk with
  | [] => None
  | StNullReject :: r => if dv_null v then None else run_steps P t v r
  | st :: r => match try_with P (step_dyns t v st) with Some z => Some z | None => run_steps P t v r end
  end.

(* ---- Parse<T> skeleton *)
Inductive pkey := PkInput | PkLowerText.         (* switch input | text, ok := input.(string); switch strings.ToLower(text) *)
Inductive pconst := PcName | PcLowerName | PcTraits.   (* "{{$val.Name}}" | "{{$val.LowerCaseName}}" | ParsableValuesOf $val *)
Inductive vsrc := VsAll | VsDedup.               (* range $values | range $values.ValueDeduplicatedSet *)
Record pswitch := { sw_key : pkey; sw_over : vsrc; sw_consts : list pconst }.
Inductive pstep :=
| PsSwitch (sw : pswitch)                        (* a matching case returns its value *)
| PsIfFlag (flag : string) (body : list pstep)   (* {{if $.Flag}} … {{end}} *)
| PsFail                                         (* return 0, error *)
| PsOpaque (what : string).

Definition vs_list (t : tables) (v : vsrc) : list gvalue := match v with VsAll => t_all t | VsDedup => t_dedup t end.
Definition flag_on (o : opts) (f : string) : bool :=
  if String.eqb f "CaseInsensitive" then o_ci o
  else if String.eqb f "GenJSON" then o_json o
  else if String.eqb f "GenYAML" then o_yaml o
  else if String.eqb f "GenText" then o_text o
  else false.
(* ParsableValuesOf: the constants a case lists after the name *)
Definition parsable_values_of (cols : list column) (v : gvalue) : list dyn := tl (case_consts cols v).
Definition sw_case (t : tables) (sw : pswitch) (g : gvalue) : list dyn :=
  flat_map (fun pc => match pc with
                      | PcName => [DStr (g_name g)]
                      | PcLowerName => [DStr (to_lower (g_name g))]
                      | PcTraits => parsable_values_of (t_cols t) g
                      end) (sw_consts sw).
Definition sw_keyval (k : pkey) (input : dyn) : option dyn :=
  match k with
  | PkInput => Some input
  | PkLowerText => match dval input with
                   | PStr s => if String.eqb (dty input) "string" then Some (DStr (to_lower s)) else None
                   | _ => None
                   end
  end.
Definition run_switch (t : tables) (sw : pswitch) (input : dyn) : option Z :=
  match sw_keyval (sw_key sw) input with
  | None => None
  | Some k => match find (fun g => existsb (dyn_eqb k) (sw_case t sw g)) (vs_list t (sw_over sw)) with
              | Some g => Some (g_z g)
              | None => None
              end
  end.
Inductive pres := PrFound (z : Z) | PrFail | PrNext.
Fixpoint run_pstep (t : tables) (input : dyn) (s : pstep) : pres :=
  match s with
  | PsSwitch sw => match run_switch t sw input with Some z => PrFound z | None => PrNext end
  | PsIfFlag fl body =>
      if flag_on (t_opts t) fl then
        (fix go (l : list pstep) : pres :=
           match l with
           | [] => PrNext
           | x :: r => match run_pstep t input x with PrNext => go r | res => res end
           end) body
      else PrNext
  | PsFail => PrFail
  | PsOpaque _ => PrFail
  end.
Fixpoint run_psteps (t : tables) (input : dyn) (l : list pstep) : pres :=
  match l with
  | [] => PrNext
  | x :: r => match run_pstep t input x with PrNext => run_psteps t input r | res => res end
  end.
Definition sem_parse_sk (sk : list pstep) (t : tables) (input : dyn) : option Z :=
  match run_psteps t input sk with PrFound z => Some z | _ => None end.

(* ---- the small functions *)
Inductive enc_skel := EncJSONOfString | EncBytesOfString | EncString | EncOpaque (what : string).
   (* return json.Marshal(e.String()) | return []byte(e.String()), nil | return e.String(), nil *)
Inductive tbl_skel := TblNames (over : vsrc) | TblOpaque (what : string).        (* one entry per value of the list *)
Inductive val_skel := ValCloneOfTable | ValAliasOfTable | ValOpaque (what : string).
   (* return slices.Clone(_TValues)  |  return _TValues / _TValues[:n:n]: the caller gets the table itself *)
Inductive str_skel := StrSwitch (over : vsrc) (pre suf : string) | StrOpaque (what : string).
   (* switch e { case Name: return "Name" … default: return fmt.Sprintf(pre ++ T ++ suf, e) } *)
Inductive mem_skel := MemBinarySearch | MemLinear | MemOpaque (what : string).   (* slices.BinarySearch | for … if v == e *)
Inductive iv_skel := IvThreshold (count_over : vsrc) (n : nat) (above below : mem_skel) | IvOpaque (what : string).
   (* {{if gt (len list) n}} above {{else}} below {{end}} *)
Inductive acc_skel := AccSwitchRowsElseZero | AccOpaque (what : string).
   (* switch e { case Owner: return Value … }; return *new(T) *)

Record skels := {
  sk_json : dskel; sk_text : dskel; sk_yaml : dskel;
  sk_enc_json : enc_skel; sk_enc_text : enc_skel; sk_enc_yaml : enc_skel;
  sk_enc_gates : list (list gate);
  sk_parse : list pstep; sk_parse_gates : list gate;
  sk_parsestring : bool; sk_parsegeneric : bool;        (* `return Parse<T>(x)` *)
  sk_table : tbl_skel; sk_values : val_skel; sk_stringvalues : tbl_skel;
  sk_string : str_skel; sk_isvalid : iv_skel; sk_accessor : acc_skel;
  sk_plain_gates : list (list gate);                    (* ParseString, ParseGeneric, Values, StringValues, String, IsValid *)
  sk_accessor_gates : list gate }.

(* the skeletons of the current template *)
Definition plain_attempt : attempt := {| at_fam := None; at_conv := CvNone |}.
Definition fam_attempt (f : fam) (cv : conv) : attempt := {| at_fam := Some f; at_conv := cv |}.
Definition num_steps (c : codec_id) (int_ok : bool) (cv : conv) : list step :=
  [ StRead (Some (FamKind KUint64 c)) SrcU64 int_ok [fam_attempt (FamKind KUint64 c) cv];
    StRead (Some (FamKind KInt64 c)) SrcI64 int_ok [fam_attempt (FamKind KInt64 c) cv];
    StRead (Some (FamKind KFloat64 c)) SrcF64 true [fam_attempt (FamKind KFloat64 c) CvTyped];
    StRead (Some (FamKind KFloat32 c)) SrcF32 true [fam_attempt (FamKind KFloat32 c) CvTyped];
    StNative (Some (FamOwn c)) (FamOwn c) c ].
Definition json_steps_gen (nullcheck : bool) (cv : conv) : list step :=
  (if nullcheck then [StNullReject] else [])
  ++ StRead None SrcString true [plain_attempt; fam_attempt (FamKind KString CoJSON) CvTyped]
  :: num_steps CoJSON true cv.
Definition yaml_steps_gen2 (scalarcheck int_ok : bool) (cv : conv) : list step :=
  (if scalarcheck then [StNullReject] else []) ++
  StRead None SrcString true [plain_attempt]
  :: StRead None SrcString true [fam_attempt (FamKind KString CoYAML) CvTyped]
  :: num_steps CoYAML int_ok cv.
Definition yaml_steps_gen := yaml_steps_gen2 true.
Definition text_steps : list step :=
  [ StRead None SrcString true [plain_attempt];
    StRead None SrcString true [fam_attempt (FamKind KString CoText) CvTyped];
    StNative (Some (FamOwn CoText)) (FamOwn CoText) CoText ].
Definition cur_parse_skel : list pstep :=
  [ PsSwitch {| sw_key := PkInput; sw_over := VsAll; sw_consts := [PcName; PcTraits] |};
    PsIfFlag "CaseInsensitive" [PsSwitch {| sw_key := PkLowerText; sw_over := VsAll; sw_consts := [PcLowerName] |}] ].
Definition cur_skels : skels :=
  {| sk_json := {| ds_gates := [GFlag "GenJSON" true]; ds_steps := json_steps_gen true CvChecked |};
     sk_text := {| ds_gates := [GFlag "GenText" true]; ds_steps := text_steps |};
     sk_yaml := {| ds_gates := [GFlag "GenYAML" true]; ds_steps := yaml_steps_gen true CvChecked |};
     sk_enc_json := EncJSONOfString; sk_enc_text := EncBytesOfString; sk_enc_yaml := EncString;
     sk_enc_gates := [[GFlag "GenJSON" true]; [GFlag "GenText" true]; [GFlag "GenYAML" true]];
     sk_parse := cur_parse_skel; sk_parse_gates := [];
     sk_parsestring := true; sk_parsegeneric := true;
     sk_table := TblNames VsDedup; sk_values := ValCloneOfTable; sk_stringvalues := TblNames VsDedup;
     sk_string := StrSwitch VsDedup "Undefined" ":%d";
     sk_isvalid := IvThreshold VsAll 15 MemBinarySearch MemLinear;
     sk_accessor := AccSwitchRowsElseZero;
     sk_plain_gates := [[]; []; []; []; []; []];
     sk_accessor_gates := [GRange "index $.Traits $i"] |}.

(* ---- the emitted functions as interpreters of a skeleton record *)
Definition decode_json_sk (k : skels) (t : tables) (v : jview) : option Z :=
  run_steps (sem_parse_sk (sk_parse k) t) t (dv_of_j v) (ds_steps (sk_json k)).
Definition decode_yaml_sk (k : skels) (t : tables) (v : yview) : option Z :=
  run_steps (sem_parse_sk (sk_parse k) t) t (dv_of_y v) (ds_steps (sk_yaml k)).
Definition decode_text_sk (k : skels) (t : tables) (v : tview) : option Z :=
  run_steps (sem_parse_sk (sk_parse k) t) t (dv_of_t v) (ds_steps (sk_text k)).

(* the Parse inputs a decoder tries on a document, in order *)
Definition json_attempts_sk (k : skels) (t : tables) (v : jview) : list dyn := skel_attempts t (dv_of_j v) (ds_steps (sk_json k)).
Definition yaml_attempts_sk (k : skels) (t : tables) (v : yview) : list dyn := skel_attempts t (dv_of_y v) (ds_steps (sk_yaml k)).
Definition text_attempts_sk (k : skels) (t : tables) (v : tview) : list dyn := skel_attempts t (dv_of_t v) (ds_steps (sk_text k)).

Definition sem_values_sk (k : skels) (t : tables) : list Z :=
  match sk_values k, sk_table k with
  | (ValCloneOfTable | ValAliasOfTable), TblNames vs => map g_z (vs_list t vs)
  | _, _ => []
  end.
Definition sem_stringvalues_sk (k : skels) (t : tables) : list string :=
  match sk_stringvalues k with TblNames vs => map g_name (vs_list t vs) | TblOpaque _ => [] end.
Definition sem_string_sk (k : skels) (t : tables) (e : Z) : string :=
  match sk_string k with
  | StrSwitch vs pre suf =>
      match find (fun g => Z.eqb (g_z g) e) (vs_list t vs) with
      | Some g => g_name g
      | None => (pre ++ ty_name (t_ty t) ++ (if String.eqb suf ":%d" then ":" ++ dec e else suf))%string
      end
  | StrOpaque _ => ""
  end.
Definition sem_member (m : mem_skel) (table : list Z) (e : Z) : bool :=
  match m with
  | MemBinarySearch => snd (binsearch table e)
  | MemLinear => existsb (fun v => Z.eqb v e) table
  | MemOpaque _ => false
  end.
(* IsValid reads the package-level value table *)
Definition sem_isvalid_tbl (k : skels) (t : tables) (table : list Z) (e : Z) : bool :=
  match sk_isvalid k with
  | IvThreshold vs n above below =>
      sem_member (if Nat.ltb n (length (vs_list t vs)) then above else below) table e
  | IvOpaque _ => false
  end.
Definition sem_isvalid_sk (k : skels) (t : tables) (e : Z) : bool := sem_isvalid_tbl k t (sem_values_sk k t) e.

(* ---- histories: what callers did with earlier results.  The generated API hands out slices (Values(),
   StringValues()); a caller may WRITE into them.  With `slices.Clone` / a fresh composite literal such writes
   touch the caller's copy only; if Values() returns the table itself (ValAliasOfTable) they land in the table
   that later Values() and IsValid() calls read. *)
Inductive hist_ev :=
| HWriteValues (i : nat) (x : Z)                  (* vs := T.Values(); vs[i] = x *)
| HWriteStringValues (i : nat) (s : string).      (* sv := T.StringValues(); sv[i] = s *)
Fixpoint upd {A} (l : list A) (i : nat) (x : A) : list A :=
  match l, i with
  | [], _ => []
  | _ :: r, O => x :: r
  | y :: r, S j => y :: upd r j x
  end.
Definition table_after (k : skels) (table : list Z) (h : list hist_ev) : list Z :=
  fold_left (fun tb ev => match ev, sk_values k with
                          | HWriteValues i x, ValAliasOfTable => upd tb i x
                          | _, _ => tb
                          end) h table.
(* the same functions called after a history *)
Definition sem_values_hist (k : skels) (t : tables) (h : list hist_ev) : list Z := table_after k (sem_values_sk k t) h.
Definition sem_isvalid_hist (k : skels) (t : tables) (h : list hist_ev) (e : Z) : bool :=
  sem_isvalid_tbl k t (table_after k (sem_values_sk k t) h) e.
Definition sem_accessor_sk (k : skels) (c : column) (e : Z) : payload :=
  match sk_accessor k with
  | AccSwitchRowsElseZero => sem_accessor c e
  | AccOpaque _ => zero_payload (ti_bkind (col_info c))
  end.
Definition sem_encode (x : enc_skel) (s : string) : string :=
  match x with EncJSONOfString => quote s | EncBytesOfString | EncString => s | EncOpaque _ => "" end.
Definition encode_json_sk (k : skels) (t : tables) (e : Z) : string := sem_encode (sk_enc_json k) (sem_string_sk k t e).
Definition encode_text_sk (k : skels) (t : tables) (e : Z) : string := sem_encode (sk_enc_text k) (sem_string_sk k t e).
Definition encode_yaml_sk (k : skels) (t : tables) (e : Z) : string := sem_encode (sk_enc_yaml k) (sem_string_sk k t e).

(* ---- well-formedness of a skeleton record (executable) *)
(* soundness of a decoder: every attempt is made on a faithful reading — guards test err == nil, an
   integer reading reaches Parse only through the checked conversion, own-unmarshaler attempts use
   the decoder's own codec, nothing opaque; JSON and YAML decoders refuse documents without a scalar first *)
Definition attempt_sound (s : src) (a : attempt) : bool :=
  match s with
  | SrcString | SrcF64 | SrcF32 => true
  | SrcU64 | SrcI64 => match at_fam a, at_conv a with Some _, CvChecked => true | _, _ => false end
  end.
Definition step_sound (c : codec_id) (st : step) : bool :=
  match st with
  | StNullReject => true
  | StRead _ s on_ok body => on_ok && forallb (attempt_sound s) body
  | StNative _ _ via => codec_eqb via c
  | StOpaque _ => false
  end.
Definition steps_sound (c : codec_id) (sk : list step) : bool := forallb (step_sound c) sk.
(* completeness: the decoder does try a given reading *)
Definition gate_ok (g : option fam) (a : attempt) : bool :=
  match g with None => true | Some f => opt_fam_eqb (at_fam a) (Some f) end.
Definition step_has (s : src) (a : attempt) (st : step) : bool :=
  match st with
  | StRead g s' true body => src_eqb s s' && gate_ok g a && existsb (attempt_eqb a) body
  | _ => false
  end.
Definition steps_have (s : src) (a : attempt) (sk : list step) : bool := existsb (step_has s a) sk.
Definition step_has_native (c : codec_id) (st : step) : bool :=
  match st with
  | StNative g f via => fam_eqb f (FamOwn c) && codec_eqb via c
                        && match g with None => true | Some f' => fam_eqb f' (FamOwn c) end
  | _ => false
  end.
(* the name attempt comes first (after the null check): a defined name decodes to its value whatever
   the trait families hold *)
Definition name_first (sk : list step) : bool :=
  match (match sk with StNullReject :: r => r | _ => sk end) with
  | StRead None SrcString true ({| at_fam := None; at_conv := _ |} :: _) :: _ => true
  | _ => false
  end.
Definition null_checked (sk : list step) : bool := match sk with StNullReject :: _ => true | _ => false end.
Definition steps_complete (c : codec_id) (sk : list step) : bool :=
  name_first sk
  && steps_have SrcString (fam_attempt (FamKind KString c) CvTyped) sk
  && match c with
     | CoText => true
     | _ => steps_have SrcU64 (fam_attempt (FamKind KUint64 c) CvChecked) sk
            && steps_have SrcI64 (fam_attempt (FamKind KInt64 c) CvChecked) sk
     end
  && existsb (step_has_native c) sk.
Definition gate_eqb (a b : gate) : bool :=
  match a, b with
  | GFlag n p, GFlag n' p' => String.eqb n n' && Bool.eqb p p'
  | GCond n p, GCond n' p' => String.eqb n n' && Bool.eqb p p'
  | GRange n, GRange n' => String.eqb n n'
  | _, _ => false
  end.
Fixpoint list_eqb {A} (eqb : A -> A -> bool) (a b : list A) : bool :=
  match a, b with
  | [], [] => true
  | x :: a', y :: b' => eqb x y && list_eqb eqb a' b'
  | _, _ => false
  end.
Definition gates_are (flag : string) (gs : list gate) : bool := list_eqb gate_eqb gs [GFlag flag true].
Definition codec_flag (c : codec_id) : string :=
  match c with CoJSON => "GenJSON" | CoYAML => "GenYAML" | CoText => "GenText" end.
Definition dskel_ok (c : codec_id) (d : dskel) : bool :=
  gates_are (codec_flag c) (ds_gates d)
  && steps_sound c (ds_steps d) && steps_complete c (ds_steps d)
  && match c with CoText => true | _ => null_checked (ds_steps d) end.

(* Parse<T> and the small functions: structural identity with the current skeleton (any change of
   their control structure is a change of behaviour) *)
Definition pkey_eqb (a b : pkey) : bool := match a, b with PkInput, PkInput | PkLowerText, PkLowerText => true | _, _ => false end.
Definition pconst_eqb (a b : pconst) : bool :=
  match a, b with PcName, PcName | PcLowerName, PcLowerName | PcTraits, PcTraits => true | _, _ => false end.
Definition vsrc_eqb (a b : vsrc) : bool := match a, b with VsAll, VsAll | VsDedup, VsDedup => true | _, _ => false end.
Definition pswitch_eqb (a b : pswitch) : bool :=
  pkey_eqb (sw_key a) (sw_key b) && vsrc_eqb (sw_over a) (sw_over b) && list_eqb pconst_eqb (sw_consts a) (sw_consts b).
Definition parse_skel_ok (sk : list pstep) : bool :=
  match sk with
  | [PsSwitch a; PsIfFlag fl [PsSwitch b]] =>
      pswitch_eqb a {| sw_key := PkInput; sw_over := VsAll; sw_consts := [PcName; PcTraits] |}
      && String.eqb fl "CaseInsensitive"
      && pswitch_eqb b {| sw_key := PkLowerText; sw_over := VsAll; sw_consts := [PcLowerName] |}
  | _ => false
  end.
Definition enc_eqb (a b : enc_skel) : bool :=
  match a, b with
  | EncJSONOfString, EncJSONOfString | EncBytesOfString, EncBytesOfString | EncString, EncString => true
  | _, _ => false
  end.
Definition small_ok (k : skels) : bool :=
  enc_eqb (sk_enc_json k) EncJSONOfString && enc_eqb (sk_enc_text k) EncBytesOfString && enc_eqb (sk_enc_yaml k) EncString
  && list_eqb (list_eqb gate_eqb) (sk_enc_gates k) [[GFlag "GenJSON" true]; [GFlag "GenText" true]; [GFlag "GenYAML" true]]
  && list_eqb gate_eqb (sk_parse_gates k) []
  && sk_parsestring k && sk_parsegeneric k
  && match sk_table k with TblNames VsDedup => true | _ => false end
  && match sk_values k with ValCloneOfTable => true | _ => false end
  && match sk_stringvalues k with TblNames VsDedup => true | _ => false end
  && match sk_string k with StrSwitch VsDedup pre suf => String.eqb pre "Undefined" && String.eqb suf ":%d" | _ => false end
  && match sk_isvalid k with IvThreshold VsAll 15 MemBinarySearch MemLinear => true | _ => false end
  && match sk_accessor k with AccSwitchRowsElseZero => true | _ => false end
  && list_eqb (list_eqb gate_eqb) (sk_plain_gates k) [[]; []; []; []; []; []]
  && list_eqb gate_eqb (sk_accessor_gates k) [GRange "index $.Traits $i"].
Definition skels_ok (k : skels) : bool :=
  dskel_ok CoJSON (sk_json k) && dskel_ok CoText (sk_text k) && dskel_ok CoYAML (sk_yaml k)
  && parse_skel_ok (sk_parse k) && small_ok k.

(* ---- what the ties assume about the package genum/gen as the compiler sees it (all files matching the build
   context, read by harness/cmd/xlate_genum_skel through harness/internal/srcset) *)
Record srcfacts := {
  sf_embeds : list string;            (* "<var> <- <file>" for every //go:embed of the package *)
  sf_construct : string;              (* the expression the template value is built from (a .Funcs(…) would show here) *)
  sf_template_users : list string;    (* functions that mention the template value *)
  sf_vars : list string;              (* every package-level variable with the functions (init included) that write to it *)
  sf_inits : list string;             (* files declaring an init function *)
  sf_excluded : list string;          (* .go files of the directory rejected by build constraints *)
  sf_template_files : list string;    (* template files lying in the directory *)
  sf_template_methods : list string   (* methods of the package (Recv.Name) and template functions the template calls *)
}.
(* one template file, embedded into one variable nobody writes to, parsed without a function map, executed by
   Write only; no init functions, no build-constrained files; NO package-level mutable state (no variable
   besides the template, its text and the read-only table of reserved identifiers; none of them written to);
   the template calls exactly the 14 GetParsable… methods (tied by Tie_GEnumTraits), ValueDeduplicatedSet,
   LowerCaseName, ParsableValuesOf, TraitInstance.Value (generator layer: tied by the farm) and the builtins
   gt / index / len *)
Definition srcfacts_ok (f : srcfacts) : bool :=
  list_eqb String.eqb (sf_embeds f) ["tmpl <- enumTemplate.gotmpl"]
  && String.eqb (sf_construct f) "template.Must(template.New(""genum"").Parse(tmpl))"
  && list_eqb String.eqb (sf_template_users f) ["Write"]
  && list_eqb String.eqb (sf_vars f) ["enumTemplate written by []"; "reservedIdentifiers written by []"; "tmpl written by []"]
  && list_eqb String.eqb (sf_inits f) [] && list_eqb String.eqb (sf_excluded f) []
  && list_eqb String.eqb (sf_template_files f) ["enumTemplate.gotmpl"]
  && list_eqb String.eqb (sf_template_methods f)
       ["TraitDescs.GetParsableJSONUnmarshalable"; "TraitDescs.GetParsableTextUnmarshalable";
        "TraitDescs.GetParsableUnderlyingFloat32ForJSON"; "TraitDescs.GetParsableUnderlyingFloat32ForYAML";
        "TraitDescs.GetParsableUnderlyingFloat64ForJSON"; "TraitDescs.GetParsableUnderlyingFloat64ForYAML";
        "TraitDescs.GetParsableUnderlyingInt64ForJSON"; "TraitDescs.GetParsableUnderlyingInt64ForYAML";
        "TraitDescs.GetParsableUnderlyingStringForJSON"; "TraitDescs.GetParsableUnderlyingStringForText";
        "TraitDescs.GetParsableUnderlyingStringForYAML"; "TraitDescs.GetParsableUnderlyingUint64ForJSON";
        "TraitDescs.GetParsableUnderlyingUint64ForYAML"; "TraitDescs.GetParsableYAMLUnmarshalable";
        "Value.LowerCaseName"; "TraitDescs.ParsableValuesOf"; "TraitInstance.Value"; "Values.ValueDeduplicatedSet";
        "func:gt"; "func:index"; "func:len"].

(* ---- the functions of the current template *)
Definition try_all (t : tables) (inputs : list dyn) : option Z := try_with (sem_parse t) inputs.
Definition json_attempts (t : tables) (v : jview) : list dyn := json_attempts_sk cur_skels t v.
Definition yaml_attempts (t : tables) (v : yview) : list dyn := yaml_attempts_sk cur_skels t v.
Definition text_attempts (t : tables) (v : tview) : list dyn := text_attempts_sk cur_skels t v.
Definition decode_json (t : tables) (v : jview) : option Z := decode_json_sk cur_skels t v.
Definition decode_yaml (t : tables) (v : yview) : option Z := decode_yaml_sk cur_skels t v.
Definition decode_text (t : tables) (v : tview) : option Z := decode_text_sk cur_skels t v.
(* earlier versions of the template, as skeletons (records of repaired defects):
   before fix C05-json-null-rejected (no null check) *)
Definition decode_json_nullok (t : tables) (v : jview) : option Z :=
  run_steps (sem_parse t) t (dv_of_j v) (json_steps_gen false CvChecked).
(* before the range check: plain wrapping conversion *)
Definition decode_json_norc (t : tables) (v : jview) : option Z :=
  run_steps (sem_parse t) t (dv_of_j v) (json_steps_gen true CvTyped).
Definition decode_yaml_norc (t : tables) (v : yview) : option Z :=
  run_steps (sem_parse t) t (dv_of_y v) (yaml_steps_gen true CvTyped).
(* the pinned code: the numeric fallbacks guarded by err != nil — they run when strconv FAILED, with 0 *)
Definition decode_yaml_orig (t : tables) (v : yview) : option Z :=
  run_steps (sem_parse t) t (dv_of_y v) (yaml_steps_gen2 false false CvTyped).
(* before fix C05-yaml-nonscalar-rejected: the node kind is not looked at *)
Definition decode_yaml_anykind (t : tables) (v : yview) : option Z :=
  run_steps (sem_parse t) t (dv_of_y v) (yaml_steps_gen2 false true CvChecked).

(* encoders: all three emit String() *)
Definition encode_json (t : tables) (e : Z) : string := quote (sem_string t e).
Definition encode_text (t : tables) (e : Z) : string := sem_string t e.
Definition encode_yaml (t : tables) (e : Z) : string := sem_string t e.   (* MarshalYAML's return value *)

(* ------------------------------------------------------------------ specification *)

(* ascending list of the distinct defined values *)
Definition values_spec (cs : list const) : list Z :=
  isort Z.ltb (nodup Z.eq_dec (map c_val cs)).

Fixpoint min_string (x : string) (l : list string) : string :=
  match l with
  | [] => x
  | y :: r => if str_ltb y x then min_string y r else min_string x r
  end.
Definition least (l : list string) : option string :=
  match l with [] => None | x :: r => Some (min_string x r) end.

(* primary name of value v: least non-deprecated name, or least name when all are deprecated *)
Definition primary (cs : list const) (v : Z) : option string :=
  let mine := filter (fun c => Z.eqb (c_val c) v) cs in
  match least (map c_name (filter (fun c => negb (c_dep c)) mine)) with
  | Some n => Some n
  | None => least (map c_name mine)
  end.

Definition string_spec (d : defn) (v : Z) : string :=
  match primary (d_consts d) v with
  | Some n => n
  | None => undefined_string (d_ty d) v
  end.

(* the constant that supplies the traits of value v: the one carrying the primary name *)
Definition primary_const (cs : list const) (v : Z) : option const :=
  match primary cs v with
  | Some n => find (fun c => String.eqb (c_name c) n) cs
  | None => None
  end.

(* names and (for -caseInsensitive) their case variants *)
Definition name_value (cs : list const) (s : string) : option Z :=
  match find (fun c => String.eqb (c_name c) s) cs with
  | Some c => Some (c_val c)
  | None => None
  end.
Definition name_value_ci (cs : list const) (s : string) : option Z :=
  match find (fun c => String.eqb (to_lower (c_name c)) (to_lower s)) cs with
  | Some c => Some (c_val c)
  | None => None
  end.

(* ---- spec-level view of traits: columns are named on the line of the least (value, name) *)
Definition const_less (a b : const) : bool :=
  if c_val a =? c_val b then str_ltb (c_name a) (c_name b) else c_val a <? c_val b.
(* the constant whose line names the traits: the first in ascending (value, name) order *)
Definition lowest_const (cs : list const) : option const := hd_error (isort const_less cs).
Definition column_names (d : defn) : list string :=
  match lowest_const (d_consts d) with
  | Some c => map (fun cl => trim_underscore (cl_var cl)) (c_cells c)
  | None => []
  end.
(* (column name, cell) pairs of a constant *)
Definition named_cells (d : defn) (c : const) : list (string * cell) := combine (column_names d) (c_cells c).
Definition parsable_cells (d : defn) (o : opts) (c : const) : list cell :=
  if o_notraits o then []
  else map snd (filter (fun p => str_mem (fst p) (o_parsable o)) (named_cells d c)).
(* is the dynamic value x the value of a parsable trait (of any constant)? *)
Definition is_parsable_trait_value (d : defn) (o : opts) (x : dyn) : bool :=
  existsb (fun c => existsb (fun cl => dyn_eqb x (cl_val cl)) (parsable_cells d o c)) (d_consts d).


(* the cell of column col on the primary definition line of value e *)
Definition primary_cell (d : defn) (col : string) (e : Z) : option cell :=
  match primary_const (d_consts d) e with
  | Some c => match find (fun p => String.eqb (fst p) col) (named_cells d c) with
              | Some p => Some (snd p)
              | None => None
              end
  | None => None
  end.
Definition column_zero (d : defn) (col : string) : payload :=
  match lowest_const (d_consts d) with
  | Some l => match find (fun p => String.eqb (fst p) col) (named_cells d l) with
              | Some p => match lookup (dty (cl_val (snd p))) (d_types d) with
                          | Some ti => zero_payload (ti_bkind ti)
                          | None => PInt 0
                          end
              | None => PInt 0
              end
  | None => PInt 0
  end.
Definition accessor_spec (d : defn) (col : string) (e : Z) : payload :=
  match primary_cell d col e with
  | Some cl => dval (cl_val cl)
  | None => column_zero d col
  end.

