(* SetCodecModel.v — mirror of the four codec methods of /repo/set/set.go (no proofs).

   MarshalJSON    json.Marshal(s.Slice())            set_marshal  (nil slice when empty)
   UnmarshalJSON  decode []T, then s.Add(v...)       set_unmarshal
   MarshalYAML    returns s.Slice()                  set_marshal
   UnmarshalYAML  decode []T, then s.Add(temp...)    set_unmarshal

   The element codec of the library is a Section variable: [enc] renders an optional listing
   (None = Go's nil slice: JSON `null`, YAML `[]`), [dec] parses a document into a listing or
   fails.  Its assumed behaviour (dec (enc l) = Some l) is a hypothesis of the theorems, named
   in the trusted base and validated per case by the correspondence run.                     *)
From Coq Require Import List Bool.
From GT Require Import SetModel.
Import ListNotations.

Section SetCodec.
  Variable T : Type.
  Variable eqb : T -> T -> bool.
  Variable doc : Type.
  Variable enc : option (list T) -> doc.
  Variable dec : doc -> option (list T).

  (* [order]: the keys in the order the runtime ranges over the map while building Slice() *)
  Definition listing (order : list T) : option (list T) :=
    match order with [] => None | l => Some l end.
  Definition set_marshal (order : list T) : doc := enc (listing order).
  Definition set_unmarshal (t : sset T) (d : doc) : option (sset T) :=
    match dec d with
    | Some l => Some (fst (s_add eqb t l))
    | None => None
    end.
End SetCodec.
Arguments listing {T}. Arguments set_marshal {T doc}. Arguments set_unmarshal {T} eqb {doc}.
