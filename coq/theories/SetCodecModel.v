(* SetCodecModel.v — mirror of the four codec methods of /repo/set/set.go (no proofs).

   MarshalJSON    json.Marshal(s.Slice())                     set_marshal  (nil slice when empty)
   UnmarshalJSON  var v []T; json.Unmarshal(data, &v);        set_unmarshal
                  then s.Add(v...)
   MarshalYAML    returns s.Slice()                           set_marshal
   UnmarshalYAML  temp := []T{}; value.Decode(&temp);         set_unmarshal
                  then s.Add(temp...)

   Section SetCodec: the library's codec of a listing is a Section variable.  [enc] renders an
   optional listing (None = Go's nil slice: JSON `null`, YAML `[]`); [dec d v0] parses document
   [d] INTO a slice variable whose current value is [v0] (both libraries decode into existing
   storage; set.go always hands them a fresh empty slice, so only [dec d []] is used) or fails.

   Section ArrayLayer: a concrete executable model of the sequence layer of both libraries —
   framing of a listing as null / array of element documents and decoding of an array INTO a
   slice value — over an element codec [enc_elem] / [dec_elem e old] ("decode element document
   e into a variable that currently holds old": encoding/json and yaml.v3 MERGE into an
   existing struct, so the result may depend on old).  [arr_dec] is what json.Unmarshal /
   Node.Decode do for a []T; [dec_reused] is a decoder that streams the array into ONE reused
   variable (element k is decoded into the value element k-1 left behind); SetCodecProofs shows
   that the first round-trips under the hypothesis "an element decodes from its encoding into a
   fresh zero value", and that the second does not.                                           *)
From Coq Require Import List Bool.
From GT Require Import SetModel.
Import ListNotations.

Section SetCodec.
  Variable T : Type.
  Variable eqb : T -> T -> bool.
  Variable doc : Type.
  Variable enc : option (list T) -> doc.
  Variable dec : doc -> list T -> option (list T).

  (* [order]: the keys in the order the runtime ranges over the map while building Slice() *)
  Definition listing (order : list T) : option (list T) :=
    match order with [] => None | l => Some l end.
  Definition set_marshal (order : list T) : doc := enc (listing order).
  Definition set_unmarshal (t : sset T) (d : doc) : option (sset T) :=
    match dec d [] with
    | Some l => Some (fst (s_add eqb t l))
    | None => None
    end.
End SetCodec.
Arguments listing {T}. Arguments set_marshal {T doc}. Arguments set_unmarshal {T} eqb {doc}.

Section ArrayLayer.
  Variable T : Type.      (* element type *)
  Variable E : Type.      (* encoded element (a JSON value / YAML node) *)
  Variable zero : T.      (* Go's zero value of T *)
  Variable enc_elem : T -> E.
  Variable dec_elem : E -> T -> option T.   (* decode e into a variable currently holding the 2nd argument *)

  Inductive adoc := ANull | AArr (es : list E).

  (* json.Marshal of a []T: null for the nil slice; yaml.v3: [] for the nil slice *)
  Definition arr_enc (null_for_nil : bool) (o : option (list T)) : adoc :=
    match o with
    | None => if null_for_nil then ANull else AArr []
    | Some l => AArr (map enc_elem l)
    end.

  (* decoding an array into a slice value v0: element i is decoded into v0's element i where it
     exists and into a fresh zero value beyond; the result has the document's length *)
  Fixpoint dec_into (es : list E) (v0 : list T) : option (list T) :=
    match es with
    | [] => Some []
    | e :: r =>
        match dec_elem e (hd zero v0) with
        | Some x => match dec_into r (tl v0) with Some l => Some (x :: l) | None => None end
        | None => None
        end
    end.
  Definition arr_dec (d : adoc) (v0 : list T) : option (list T) :=
    match d with
    | ANull => Some []            (* null: the slice is set to nil *)
    | AArr es => dec_into es v0
    end.

  (* a streaming decoder that reuses one variable for every element (NOT what set.go does) *)
  Fixpoint dec_reused (es : list E) (item : T) : option (list T) :=
    match es with
    | [] => Some []
    | e :: r =>
        match dec_elem e item with
        | Some x => match dec_reused r x with Some l => Some (x :: l) | None => None end
        | None => None
        end
    end.
  Definition arr_dec_reused (d : adoc) (v0 : list T) : option (list T) :=
    match d with
    | ANull => Some []
    | AArr es => dec_reused es zero
    end.
End ArrayLayer.
Arguments ANull {E}. Arguments AArr {E}.
Arguments arr_enc {T E}. Arguments arr_dec {T E}. Arguments dec_into {T E}.
Arguments dec_reused {T E}. Arguments arr_dec_reused {T E}.
