(* GenDetWholeProofs.v — what a whole invocation hands to its template does not depend on the
   runtime's choices (GenDetWholeModel.v). *)
From Coq Require Import List Bool ZArith String Permutation.
From GT Require Import GSortModel GenDetModel GenDetProofs GenDetWholeModel Base.SortU.
Import ListNotations.

(* ------------------------------------------------------------------ gerror *)
Theorem gerror_table_indep : forall types srt srtp srtc srt' srtp' srtc',
  wf_gerror_in types ->
  sort_ok efield_lt srt -> sort_ok efield_lt srtp -> sort_ok efield_lt srtc ->
  sort_ok efield_lt srt' -> sort_ok efield_lt srtp' -> sort_ok efield_lt srtc' ->
  gerror_table srt srtp srtc types = gerror_table srt' srtp' srtc' types.
Proof.
  intros types srt srtp srtc srt' srtp' srtc' WF S1 S2 S3 S1' S2' S3'.
  unfold gerror_table. apply map_ext_in. intros [ty fs] Hin. cbn [fst snd].
  pose proof (WF ty fs Hin) as ND.
  rewrite (gerror_fields_indep srt srt' fs ND S1 S1').
  rewrite (fields_to_print_indep srt srt' srtp srtp' fs ND S1 S1' S2 S2').
  rewrite (fields_to_clone_indep srt srt' srtc srtc' fs ND S1 S1' S3 S3').
  reflexivity.
Qed.

(* ------------------------------------------------------------------ genum *)
Lemma tdesc_eq : forall a b,
  td_name a = td_name b -> td_typeref a = td_typeref b -> td_parsable a = td_parsable b ->
  td_insts a = td_insts b -> a = b.
Proof. intros [] []; cbn; intros; subst; reflexivity. Qed.

Lemma columns_unique : forall ts cols cols',
  (forall t, In t ts -> NoDup (map (fun x => ev_name (ti_owner x)) (td_insts t))) ->
  Forall2 column_sorted ts cols -> Forall2 column_sorted ts cols' -> cols = cols'.
Proof.
  induction ts as [|t r IH]; intros cols cols' ND F F'.
  - inversion F; inversion F'; reflexivity.
  - inversion F as [|? c ? cr Hc Fr]; subst. inversion F' as [|? c' ? cr' Hc' Fr']; subst.
    f_equal.
    + destruct Hc as (N & R & P & Pm & Sd), Hc' as (N' & R' & P' & Pm' & Sd').
      apply tdesc_eq; try congruence.
      apply (genum_insts_indep_local (td_insts t)).
      * apply ND. left. reflexivity.
      * split; assumption.
      * split; assumption.
    + apply IH; try assumption. intros x Hx. apply ND. right. exact Hx.
Qed.

Lemma columns_names : forall ts cols,
  Forall2 column_sorted ts cols -> map td_name cols = map td_name ts.
Proof.
  induction 1 as [|t c r cr Hc _ IH]; [reflexivity|].
  cbn [map]. destruct Hc as (N & _). rewrite N, IH. reflexivity.
Qed.

(* two runs of Parse over one enum definition hand the same values and the same traits to the
   template, whatever arrangement the sorts by Value.Less produce, whatever order the duplicate
   groups are visited in, whatever the sort of the traits does with ties *)
Theorem genum_run_functional : forall i o o',
  wf_genum_in i -> genum_run i o -> genum_run i o' -> o = o'.
Proof.
  intros i [vs ts] [vs' ts'] (NDc & NDt & NDi) R R'.
  destruct R as (P & S & cols & pi & srt & F & Hpi & Hsrt & E).
  destruct R' as (P' & S' & cols' & pi' & srt' & F' & Hpi' & Hsrt' & E').
  cbn [go_values go_traits] in *.
  assert (Ev : vs = vs').
  { apply (genum_values_indep_local (gi_consts i)); [exact NDc|split; assumption|split; assumption]. }
  subst vs'. assert (Ec : cols = cols') by (apply (columns_unique (gi_traits i)); assumption).
  subst cols'. f_equal. rewrite E, E'.
  apply process_dups_indep; try assumption.
  rewrite (columns_names _ _ F). exact NDt.
Qed.

(* such runs exist when the constants have one signedness (they are of one Go type) *)
Theorem genum_run_exists : forall i sg,
  (forall v, In v (gi_consts i) -> ev_signed v = sg) ->
  (forall t x, In t (gi_traits i) -> In x (td_insts t) -> ev_signed (ti_owner x) = sg) ->
  exists o, genum_run i o.
Proof.
  intros i sg Hc Hi.
  set (cols := map (fun t => {| td_name := td_name t; td_typeref := td_typeref t;
                                td_parsable := td_parsable t;
                                td_insts := isort inst_lt (td_insts t) |}) (gi_traits i)).
  exists {| go_values := isort value_lt (gi_consts i);
            go_traits := process_dups (fun l => l) (isort trait_lt) (isort value_lt (gi_consts i)) cols |}.
  destruct (value_lt_sorts_uniform sg (gi_consts i) Hc) as [P S].
  split; [exact P|]. split; [exact S|].
  exists cols, (fun l => l), (isort trait_lt). repeat split.
  - subst cols. induction (gi_traits i) as [|t r IH]; [constructor|].
    cbn [map]. constructor.
    + destruct (inst_lt_sorts_uniform sg (td_insts t)) as [Pt St].
      { intros x Hx. apply (Hi t x); [left; reflexivity|exact Hx]. }
      repeat split; assumption.
    + apply IH. intros t' x Ht' Hx. apply (Hi t' x); [right; exact Ht'|exact Hx].
  - intros m. apply Permutation_refl.
  - apply sort_ok_trait.
  - apply sort_ok_trait.
Qed.
