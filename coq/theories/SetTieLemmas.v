(* SetTieLemmas.v — the hand-written model of set.go (SetModel.v / SetCodecModel.v) restated
   over the map and slice primitives the regenerated files are written in (SetGenPrims.v), plus
   the two loop lemmas for Slice().  The tie files prove `generated = canonical form` with the
   shape-independent tactics of Base/SetLoopTie.v and close with these equations.

   [wfn s] is the representation invariant "a nil map has no keys" (part of SetProofs.wf,
   preserved by every operation).                                                            *)
From Coq Require Import List Bool Arith Lia.
Import ListNotations.
From GT Require Import Base.SetLoopTie SetModel SetGenPrims.

Section Canon.
  Variable T : Type.
  Variable eqb : T -> T -> bool.
  Definition wfn (s : sset T) : Prop := is_nil s = true -> elems s = [].

  Definition put_step (m : sset T) (x : T) : sset T := set_put eqb m x.
  Definition add_step' (st : sset T * bool) (x : T) : sset T * bool :=
    (set_put eqb (fst st) x, snd st || negb (set_has eqb (fst st) x)).
  Definition rem_step' (st : sset T * bool) (x : T) : sset T * bool :=
    (set_del eqb (fst st) x, snd st || set_has eqb (fst st) x).
  Definition alloc (s : sset T) : sset T := if set_is_nil s then mk_empty else s.

  Lemma put_fold items : forall m,
    fold_left put_step items m
    = {| is_nil := is_nil m; elems := fold_left (fun l x => insert eqb x l) items (elems m) |}.
  Proof.
    induction items as [|x xs IH]; intros m; cbn [fold_left].
    - destruct m; reflexivity.
    - rewrite IH. reflexivity.
  Qed.

  Lemma s_make_canon items : s_make eqb items = fold_left put_step items mk_empty.
  Proof. rewrite put_fold. reflexivity. Qed.

  Lemma add_fold' items : forall m a,
    fold_left add_step' items (m, a)
    = (let '(l, ad) := fold_left (add_step eqb) items (elems m, a) in
       ({| is_nil := is_nil m; elems := l |}, ad)).
  Proof.
    induction items as [|x xs IH]; intros m a; cbn [fold_left].
    - destruct m; reflexivity.
    - unfold add_step' at 2. cbn [fst snd]. rewrite IH. reflexivity.
  Qed.

  Lemma s_add_canon s items : wfn s ->
    s_add eqb s items = fold_left add_step' items (alloc s, false).
  Proof.
    intros Hw. rewrite add_fold'. unfold s_add, alloc, set_is_nil.
    destruct (is_nil s) eqn:En.
    - rewrite (Hw En). reflexivity.
    - rewrite En. reflexivity.
  Qed.

  Lemma rem_fold' items : forall m a,
    fold_left rem_step' items (m, a)
    = (let '(l, r) := fold_left (rem_step eqb) items (elems m, a) in
       ({| is_nil := is_nil m; elems := l |}, r)).
  Proof.
    induction items as [|x xs IH]; intros m a; cbn [fold_left].
    - destruct m; reflexivity.
    - unfold rem_step' at 2. cbn [fst snd]. rewrite IH. reflexivity.
  Qed.

  Lemma s_remove_canon s items :
    s_remove eqb s items
    = if Nat.eqb (set_len s) 0 then (s, false) else fold_left rem_step' items (s, false).
  Proof.
    unfold s_remove, set_len. destruct (Nat.eqb (length (elems s)) 0); [reflexivity|].
    rewrite rem_fold'. reflexivity.
  Qed.

  Lemma s_has_canon s items :
    s_has eqb s items
    = if Nat.eqb (set_len s) 0 then false else forallb (fun x => set_has eqb s x) items.
  Proof. reflexivity. Qed.

  Lemma s_hasany_canon s items :
    s_hasany eqb s items
    = if Nat.eqb (set_len s) 0 then false else existsb (fun x => set_has eqb s x) items.
  Proof. reflexivity. Qed.

  Lemma s_slice_canon (s : sset T) :
    @s_slice T s = if Nat.eqb (set_len s) 0 then None else Some (set_keys s).
  Proof. unfold s_slice, set_len, set_keys. destruct (elems s); reflexivity. Qed.

  Lemma sl_items_slice (s : sset T) : sl_items (s_slice s) = elems s.
  Proof. unfold s_slice. destruct (elems s); reflexivity. Qed.

  (* ---- Slice(): filling a pre-sized slice through a running index / appending to an empty one ---- *)
  Definition fill_step (st : nat * option (list T)) (v : T) : nat * option (list T) :=
    (S (fst st), sl_set (snd st) (fst st) v).

  Lemma list_upd_app (pre : list T) x rest y :
    list_upd (pre ++ x :: rest) (length pre) y = pre ++ y :: rest.
  Proof. induction pre as [|p pre IH]; [reflexivity|]. cbn. rewrite IH. reflexivity. Qed.

  Lemma fill_fold_gen (zero : T) keys : forall pre,
    fold_left fill_step keys (length pre, Some (pre ++ repeat zero (length keys)))
    = (length pre + length keys, Some (pre ++ keys)).
  Proof.
    induction keys as [|k ks IH]; intros pre.
    - cbn. rewrite Nat.add_0_r, app_nil_r. reflexivity.
    - cbn [fold_left length repeat]. unfold fill_step at 2. cbn [fst snd sl_set].
      rewrite list_upd_app.
      replace (pre ++ k :: repeat zero (length ks)) with ((pre ++ [k]) ++ repeat zero (length ks))
        by (rewrite <- app_assoc; reflexivity).
      replace (S (length pre)) with (length (pre ++ [k])) by (rewrite app_length; cbn; lia).
      rewrite IH. rewrite app_length, <- app_assoc. cbn. f_equal. lia.
  Qed.

  Lemma fill_fold_sim {A : Type} (zero : T) (h : A -> nat * option (list T)) (F : A -> T -> A) :
    (forall a v, h (F a v) = fill_step (h a) v) ->
    forall keys i0, h i0 = (0, sl_make zero (length keys)) ->
    h (fold_left F keys i0) = (length keys, Some keys).
  Proof.
    intros Hs keys i0 H0. rewrite (fold_left_sim h F fill_step Hs), H0.
    exact (fill_fold_gen zero keys []).
  Qed.

  Lemma append_fold_sim {A : Type} (h : A -> option (list T)) (F : A -> T -> A) :
    (forall a v, h (F a v) = sl_append (h a) v) ->
    forall keys i0 pre, h i0 = Some pre ->
    h (fold_left F keys i0) = Some (pre ++ keys).
  Proof.
    intros Hs keys i0 pre H0. rewrite (fold_left_sim h F (@sl_append T) Hs), H0. clear.
    revert pre. induction keys as [|k ks IH]; intros pre; cbn [fold_left].
    - rewrite app_nil_r. reflexivity.
    - unfold sl_append at 2. cbn [sl_items]. rewrite IH, <- app_assoc. reflexivity.
  Qed.
End Canon.
Arguments wfn {T}. Arguments put_step {T}. Arguments add_step' {T}. Arguments rem_step' {T}.
Arguments alloc {T}. Arguments fill_step {T}.

(* ---- tactics for Slice() ---- *)
Ltac slice_h T zero F l i h :=
  first
    [ let E := fresh "E" in
      assert (E : h (fold_left F l i) = (length l, Some l))
        by (apply (fill_fold_sim T zero h F);
            [ let a := fresh "st" in let v := fresh "v" in
              intros a v; destruct_tuple a; unfold fill_step; bool_crush
            | reflexivity ]);
      revert E; generalize (fold_left F l i);
      let p := fresh "p" in let E' := fresh "E" in
      intros p E'; destruct_tuple p; unfold pid, pswap in E'; cbn [fst snd] in E';
      injection E' as ? ?; subst; reflexivity
    | let E := fresh "E" in
      assert (E : h (fold_left F l i) = Some ([] ++ l))
        by (apply (append_fold_sim T h F);
            [ let a := fresh "st" in let v := fresh "v" in
              intros a v; destruct_tuple a; bool_crush
            | reflexivity ]);
      revert E; generalize (fold_left F l i);
      let p := fresh "p" in let E' := fresh "E" in
      intros p E'; destruct_tuple p; unfold pid, pswap in E'; cbn [fst snd app] in E';
      subst; reflexivity ].

Ltac slice_tie T zero :=
  match goal with
  | |- context [fold_left ?F ?l ?i] =>
      let A := type of i in
      first
        [ solve [ slice_h T zero F l i (@pid A) ]
        | lazymatch A with
          | (?A1 * ?A2)%type =>
              first [ solve [ slice_h T zero F l i (@pswap A1 A2) ] | solve [ slice_h T zero F l i (@fst A1 A2) ]
                    | solve [ slice_h T zero F l i (@snd A1 A2) ] ]
          end ]
  end.

(* goal:  <regenerated body of Slice on s, unfolded> = s_slice s *)
Ltac slice_goal T zero s :=
  rewrite (s_slice_canon T s); unfold set_keys, set_len; cbv zeta;
  let Ekeys := fresh "Ekeys" in
  destruct (elems s) as [|? ?] eqn:Ekeys; cbn [length Nat.eqb Nat.ltb Nat.leb negb]; [reflexivity|];
  rewrite <- Ekeys;
  match goal with
  | |- context [S (length ?l)] =>
      replace (S (length l)) with (length (elems s)) by (rewrite Ekeys; reflexivity)
  | _ => idtac
  end;
  slice_tie T zero.
