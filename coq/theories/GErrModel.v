(* GErrModel.v — executable mirror of /repo/gerror (gerror.go, factory.go) and of the code the
   gerror generator emits (gen/gerror.gotmpl, gen/generate.go).  No proofs here.

   Objects live in an explicit store (a list of cells); a pointer is the index of its cell and
   "fresh allocation" is [length store].  A cell holds one GError record and, when that record
   is the embedded GError of a generated extension struct, the struct's other fields.

   Go source (current tree)                                model
   -----------------------------------------------------   -----------------------------------
   type GError struct{Name,Message,Source,detailTag,       gerr (g_name g_msg g_src g_dtag g_stack
        stack,factoryRef,srcError,isFactory}                      g_fref g_serr g_isfac)
   an `error` interface value                              val: VNil | VG i (ptr to GError of cell i)
                                                                | VX i (ptr to Ext whose embedded GError
                                                                  is cell i) | VF .. (foreign)
   a == b on interface values (panics when both hold       iface_eq
        the same non-comparable dynamic type)
   factory.go  FactoryOf                                   factory_of
   factory.go  CloneBase (source / tag / message /         clone_base   (same order of tests)
        inheritance / srcError / stack rules)
   stack.go    makeStack + NearestExternal().Metric()      oracle inputs of a call: a_site (which
                                                           call made the stack), a_derived (the
                                                           derived source string of the call site)
   gerror.go   the 19 Factory methods                      base_wiring + call (per-method argument
                                                           wiring, Convert's early return)
   gerror.gotmpl  the 19 generated methods,                ext_wiring + call, to_primary
        toPrimaryType
   gerror.go   Error()  / gotmpl Error()                   error_head / ext_error_head
   gerror.go   Unwrap, Is, _embededGError,                 unwrap_val, gerr_is, as_gerror,
        ExtractFactoryReference                            extract_fref
   errors.Is (stdlib, go1.23 errors/wrap.go)               errors_is
   generate.go createField (tag name "_", options)         print_name, f_print, f_clone

   Records of the pinned (pre-fix) code kept for the refutation theorems:
   [gerr_is_gen false] = Is without the comparability guard on srcError (panics);
   [clone_base_orig]   = CloneBase before laterSrcErrors existed (a second Convert was lost);
   [ext_wiring_orig]   = template whose SrcS stanza passes "" instead of src.                  *)
From Coq Require Import NArith List Bool.
From GT Require Import Base.GErrStr.
Import ListNotations.

(* ---------------------------------------------------------------- values and the store *)
Inductive stack_type := NoStack | SourceStack | ShortStack | DefaultStack.

Inductive val :=
| VNil
| VG (i : nat)
| VX (i : nat)
(* foreign error: dynamic type = (tid, cmp) where cmp says whether the type is comparable;
   payload = identity of the value under == (address for pointer types, contents otherwise);
   unw = what its Unwrap method returns (VNil: no Unwrap method or it returns nil) *)
| VF (tid : N) (cmp : bool) (payload : N) (unw : val).

Record gerr := mkG {
  g_name : str; g_msg : str; g_src : str; g_dtag : str;
  g_stack : option N;          (* Some site = non-empty stack made by the call at [site] *)
  g_fref : val; g_serr : val;
  g_later : list val;          (* laterSrcErrors: errors of further Convert calls *)
  g_isfac : bool }.

(* one extra field of an extension struct, with its parsed `gerror:"name,opts"` tag *)
Record xfield := mkF {
  f_name : str;
  f_tagged : bool;             (* carries a gerror tag at all *)
  f_tagname : str;             (* tag name; "_" means: use the field name *)
  f_opts : list str;           (* tag options as written *)
  f_val : str;                 (* %v rendering of the current value *)
  f_zero : str }.              (* %v rendering of the zero value of the field's type *)

Record xinfo := mkX { x_type : N; x_fields : list xfield }.
Record cell := mkC { c_g : gerr; c_x : option xinfo }.
Definition store := list cell.

Inductive res (A : Type) := Ok (a : A) | Panic | Fuel.
Arguments Ok {A} a. Arguments Panic {A}. Arguments Fuel {A}.

Definition bind_true (r : res bool) (k : unit -> res bool) : res bool :=
  match r with Ok true => Ok true | Ok false => k tt | Panic => Panic | Fuel => Fuel end.

Definition is_nil (v : val) : bool := match v with VNil => true | _ => false end.
Definition is_gerr_val (v : val) : bool := match v with VG _ | VX _ => true | _ => false end.

(* err.(Error): which cell's GError carries the promoted methods *)
Definition as_gerror (v : val) : option nat :=
  match v with VG i | VX i => Some i | _ => None end.

Definition lookup (st : store) (v : val) : option gerr :=
  match as_gerror v with Some i => option_map c_g (nth_error st i) | None => None end.

(* Go's == on two interface values *)
Definition iface_eq (a b : val) : res bool :=
  match a, b with
  | VNil, VNil => Ok true
  | VG i, VG j => Ok (Nat.eqb i j)
  | VX i, VX j => Ok (Nat.eqb i j)
  | VF t c p _, VF t' c' p' _ =>
      if N.eqb t t' && Bool.eqb c c' then (if c then Ok (N.eqb p p') else Panic) else Ok false
  | _, _ => Ok false
  end.

(* Comparability of a foreign VALUE: [cmp] says whether == on this value (against a value of the
   same dynamic type) is defined, i.e. does not panic = reflect.ValueOf(v).Comparable().  A
   dynamic TYPE can be comparable although a value of it is not: a struct or array type with an
   interface-typed field is a comparable type, but == panics at run time when that field holds a
   slice, map or function.  Such "deeply non-comparable" values are the foreign errors with
   cmp = false and a type id from 200 on: their type is comparable, they are not.  (Dynamic
   type = (tid, cmp), so E{[]int{1}} and E{7} compare unequal without a panic, as in Go, where
   the comparison of the interface fields sees different dynamic types.) *)
Definition deep_tid (t : N) : bool := N.leb 200 t.

(* a deeply non-comparable value: comparable type, non-comparable value *)
Definition deep (v : val) : bool :=
  match v with VF t c _ _ => negb c && deep_tid t | _ => false end.

(* reflect.ValueOf(v).Comparable() *)
Definition comparable (v : val) : bool := match v with VF _ c _ _ => c | _ => true end.

(* reflect.TypeOf(v).Comparable() *)
Definition type_comparable (v : val) : bool :=
  match v with VF t c _ _ => c || deep_tid t | _ => true end.

(* ---------------------------------------------------------------- CloneBase *)
Definition stack_type_eqb (a b : stack_type) : bool :=
  match a, b with
  | NoStack, NoStack | SourceStack, SourceStack | ShortStack, ShortStack
  | DefaultStack, DefaultStack => true
  | _, _ => false
  end.

Definition has_stack (g : gerr) : bool := match g_stack g with Some _ => true | None => false end.

(* base: *err._embededGError(); base_ptr: that pointer as an interface; err_ptr: err itself *)
Definition clone_base (base : gerr) (base_ptr err_ptr : val) (stt : stack_type)
           (dtag src ext : str) (serr : val) (site : N) (derived : str) : gerr :=
  let fref := if is_nil (g_fref base) then base_ptr else g_fref base in
  (* handle source *)
  let src1 := if nonempty src && is_empty (g_src base) then src else g_src base in
  (* handle detail tags *)
  let dtag1 := if is_empty dtag then g_dtag base
               else if is_empty (g_dtag base) then dtag else g_dtag base ++ dash ++ dtag in
  (* handle message extension *)
  let ext1 := trim_space ext in
  let msg1 := if is_empty ext1 then g_msg base
              else if is_empty (g_msg base) then ext1 else g_msg base ++ sp ++ ext1 in
  (* handle error inheritance (unreachable: fref holds a non-nil pointer) *)
  let fref1 := if is_nil fref && g_isfac base then err_ptr else fref in
  let serr1 := if is_nil (g_serr base) && negb (is_nil serr) then serr else g_serr base in
  (* a further converted error is appended (to a fresh slice) when srcError is already set *)
  let later1 := if is_nil (g_serr base) && negb (is_nil serr) then g_later base
                else if negb (is_nil serr) then g_later base ++ [serr] else g_later base in
  let clone := mkG (g_name base) msg1 src1 dtag1 (g_stack base) fref1 serr1 later1 false in
  if has_stack clone || stack_type_eqb stt NoStack
     || (stack_type_eqb stt SourceStack && nonempty src1)
  then clone
  else
    (* clone.stack = makeStack(stackType, defaultSkip) *)
    if is_empty src1
    then mkG (g_name base) msg1 derived dtag1
             (if stack_type_eqb stt SourceStack then None else Some site) fref1 serr1 later1 false
    else mkG (g_name base) msg1 src1 dtag1 (Some site) fref1 serr1 later1 false.

(* the code before the second-convert repair: no list of later converted errors *)
Definition drop_later (g : gerr) : gerr :=
  mkG (g_name g) (g_msg g) (g_src g) (g_dtag g) (g_stack g) (g_fref g) (g_serr g) [] (g_isfac g).
Definition clone_base_orig (base : gerr) (base_ptr err_ptr : val) (stt : stack_type)
           (dtag src ext : str) (serr : val) (site : N) (derived : str) : gerr :=
  drop_later (clone_base base base_ptr err_ptr stt dtag src ext serr site derived).

(* ---------------------------------------------------------------- the 19 Factory methods *)
Inductive method :=
| MBase | MSourceOnly | MStack | MSrc | MDTag | MMsg | MSrcDTagMsg | MSrcDTag | MSrcMsg
| MDTagMsg | MSrcS | MDTagS | MMsgS | MSrcDTagMsgS | MSrcDTagS | MSrcMsgS | MDTagMsgS
| MConvert | MConvertS.

Definition all_methods : list method :=
  [MBase; MSourceOnly; MStack; MSrc; MDTag; MMsg; MSrcDTagMsg; MSrcDTag; MSrcMsg; MDTagMsg;
   MSrcS; MDTagS; MMsgS; MSrcDTagMsgS; MSrcDTagS; MSrcMsgS; MDTagMsgS; MConvert; MConvertS].

(* argument expressions of a CloneBase call, over the enclosing method's own parameters *)
Inductive aexpr :=
| AEmpty            (* ""  *)
| ASrc              (* src *)
| ADTag             (* dTag *)
| AFmt              (* fmt.Sprintf(format, elems...) *)
| AOrig.            (* fmt.Sprintf("originalError: %+v", err) *)
Inductive eexpr := ENil | EErr.

Record wiring := mkW {
  w_guard : bool;       (* `if gerr, ok := err.(Error); ok { return gerr }` precedes the call *)
  w_stack : stack_type; w_dtag : aexpr; w_src : aexpr; w_msg : aexpr; w_serr : eexpr }.

(* gerror.go:67-168 *)
Definition base_wiring (m : method) : wiring :=
  match m with
  | MBase        => mkW false NoStack      AEmpty AEmpty AEmpty ENil
  | MSourceOnly  => mkW false SourceStack  AEmpty AEmpty AEmpty ENil
  | MStack       => mkW false DefaultStack AEmpty AEmpty AEmpty ENil
  | MSrc         => mkW false SourceStack  AEmpty ASrc   AEmpty ENil
  | MDTag        => mkW false SourceStack  ADTag  AEmpty AEmpty ENil
  | MMsg         => mkW false SourceStack  AEmpty AEmpty AFmt   ENil
  | MSrcDTagMsg  => mkW false SourceStack  ADTag  ASrc   AFmt   ENil
  | MSrcDTag     => mkW false SourceStack  ADTag  ASrc   AEmpty ENil
  | MSrcMsg      => mkW false SourceStack  AEmpty ASrc   AFmt   ENil
  | MDTagMsg     => mkW false SourceStack  ADTag  AEmpty AFmt   ENil
  | MSrcS        => mkW false DefaultStack AEmpty ASrc   AEmpty ENil
  | MDTagS       => mkW false DefaultStack ADTag  AEmpty AEmpty ENil
  | MMsgS        => mkW false DefaultStack AEmpty AEmpty AFmt   ENil
  | MSrcDTagMsgS => mkW false DefaultStack ADTag  ASrc   AFmt   ENil
  | MSrcDTagS    => mkW false DefaultStack ADTag  ASrc   AEmpty ENil
  | MSrcMsgS     => mkW false DefaultStack AEmpty ASrc   AFmt   ENil
  | MDTagMsgS    => mkW false DefaultStack ADTag  AEmpty AFmt   ENil
  | MConvert     => mkW true  SourceStack  AEmpty AEmpty AOrig  EErr
  | MConvertS    => mkW true  DefaultStack AEmpty AEmpty AOrig  EErr
  end.

(* gerror.gotmpl:41-165 (repaired: the SrcS stanza passes src) *)
Definition ext_wiring (m : method) : wiring :=
  match m with
  | MBase        => mkW false NoStack      AEmpty AEmpty AEmpty ENil
  | MSourceOnly  => mkW false SourceStack  AEmpty AEmpty AEmpty ENil
  | MStack       => mkW false DefaultStack AEmpty AEmpty AEmpty ENil
  | MSrc         => mkW false SourceStack  AEmpty ASrc   AEmpty ENil
  | MDTag        => mkW false SourceStack  ADTag  AEmpty AEmpty ENil
  | MMsg         => mkW false SourceStack  AEmpty AEmpty AFmt   ENil
  | MSrcDTagMsg  => mkW false SourceStack  ADTag  ASrc   AFmt   ENil
  | MSrcDTag     => mkW false SourceStack  ADTag  ASrc   AEmpty ENil
  | MSrcMsg      => mkW false SourceStack  AEmpty ASrc   AFmt   ENil
  | MDTagMsg     => mkW false SourceStack  ADTag  AEmpty AFmt   ENil
  | MSrcS        => mkW false DefaultStack AEmpty ASrc   AEmpty ENil
  | MDTagS       => mkW false DefaultStack ADTag  AEmpty AEmpty ENil
  | MMsgS        => mkW false DefaultStack AEmpty AEmpty AFmt   ENil
  | MSrcDTagMsgS => mkW false DefaultStack ADTag  ASrc   AFmt   ENil
  | MSrcDTagS    => mkW false DefaultStack ADTag  ASrc   AEmpty ENil
  | MSrcMsgS     => mkW false DefaultStack AEmpty ASrc   AFmt   ENil
  | MDTagMsgS    => mkW false DefaultStack ADTag  AEmpty AFmt   ENil
  | MConvert     => mkW true  SourceStack  AEmpty AEmpty AOrig  EErr
  | MConvertS    => mkW true  DefaultStack AEmpty AEmpty AOrig  EErr
  end.

(* the pinned template: `SrcS(src string)` calls CloneBase(e, DefaultStack, "", "", "", nil) *)
Definition ext_wiring_orig (m : method) : wiring :=
  match m with
  | MSrcS => mkW false DefaultStack AEmpty AEmpty AEmpty ENil
  | _ => ext_wiring m
  end.

(* actual arguments of one method call; a method uses only its own parameters *)
Record margs := mkA {
  a_src : str; a_dtag : str;
  a_fmt : str;         (* oracle: fmt.Sprintf(format, elems...) already rendered *)
  a_err : val;
  a_orig : str;        (* oracle: fmt.Sprintf("originalError: %+v", err) *)
  a_site : N;          (* oracle: identity of the call (whose runtime.Callers made the stack) *)
  a_derived : str }.   (* oracle: NearestExternal().Metric() of that call site *)

Definition eval_a (a : margs) (e : aexpr) : str :=
  match e with
  | AEmpty => [] | ASrc => a_src a | ADTag => a_dtag a | AFmt => a_fmt a | AOrig => a_orig a
  end.
Definition eval_e (a : margs) (e : eexpr) : val :=
  match e with ENil => VNil | EErr => a_err a end.

Definition apply_wiring (w : wiring) (base : gerr) (base_ptr err_ptr : val) (a : margs) : gerr :=
  clone_base base base_ptr err_ptr (w_stack w) (eval_a a (w_dtag w)) (eval_a a (w_src w))
             (eval_a a (w_msg w)) (eval_e a (w_serr w)) (a_site a) (a_derived a).

(* ---------------------------------------------------------------- extension structs *)

(* generate.go createField *)
Definition print_name (f : xfield) : str :=
  if str_eqb (f_tagname f) underscore then f_name f else f_tagname f.
Definition f_print (f : xfield) : bool := f_tagged f && existsb (str_eqb lit_print) (f_opts f).
Definition f_clone (f : xfield) : bool := f_tagged f && existsb (str_eqb lit_clone) (f_opts f).

(* toPrimaryType: a new struct; clone-tagged fields copied from the receiver, others zero *)
Definition to_primary (x : xinfo) : xinfo :=
  mkX (x_type x)
      (map (fun f => if f_clone f then f
                     else mkF (f_name f) (f_tagged f) (f_tagname f) (f_opts f) (f_zero f) (f_zero f))
           (x_fields x)).

(* sort.Sort(Fields) by Name (names of one struct are distinct): insertion sort *)
Fixpoint insert_field (f : xfield) (l : list xfield) : list xfield :=
  match l with
  | [] => [f]
  | h :: t => if str_ltb (f_name h) (f_name f) then h :: insert_field f t else f :: l
  end.
Definition sort_fields (l : list xfield) : list xfield := fold_right insert_field [] l.
Definition fields_to_print (l : list xfield) : list xfield := sort_fields (filter f_print l).

(* ---------------------------------------------------------------- method calls *)
(* [xw] is the wiring table of the generated methods.  Result: new store and returned value;
   None = the call is not expressible (method call on a non-gerror value / dangling pointer). *)
Definition call (xw : method -> wiring) (st : store) (v : val) (m : method) (a : margs)
  : option (store * val) :=
  match v with
  | VG i =>
      match nth_error st i with
      | None => None
      | Some c =>
          let w := base_wiring m in
          if w_guard w && is_gerr_val (a_err a) then Some (st, a_err a)
          else Some (st ++ [mkC (apply_wiring w (c_g c) (VG i) (VG i) a) None], VG (length st))
      end
  | VX i =>
      match nth_error st i with
      | None => None
      | Some c =>
          match c_x c with
          | None => None
          | Some x =>
              let w := xw m in
              if w_guard w && is_gerr_val (a_err a) then Some (st, a_err a)
              else Some (st ++ [mkC (apply_wiring w (c_g c) (VG i) (VX i) a) (Some (to_primary x))],
                         VX (length st))
          end
      end
  | _ => None
  end.

Definition step := (method * margs)%type.

Fixpoint derive (xw : method -> wiring) (st : store) (v : val) (ch : list step)
  : option (store * val) :=
  match ch with
  | [] => Some (st, v)
  | (m, a) :: r =>
      match call xw st v m a with
      | None => None
      | Some (st', v') => derive xw st' v' r
      end
  end.

(* the same chain, also returning every intermediate value *)
Fixpoint derive_trace (xw : method -> wiring) (st : store) (v : val) (ch : list step)
  : option (store * list val) :=
  match ch with
  | [] => Some (st, [])
  | (m, a) :: r =>
      match call xw st v m a with
      | None => None
      | Some (st', v') =>
          match derive_trace xw st' v' r with
          | None => None
          | Some (st'', vs) => Some (st'', v' :: vs)
          end
      end
  end.

(* factory construction *)
Definition new_gerr (name msg src : str) (isfac : bool) : gerr :=
  mkG name msg src [] None VNil VNil [] isfac.
(* FactoryOf sets isFactory on the embedded record *)
Definition factory_of (g : gerr) : gerr :=
  mkG (g_name g) (g_msg g) (g_src g) (g_dtag g) (g_stack g) (g_fref g) (g_serr g) (g_later g) true.

(* FactoryOf applied to an existing value: `err._embededGError().isFactory = true` on the
   record of cell i (the only write gerror ever makes to an existing object; programs do it
   while building their package-level factories) *)
Definition fac_cell (c : cell) : cell := mkC (factory_of (c_g c)) (c_x c).
Fixpoint set_isfac (st : store) (i : nat) : store :=
  match st, i with
  | [], _ => []
  | c :: r, O => fac_cell c :: r
  | c :: r, S k => c :: set_isfac r k
  end.

(* ---------------------------------------------------------------- Error() *)
Definition error_prefix (g : gerr) : str :=
  (if nonempty (g_name g) then lit_name ++ g_name g ++ lit_sep else [])
  ++ (if nonempty (g_dtag g) then lit_dtag ++ g_dtag g ++ lit_sep else [])
  ++ (if nonempty (g_src g) then lit_source ++ g_src g ++ lit_sep else []).
Definition error_msg_part (g : gerr) : str := lit_message ++ g_msg g.
(* text before the optional "\n" + stack.String() *)
Definition error_head (g : gerr) : str := error_prefix g ++ error_msg_part g.
Definition field_segment (f : xfield) : str := print_name f ++ lit_colon ++ f_val f ++ lit_sep.
Definition ext_error_head (g : gerr) (x : xinfo) : str :=
  error_prefix g ++ concat (map field_segment (fields_to_print (x_fields x))) ++ error_msg_part g.

(* ---------------------------------------------------------------- Unwrap / Is *)
Definition unwrap_val (st : store) (v : val) : val :=
  match v with
  | VNil => VNil
  | VF _ _ _ u => u
  | VG i | VX i => match nth_error st i with Some c => g_fref (c_g c) | None => VNil end
  end.

(* ExtractFactoryReference; a typed-nil / dangling pointer is outside the model: VNil *)
Definition extract_fref (st : store) (err : val) : val :=
  match as_gerror err with
  | None => VNil
  | Some j =>
      match nth_error st j with
      | None => VNil
      | Some c => if g_isfac (c_g c) then VG j else g_fref (c_g c)
      end
  end.

(* isConvertedFrom(converted, err): converted != nil, comparable (when guarded), == err *)
Definition converted_from (guard : bool) (s err : val) : res bool :=
  if is_nil s then Ok false
  else if guard && negb (comparable s) then Ok false
  else iface_eq s err.

(* the loop over e.laterSrcErrors *)
Fixpoint later_match (guard : bool) (l : list val) (err : val) : res bool :=
  match l with
  | [] => Ok false
  | s :: r => bind_true (converted_from guard s err) (fun _ => later_match guard r err)
  end.

(* GError.Is (pointer receiver) with receiver = the GError of cell i.  [guard] = the repaired code's
   comparability test in front of `e.srcError == err`. *)
Fixpoint gerr_is_gen (guard : bool) (fuel : nat) (st : store) (i : nat) (err : val) : res bool :=
  match fuel with
  | O => Fuel
  | S fuel' =>
      match nth_error st i with
      | None => Panic
      | Some c =>
          let g := c_g c in
          bind_true (if g_isfac g then iface_eq (VG i) (extract_fref st err) else Ok false) (fun _ =>
          bind_true (iface_eq (VG i) err) (fun _ =>
          bind_true (if is_nil (g_fref g) then Ok false else iface_eq (g_fref g) err) (fun _ =>
          bind_true (converted_from guard (g_serr g) err) (fun _ =>
          bind_true (later_match guard (g_later g) err) (fun _ =>
          match as_gerror err with
          | None => Ok false
          | Some _ =>
              match unwrap_val st err with
              | VNil => Ok false
              | u => gerr_is_gen guard fuel' st i u
              end
          end)))))
      end
  end.

(* errors.Is: the loop of errors.is; [tc] = reflectlite.TypeOf(target).Comparable(), the TYPE's
   comparability: for a deeply non-comparable target of the same dynamic type as err the stdlib's
   own `err == target` panics (foreign source and foreign target only: no gerror code runs) *)
Fixpoint errors_is_loop (guard : bool) (fuel : nat) (st : store) (err target : val) (tc : bool)
  : res bool :=
  match fuel with
  | O => Fuel
  | S fuel' =>
      bind_true (if tc then iface_eq err target else Ok false) (fun _ =>
      bind_true (match as_gerror err with
                 | Some i => gerr_is_gen guard (S fuel') st i target
                 | None => Ok false
                 end) (fun _ =>
      match unwrap_val st err with
      | VNil => Ok false
      | u => errors_is_loop guard fuel' st u target tc
      end))
  end.

Fixpoint val_depth (v : val) : nat := match v with VF _ _ _ u => S (val_depth u) | _ => 0 end.

Definition is_fuel (st : store) (err target : val) : nat :=
  4 + length st + val_depth err + val_depth target.

Definition errors_is_gen (guard : bool) (st : store) (err target : val) : res bool :=
  if is_nil err || is_nil target then iface_eq err target
  else errors_is_loop guard (is_fuel st err target) st err target (type_comparable target).

(* ---- record of the code before the value-level comparability repair: isConvertedFrom guarded
        by reflect.TypeOf(converted).Comparable(), which answers for the TYPE: a deeply
        non-comparable converted error passes the guard and the == behind it panics ---- *)
Definition converted_from_ty (s err : val) : res bool :=
  if is_nil s then Ok false
  else if negb (type_comparable s) then Ok false
  else iface_eq s err.

Fixpoint later_match_ty (l : list val) (err : val) : res bool :=
  match l with
  | [] => Ok false
  | s :: r => bind_true (converted_from_ty s err) (fun _ => later_match_ty r err)
  end.

Fixpoint gerr_is_ty (fuel : nat) (st : store) (i : nat) (err : val) : res bool :=
  match fuel with
  | O => Fuel
  | S fuel' =>
      match nth_error st i with
      | None => Panic
      | Some c =>
          let g := c_g c in
          bind_true (if g_isfac g then iface_eq (VG i) (extract_fref st err) else Ok false) (fun _ =>
          bind_true (iface_eq (VG i) err) (fun _ =>
          bind_true (if is_nil (g_fref g) then Ok false else iface_eq (g_fref g) err) (fun _ =>
          bind_true (converted_from_ty (g_serr g) err) (fun _ =>
          bind_true (later_match_ty (g_later g) err) (fun _ =>
          match as_gerror err with
          | None => Ok false
          | Some _ =>
              match unwrap_val st err with
              | VNil => Ok false
              | u => gerr_is_ty fuel' st i u
              end
          end)))))
      end
  end.

Definition errors_is := errors_is_gen true.        (* current (repaired) code *)
Definition errors_is_orig := errors_is_gen false.  (* pinned code *)
Definition gerr_is := gerr_is_gen true.
