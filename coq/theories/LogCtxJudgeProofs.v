(* LogCtxJudgeProofs.v — the executable predicate [final_ok] that the judge applies to the
   final probe of a concurrent run of the REAL code is a consequence of the proved theorems
   (C18_conc_linearisable: permutation + program order + sequential meaning): for every
   program set and schedule of the model with all threads returned, [final_ok] holds of the
   model's final logger.  Hence a verdict 1 of cc_judge / sc_judge is a violation of the
   property, never of something stronger.  Levels are those of the property's quantifier
   (Debug..Error, i.e. <= 2): the probe reads the field list off the Error-level entry.      *)
From Coq Require Import ZArith NArith List Bool Arith Lia Permutation.
From GT Require Import Base.LogConc.
From GT Require Import Base.LogConcProofs.
From GT Require Import LogCtxModel LogCtxProofs LogCtxJudge.
Import ListNotations.
Local Open Scope Z_scope.

(* ---------------- reflexivity / completeness of the boolean comparisons ---------------- *)
Lemma list_eqb_refl : forall {A} (eqb : A -> A -> bool),
  (forall x, eqb x x = true) -> forall l, list_eqb eqb l l = true.
Proof.
  intros A eqb H. induction l as [|a l IH]; cbn; [reflexivity|]. rewrite H, IH. reflexivity.
Qed.

Lemma fields_eqb_refl : forall l, fields_eqb l l = true.
Proof. apply list_eqb_refl. apply N.eqb_refl. Qed.

Lemma probe_eqb_refl : forall p, probe_eqb p p = true.
Proof. apply list_eqb_refl. apply list_eqb_refl. apply fields_eqb_refl. Qed.

Lemma count_perm : forall x a b, Permutation a b -> count x a = count x b.
Proof.
  intros x a b H. induction H; cbn; try lia.
Qed.

Lemma perm_eqb_complete : forall a b, Permutation a b -> perm_eqb a b = true.
Proof.
  intros a b H. unfold perm_eqb. apply andb_true_iff. split.
  - apply Nat.eqb_eq. apply Permutation_length. exact H.
  - apply forallb_forall. intros x _. apply Nat.eqb_eq. apply count_perm. exact H.
Qed.

Lemma firstn_app_len : forall {A} (a b : list A), firstn (length a) (a ++ b) = a.
Proof. induction a as [|x a IH]; intros b; cbn; [reflexivity | rewrite IH; reflexivity]. Qed.

Lemma skipn_app_len : forall {A} (a b : list A), skipn (length a) (a ++ b) = b.
Proof. induction a as [|x a IH]; intros b; cbn; [reflexivity | apply IH]. Qed.

(* ---------------- the last SetLevel ---------------- *)
Definition is_set (o : cop) : bool := match o with CSetLevel _ => true | CWith _ => false end.

Lemma last_level_app : forall a b acc, last_level (a ++ b) acc = last_level b (last_level a acc).
Proof.
  induction a as [|o a IH]; intros b acc; cbn; [reflexivity|]. destruct o; apply IH.
Qed.

Lemma last_level_noset : forall p acc, forallb (fun o => negb (is_set o)) p = true ->
  last_level p acc = acc.
Proof.
  induction p as [|o p IH]; intros acc H; cbn in *; [reflexivity|].
  apply andb_true_iff in H as [Ho Hp]. destruct o; cbn in Ho; [apply IH; exact Hp | discriminate].
Qed.

Lemma last_level_none : forall p, last_level p None = None ->
  forallb (fun o => negb (is_set o)) p = true.
Proof.
  assert (G : forall p acc, last_level p acc = None ->
            acc = None /\ forallb (fun o => negb (is_set o)) p = true).
  { induction p as [|o p IH]; intros acc H; cbn in *; [split; [exact H | reflexivity]|].
    destruct o as [fs | l].
    - destruct (IH _ H) as [Ha Hp]. split; [exact Ha | exact Hp].
    - destruct (IH _ H) as [Ha _]. discriminate. }
  intros p H. apply (G p None H).
Qed.

Lemma last_level_in : forall p acc l, last_level p acc = Some l ->
  acc = Some l \/ In (CSetLevel l) p.
Proof.
  induction p as [|o p IH]; intros acc l H; cbn in *; [left; exact H|].
  destruct o as [fs | l'].
  - destruct (IH _ _ H) as [Ha | Hi]; [left; exact Ha | right; right; exact Hi].
  - destruct (IH _ _ H) as [Ha | Hi]; [right; left; congruence | right; right; exact Hi].
Qed.

Lemma lin_level_last : forall T acc l0,
  match last_level T acc with Some l => l | None => l0 end
  = lin_level T (match acc with Some l => l | None => l0 end).
Proof.
  induction T as [|o T IH]; intros acc l0; cbn; [reflexivity|].
  destruct o as [fs | l]; rewrite IH; reflexivity.
Qed.

Lemma noset_perm : forall a b, Permutation a b ->
  forallb (fun o => negb (is_set o)) a = true -> forallb (fun o => negb (is_set o)) b = true.
Proof.
  intros a b H Ha. rewrite forallb_forall in *. intros x Hx. apply Ha.
  eapply Permutation_in; [apply Permutation_sym; exact H | exact Hx].
Qed.

Lemma noset_concat : forall progs p, forallb (fun o => negb (is_set o)) (concat progs) = true ->
  In p progs -> forallb (fun o => negb (is_set o)) p = true.
Proof.
  intros progs p H Hin. rewrite forallb_forall in *. intros x Hx. apply H.
  apply in_concat. exists p. split; assumption.
Qed.

Definition lasts (progs : list (list cop)) : list level :=
  flat_map (fun p => match last_level p None with Some l => [l] | None => [] end) progs.

Lemma lasts_nil : forall progs, forallb (fun o => negb (is_set o)) (concat progs) = true ->
  lasts progs = [].
Proof.
  intros progs H. unfold lasts.
  assert (G : forall p, In p progs -> last_level p None = None).
  { intros p Hin. apply last_level_noset. eapply noset_concat; eassumption. }
  clear H. induction progs as [|p progs IH]; cbn; [reflexivity|].
  rewrite (G p (or_introl eq_refl)). cbn. apply IH. intros q Hq. apply G. right. exact Hq.
Qed.

Lemma lasts_in : forall progs t l, last_level (nth t progs []) None = Some l -> In l (lasts progs).
Proof.
  intros progs t l H. unfold lasts. apply in_flat_map.
  destruct (Nat.lt_ge_cases t (length progs)) as [Hlt | Hge].
  - exists (nth t progs []). split; [apply nth_In; exact Hlt|]. rewrite H. left. reflexivity.
  - rewrite nth_overflow in H by exact Hge. discriminate.
Qed.

(* the tagged trace: its last SetLevel belongs to some thread and is the last SetLevel of that
   thread's part of the trace *)
Lemma ops_of_app : forall t a b, ops_of cop t (a ++ b) = ops_of cop t a ++ ops_of cop t b.
Proof. intros t a b. unfold LogConc.ops_of. rewrite filter_app, map_app. reflexivity. Qed.

Lemma ops_of_noset : forall t tr, forallb (fun o => negb (is_set o)) (untag cop tr) = true ->
  forallb (fun o => negb (is_set o)) (ops_of cop t tr) = true.
Proof.
  intros t tr. unfold LogConc.untag, LogConc.ops_of.
  induction tr as [|[s o] tr IH]; cbn; [reflexivity|]. intros H.
  apply andb_true_iff in H as [Ho Ht]. destruct (s =? t)%nat; cbn; [rewrite Ho|]; apply IH; exact Ht.
Qed.

Lemma last_set_thread : forall tr l, last_level (untag cop tr) None = Some l ->
  exists t, last_level (ops_of cop t tr) None = Some l.
Proof.
  intros tr. induction tr as [|[s o] tr IH] using rev_ind; intros l H; [discriminate|].
  unfold LogConc.untag in H. rewrite map_app, last_level_app in H. cbn in H.
  destruct o as [fs | l'].
  - (* the last element adds fields: the last SetLevel is earlier *)
    destruct (IH l H) as [t Ht]. exists t.
    rewrite ops_of_app, last_level_app, Ht.
    apply last_level_noset. unfold LogConc.ops_of. cbn. destruct (s =? t)%nat; reflexivity.
  - (* the last element is the SetLevel: thread s *)
    injection H as <-. exists s.
    rewrite ops_of_app, last_level_app. unfold LogConc.ops_of at 2. cbn.
    rewrite Nat.eqb_refl. reflexivity.
Qed.

(* the level after all operations in linearisation order is one the judge admits *)
Lemma lin_level_admitted : forall c0 progs tr,
  Permutation (untag cop tr) (concat progs) ->
  (forall t, ops_of cop t tr = nth t progs []) ->
  In (lin_level (untag cop tr) (clevel c0)) (final_levels c0 progs).
Proof.
  intros c0 progs tr Hp Ho.
  pose proof (lin_level_last (untag cop tr) None (clevel c0)) as E. cbn in E. rewrite <- E.
  unfold final_levels. fold (lasts progs).
  destruct (last_level (untag cop tr) None) as [l|] eqn:Hl.
  - destruct (last_set_thread tr l Hl) as [t Ht]. rewrite Ho in Ht.
    pose proof (lasts_in progs t l Ht) as Hin.
    destruct (lasts progs); [destruct Hin | exact Hin].
  - apply last_level_none in Hl.
    rewrite (lasts_nil progs (noset_perm _ _ Hp Hl)). left. reflexivity.
Qed.

Lemma final_levels_bound : forall c0 progs, clevel c0 <= 2 ->
  (forall p l, In p progs -> In (CSetLevel l) p -> l <= 2) ->
  forall l, In l (final_levels c0 progs) -> l <= 2.
Proof.
  intros c0 progs Hc Hops l Hin. unfold final_levels in Hin. fold (lasts progs) in Hin.
  assert (G : In l (lasts progs) -> l <= 2).
  { unfold lasts. intros H. apply in_flat_map in H as (p & Hp & Hl).
    destruct (last_level p None) as [l'|] eqn:E; [|destruct Hl].
    destruct Hl as [<- | []]. destruct (last_level_in _ _ _ E) as [? | Hi]; [discriminate|].
    eapply Hops; eassumption. }
  destruct (lasts progs) eqn:El; [|apply G; exact Hin].
  destruct Hin as [<- | []]. exact Hc.
Qed.

(* ---------------- final_ok is implied by the theorems ---------------- *)
Lemma sprobe_error_entry : forall fs l, l <= 2 -> hd [] (last (sprobe (fs, l)) []) = fs.
Proof.
  intros fs l H. unfold sprobe, probe_levels, semit. cbn.
  destruct (l <=? 2) eqn:E; [reflexivity | apply Z.leb_gt in E; lia].
Qed.

Lemma final_ok_of_abs : forall c0 progs final fs_added l,
  expand final = sprobe (cfields c0 ++ fs_added, l) ->
  Permutation fs_added (flat_map cop_fields (concat progs)) ->
  In l (final_levels c0 progs) -> l <= 2 ->
  final_ok c0 progs final = true.
Proof.
  intros c0 progs final fa l He Hp Hin Hl. unfold final_ok. rewrite He.
  rewrite sprobe_error_entry by exact Hl.
  rewrite firstn_app_len, skipn_app_len, fields_eqb_refl, (perm_eqb_complete _ _ Hp). cbn [andb].
  apply existsb_exists. exists l. split; [exact Hin | apply probe_eqb_refl].
Qed.

(* for every initial logger, program set and schedule of the model: once all threads have
   returned, any probe that shows the model's final logger passes the judge's predicate *)
Lemma final_ok_sound : forall c0 progs sched st tr final,
  crun (cinit c0 progs) sched = (st, tr) -> all_returned cop core st = true ->
  clevel c0 <= 2 -> (forall p l, In p progs -> In (CSetLevel l) p -> l <= 2) ->
  expand final = probe (snd (m_cell st)) ->
  final_ok c0 progs final = true.
Proof.
  intros c0 progs sched st tr final Hrun Hret Hc Hops He.
  destruct (conc_linearisable c0 progs sched st tr Hrun Hret) as (Hp & Ho & Habs).
  rewrite fold_sapply in Habs.
  change (fst (abs c0)) with (cfields c0) in Habs. change (snd (abs c0)) with (clevel c0) in Habs.
  pose proof (lin_level_admitted c0 progs tr Hp Ho) as Hin.
  eapply final_ok_of_abs with (fs_added := flat_map cop_fields (untag cop tr))
                              (l := lin_level (untag cop tr) (clevel c0)).
  - rewrite He, probe_abs, Habs. reflexivity.
  - apply flat_map_perm. exact Hp.
  - exact Hin.
  - eapply final_levels_bound; eassumption.
Qed.
