(* LogCtxJudgeProofs.v — the executable predicate [final_ok] that the judge applies to the
   final probe of a concurrent run of the REAL code is a consequence of the proved theorems
   (C18_conc_linearisable: permutation + program order + sequential meaning): for every
   program set and schedule of the model with all threads returned, [final_ok] holds of the
   model's final logger.  Hence a verdict 1 of cc_judge / sc_judge is a violation of the
   property, never of something stronger.  Levels are those of the property's quantifier
   (Debug..Error, i.e. <= 2): the probe reads the field list off the Error-level entry.      *)
From Coq Require Import ZArith NArith List Bool Arith Lia Permutation.
From GT Require Import Base.LogConc.
From GT Require Import Base.LogConcProofs.
From GT Require Import LogCtxModel LogCtxProofs LogCtxJudge.
Import ListNotations.
Local Open Scope Z_scope.

(* ---------------- reflexivity / completeness of the boolean comparisons ---------------- *)
Lemma list_eqb_refl : forall {A} (eqb : A -> A -> bool),
  (forall x, eqb x x = true) -> forall l, list_eqb eqb l l = true.
Proof.
  intros A eqb H. induction l as [|a l IH]; cbn; [reflexivity|]. rewrite H, IH. reflexivity.
Qed.

Lemma fields_eqb_refl : forall l, fields_eqb l l = true.
Proof. apply list_eqb_refl. apply N.eqb_refl. Qed.

Lemma probe_eqb_refl : forall p, probe_eqb p p = true.
Proof. apply list_eqb_refl. apply list_eqb_refl. apply fields_eqb_refl. Qed.

Lemma count_perm : forall x a b, Permutation a b -> count x a = count x b.
Proof.
  intros x a b H. induction H; cbn; try lia.
Qed.

Lemma perm_eqb_complete : forall a b, Permutation a b -> perm_eqb a b = true.
Proof.
  intros a b H. unfold perm_eqb. apply andb_true_iff. split.
  - apply Nat.eqb_eq. apply Permutation_length. exact H.
  - apply forallb_forall. intros x _. apply Nat.eqb_eq. apply count_perm. exact H.
Qed.

Lemma firstn_app_len : forall {A} (a b : list A), firstn (length a) (a ++ b) = a.
Proof. induction a as [|x a IH]; intros b; cbn; [reflexivity | rewrite IH; reflexivity]. Qed.

Lemma skipn_app_len : forall {A} (a b : list A), skipn (length a) (a ++ b) = b.
Proof. induction a as [|x a IH]; intros b; cbn; [reflexivity | apply IH]. Qed.

(* ---------------- the last SetLevel ---------------- *)
Definition is_set (o : cop) : bool := match o with CSetLevel _ => true | _ => false end.

Lemma last_level_app : forall a b acc, last_level (a ++ b) acc = last_level b (last_level a acc).
Proof.
  induction a as [|o a IH]; intros b acc; cbn; [reflexivity|]. destruct o; apply IH.
Qed.

Lemma last_level_noset : forall p acc, forallb (fun o => negb (is_set o)) p = true ->
  last_level p acc = acc.
Proof.
  induction p as [|o p IH]; intros acc H; cbn in *; [reflexivity|].
  apply andb_true_iff in H as [Ho Hp]. destruct o; cbn in Ho; [apply IH; exact Hp | discriminate | apply IH; exact Hp].
Qed.

Lemma last_level_none : forall p, last_level p None = None ->
  forallb (fun o => negb (is_set o)) p = true.
Proof.
  assert (G : forall p acc, last_level p acc = None ->
            acc = None /\ forallb (fun o => negb (is_set o)) p = true).
  { induction p as [|o p IH]; intros acc H; cbn in *; [split; [exact H | reflexivity]|].
    destruct o as [fs | l | fs].
    - destruct (IH _ H) as [Ha Hp]. split; [exact Ha | exact Hp].
    - destruct (IH _ H) as [Ha _]. discriminate.
    - destruct (IH _ H) as [Ha Hp]. split; [exact Ha | exact Hp]. }
  intros p H. apply (G p None H).
Qed.

Lemma last_level_in : forall p acc l, last_level p acc = Some l ->
  acc = Some l \/ In (CSetLevel l) p.
Proof.
  induction p as [|o p IH]; intros acc l H; cbn in *; [left; exact H|].
  destruct o as [fs | l' | fs].
  - destruct (IH _ _ H) as [Ha | Hi]; [left; exact Ha | right; right; exact Hi].
  - destruct (IH _ _ H) as [Ha | Hi]; [right; left; congruence | right; right; exact Hi].
  - destruct (IH _ _ H) as [Ha | Hi]; [left; exact Ha | right; right; exact Hi].
Qed.

Lemma lin_level_last : forall T acc l0,
  match last_level T acc with Some l => l | None => l0 end
  = lin_level T (match acc with Some l => l | None => l0 end).
Proof.
  induction T as [|o T IH]; intros acc l0; cbn; [reflexivity|].
  destruct o as [fs | l | fs]; rewrite IH; reflexivity.
Qed.

Lemma noset_perm : forall a b, Permutation a b ->
  forallb (fun o => negb (is_set o)) a = true -> forallb (fun o => negb (is_set o)) b = true.
Proof.
  intros a b H Ha. rewrite forallb_forall in *. intros x Hx. apply Ha.
  eapply Permutation_in; [apply Permutation_sym; exact H | exact Hx].
Qed.

Lemma noset_concat : forall progs p, forallb (fun o => negb (is_set o)) (concat progs) = true ->
  In p progs -> forallb (fun o => negb (is_set o)) p = true.
Proof.
  intros progs p H Hin. rewrite forallb_forall in *. intros x Hx. apply H.
  apply in_concat. exists p. split; assumption.
Qed.

Definition lasts (progs : list (list cop)) : list level :=
  flat_map (fun p => match last_level p None with Some l => [l] | None => [] end) progs.

Lemma lasts_nil : forall progs, forallb (fun o => negb (is_set o)) (concat progs) = true ->
  lasts progs = [].
Proof.
  intros progs H. unfold lasts.
  assert (G : forall p, In p progs -> last_level p None = None).
  { intros p Hin. apply last_level_noset. eapply noset_concat; eassumption. }
  clear H. induction progs as [|p progs IH]; cbn; [reflexivity|].
  rewrite (G p (or_introl eq_refl)). cbn. apply IH. intros q Hq. apply G. right. exact Hq.
Qed.

Lemma lasts_in : forall progs t l, last_level (nth t progs []) None = Some l -> In l (lasts progs).
Proof.
  intros progs t l H. unfold lasts. apply in_flat_map.
  destruct (Nat.lt_ge_cases t (length progs)) as [Hlt | Hge].
  - exists (nth t progs []). split; [apply nth_In; exact Hlt|]. rewrite H. left. reflexivity.
  - rewrite nth_overflow in H by exact Hge. discriminate.
Qed.

(* the tagged trace: its last SetLevel belongs to some thread and is the last SetLevel of that
   thread's part of the trace *)
Lemma ops_of_app : forall t a b, ops_of cop t (a ++ b) = ops_of cop t a ++ ops_of cop t b.
Proof. intros t a b. unfold LogConc.ops_of. rewrite filter_app, map_app. reflexivity. Qed.

Lemma ops_of_noset : forall t tr, forallb (fun o => negb (is_set o)) (untag cop tr) = true ->
  forallb (fun o => negb (is_set o)) (ops_of cop t tr) = true.
Proof.
  intros t tr. unfold LogConc.untag, LogConc.ops_of.
  induction tr as [|[s o] tr IH]; cbn; [reflexivity|]. intros H.
  apply andb_true_iff in H as [Ho Ht]. destruct (s =? t)%nat; cbn; [rewrite Ho|]; apply IH; exact Ht.
Qed.

Lemma last_set_thread : forall tr l, last_level (untag cop tr) None = Some l ->
  exists t, last_level (ops_of cop t tr) None = Some l.
Proof.
  intros tr. induction tr as [|[s o] tr IH] using rev_ind; intros l H; [discriminate|].
  unfold LogConc.untag in H. rewrite map_app, last_level_app in H. cbn in H.
  destruct o as [fs | l' | fs].
  - (* the last element adds fields: the last SetLevel is earlier *)
    destruct (IH l H) as [t Ht]. exists t.
    rewrite ops_of_app, last_level_app, Ht.
    apply last_level_noset. unfold LogConc.ops_of. cbn. destruct (s =? t)%nat; reflexivity.
  - (* the last element is the SetLevel: thread s *)
    injection H as <-. exists s.
    rewrite ops_of_app, last_level_app. unfold LogConc.ops_of at 2. cbn.
    rewrite Nat.eqb_refl. reflexivity.
  - (* the last element is a ChildLogger: the last SetLevel is earlier *)
    destruct (IH l H) as [t Ht]. exists t.
    rewrite ops_of_app, last_level_app, Ht.
    apply last_level_noset. unfold LogConc.ops_of. cbn. destruct (s =? t)%nat; reflexivity.
Qed.

(* the level after all operations in linearisation order is one the judge admits *)
Lemma lin_level_admitted : forall c0 progs tr,
  Permutation (untag cop tr) (concat progs) ->
  (forall t, ops_of cop t tr = nth t progs []) ->
  In (lin_level (untag cop tr) (clevel c0)) (final_levels c0 progs).
Proof.
  intros c0 progs tr Hp Ho.
  pose proof (lin_level_last (untag cop tr) None (clevel c0)) as E. cbn in E. rewrite <- E.
  unfold final_levels. fold (lasts progs).
  destruct (last_level (untag cop tr) None) as [l|] eqn:Hl.
  - destruct (last_set_thread tr l Hl) as [t Ht]. rewrite Ho in Ht.
    pose proof (lasts_in progs t l Ht) as Hin.
    destruct (lasts progs); [destruct Hin | exact Hin].
  - apply last_level_none in Hl.
    rewrite (lasts_nil progs (noset_perm _ _ Hp Hl)). left. reflexivity.
Qed.

Lemma final_levels_bound : forall c0 progs, clevel c0 <= 2 ->
  (forall p l, In p progs -> In (CSetLevel l) p -> l <= 2) ->
  forall l, In l (final_levels c0 progs) -> l <= 2.
Proof.
  intros c0 progs Hc Hops l Hin. unfold final_levels in Hin. fold (lasts progs) in Hin.
  assert (G : In l (lasts progs) -> l <= 2).
  { unfold lasts. intros H. apply in_flat_map in H as (p & Hp & Hl).
    destruct (last_level p None) as [l'|] eqn:E; [|destruct Hl].
    destruct Hl as [<- | []]. destruct (last_level_in _ _ _ E) as [? | Hi]; [discriminate|].
    eapply Hops; eassumption. }
  destruct (lasts progs) eqn:El; [|apply G; exact Hin].
  destruct Hin as [<- | []]. exact Hc.
Qed.

(* ---------------- program order of the fields ---------------- *)
Lemma is_subseq_nil : forall b, is_subseq [] b = true.
Proof. destruct b; reflexivity. Qed.

(* greedy matching is complete: an extra element in front of b never hurts, and what matches
   with its head matches without it *)
Lemma is_subseq_both : forall b,
  (forall a y, is_subseq a b = true -> is_subseq a (y :: b) = true)
  /\ (forall x a, is_subseq (x :: a) b = true -> is_subseq a b = true).
Proof.
  induction b as [|w b [IH1 IH2]].
  - split.
    + intros [|x a] y H; [reflexivity | discriminate H].
    + intros x a H. discriminate H.
  - assert (P2 : forall x a, is_subseq (x :: a) (w :: b) = true -> is_subseq a (w :: b) = true).
    { intros x a H. cbn [is_subseq] in H. destruct (N.eqb x w).
      - apply IH1. exact H.
      - apply IH1. apply (IH2 x). exact H. }
    split; [|exact P2].
    intros [|x a] y H; [reflexivity|]. cbn [is_subseq]. destruct (N.eqb x y).
    + apply (P2 x). exact H.
    + exact H.
Qed.

Lemma is_subseq_cons_r : forall a b y, is_subseq a b = true -> is_subseq a (y :: b) = true.
Proof. intros a b y. apply (proj1 (is_subseq_both b)). Qed.

Lemma is_subseq_app_r : forall x a b, is_subseq a b = true -> is_subseq a (x ++ b) = true.
Proof. induction x as [|y x IH]; intros a b H; cbn; [exact H | apply is_subseq_cons_r, IH, H]. Qed.

Lemma is_subseq_app_same : forall x a b, is_subseq a b = true -> is_subseq (x ++ a) (x ++ b) = true.
Proof. induction x as [|y x IH]; intros a b H; cbn; [exact H | rewrite N.eqb_refl; apply IH, H]. Qed.

(* what one goroutine added appears, in its order, among everything that was added *)
Lemma subseq_ops_of : forall t (tr : list (nat * cop)),
  is_subseq (flat_map cop_fields (ops_of cop t tr)) (flat_map cop_fields (untag cop tr)) = true.
Proof.
  intros t tr. unfold LogConc.ops_of, LogConc.untag.
  induction tr as [|[s o] tr IH]; cbn; [reflexivity|].
  destruct (s =? t)%nat; cbn.
  - apply is_subseq_app_same. exact IH.
  - apply is_subseq_app_r. exact IH.
Qed.

(* ---------------- final_ok is implied by the theorems ---------------- *)
Lemma sprobe_error_entry : forall fs l, l <= 2 -> hd [] (last (sprobe (fs, l)) []) = fs.
Proof.
  intros fs l H. unfold sprobe, probe_levels, semit. cbn.
  destruct (l <=? 2) eqn:E; [reflexivity | apply Z.leb_gt in E; lia].
Qed.

Lemma final_ok_of_abs : forall c0 progs final fs_added l,
  expand final = sprobe (cfields c0 ++ fs_added, l) ->
  Permutation fs_added (flat_map cop_fields (concat progs)) ->
  (forall p, In p progs -> is_subseq (flat_map cop_fields p) fs_added = true) ->
  In l (final_levels c0 progs) -> l <= 2 ->
  final_ok c0 progs final = true.
Proof.
  intros c0 progs final fa l He Hp Hsub Hin Hl. unfold final_ok. rewrite He.
  rewrite sprobe_error_entry by exact Hl.
  rewrite firstn_app_len, skipn_app_len, fields_eqb_refl, (perm_eqb_complete _ _ Hp). cbn [andb].
  apply andb_true_iff. split.
  - apply forallb_forall. exact Hsub.
  - apply existsb_exists. exists l. split; [exact Hin | apply probe_eqb_refl].
Qed.

(* for every initial logger, program set and schedule of the model: once all threads have
   returned, any probe that shows the model's final logger passes the judge's predicate *)
Lemma final_ok_sound : forall c0 progs sched st tr final,
  crun (cinit c0 progs) sched = (st, tr) -> all_returned cop core st = true ->
  clevel c0 <= 2 -> (forall p l, In p progs -> In (CSetLevel l) p -> l <= 2) ->
  expand final = probe (snd (m_cell st)) ->
  final_ok c0 progs final = true.
Proof.
  intros c0 progs sched st tr final Hrun Hret Hc Hops He.
  destruct (conc_linearisable c0 progs sched st tr Hrun Hret) as (Hp & Ho & Habs).
  rewrite fold_sapply in Habs.
  change (fst (abs c0)) with (cfields c0) in Habs. change (snd (abs c0)) with (clevel c0) in Habs.
  pose proof (lin_level_admitted c0 progs tr Hp Ho) as Hin.
  eapply final_ok_of_abs with (fs_added := flat_map cop_fields (untag cop tr))
                              (l := lin_level (untag cop tr) (clevel c0)).
  - rewrite He, probe_abs, Habs. reflexivity.
  - apply flat_map_perm. exact Hp.
  - intros p Hpin. destruct (In_nth _ _ [] Hpin) as (t & _ & <-). rewrite <- (Ho t). apply subseq_ops_of.
  - exact Hin.
  - eapply final_levels_bound; eassumption.
Qed.

(* ---------------- children_ok is implied by the theorems ---------------- *)
Lemma count_app : forall x a b, count x (a ++ b) = (count x a + count x b)%nat.
Proof. intros x a b. induction a as [|y a IH]; cbn; [reflexivity | rewrite IH; lia]. Qed.

Lemma sub_multiset_of_counts : forall a b, (forall x, (count x a <= count x b)%nat) -> sub_multiset a b = true.
Proof.
  intros a b H. unfold sub_multiset. apply forallb_forall. intros x _. apply Nat.leb_le. apply H.
Qed.

Lemma flat_map_app' : forall {A B} (f : A -> list B) a b, flat_map f (a ++ b) = flat_map f a ++ flat_map f b.
Proof. intros A B f a b. induction a as [|x a IH]; cbn; [reflexivity | rewrite IH, app_assoc; reflexivity]. Qed.

Lemma count_own_le : forall x t (pre : list (nat * cop)),
  (count x (flat_map cop_fields (ops_of cop t pre)) <= count x (flat_map cop_fields (untag cop pre)))%nat.
Proof.
  intros x t pre. unfold LogConc.ops_of, LogConc.untag.
  induction pre as [|[s o] pre IH]; cbn; [lia|].
  destruct (s =? t)%nat; cbn; rewrite ?count_app; lia.
Qed.

Lemma lin_level_in : forall T l0, lin_level T l0 = l0 \/ In (CSetLevel (lin_level T l0)) T.
Proof.
  induction T as [|o T IH]; intros l0; cbn; [left; reflexivity|].
  destruct o as [fs | l | fs]; cbn.
  - destruct (IH l0) as [E | Hin]; [left; exact E | right; right; exact Hin].
  - destruct (IH l) as [E | Hin]; [right; left; unfold lin_level in E; cbn in E |- *; f_equal; symmetry; exact E
                                  | right; right; exact Hin].
  - destruct (IH l0) as [E | Hin]; [left; exact E | right; right; exact Hin].
Qed.

Lemma set_levels_in : forall ops l, In (CSetLevel l) ops -> In l (set_levels ops).
Proof.
  intros ops l H. unfold set_levels. apply in_flat_map. exists (CSetLevel l). split; [exact H | left; reflexivity].
Qed.

Lemma in_concat_prog : forall (progs : list (list cop)) o, In o (concat progs) -> exists p, In p progs /\ In o p.
Proof. intros progs o H. apply in_concat in H as (p & Hp & Ho). exists p. split; assumption. Qed.

Lemma children_from_In : forall evs pre ti c, In (ti, c) (children_from pre evs) ->
  exists j t fs v, nth_error evs j = Some ((t, CChild fs), v)
    /\ ti = (t, length (ops_of cop t (pre ++ map fst (firstn j evs))))
    /\ c = logger_with core_with v fs.
Proof.
  induction evs as [|[[t o] v] evs IH]; intros pre ti c H; cbn in H; [destruct H|].
  apply in_app_or in H as [H | H].
  - destruct o as [fs | l | fs]; cbn in H; [destruct H | destruct H |].
    destruct H as [E | []]. injection E as <- <-.
    exists 0%nat, t, fs, v. cbn. rewrite app_nil_r. repeat split.
  - destruct (IH _ _ _ H) as (j & t' & fs & v' & Hn & Hti & Hc).
    exists (S j), t', fs, v'. cbn. split; [exact Hn | split; [|exact Hc]].
    rewrite Hti, <- app_assoc. reflexivity.
Qed.

Lemma nth_error_combine : forall {A B} (a : list A) (b : list B) j x y,
  nth_error (combine a b) j = Some (x, y) -> nth_error a j = Some x /\ nth_error b j = Some y.
Proof.
  intros A B a. induction a as [|x0 a IH]; intros [|y0 b] [|j] x y H; cbn in *; try discriminate.
  - injection H as <- <-. split; reflexivity.
  - apply IH. exact H.
Qed.

Lemma map_fst_firstn_combine : forall {A B} (a : list A) (b : list B) j,
  length a = length b -> map fst (firstn j (combine a b)) = firstn j a.
Proof.
  intros A B a. induction a as [|x a IH]; intros [|y b] [|j] H; cbn in *; try reflexivity; try discriminate.
  f_equal. apply IH. lia.
Qed.

Lemma skipn_firstn_mid : forall (i x f : list N),
  firstn (length (i ++ x ++ f) - length i - length f) (skipn (length i) (i ++ x ++ f)) = x.
Proof.
  intros i x f. rewrite skipn_app_len. rewrite !app_length.
  replace (length i + (length x + length f) - length i - length f)%nat with (length x) by lia.
  apply firstn_app_len.
Qed.

(* every child the model creates under any schedule passes the judge's predicate *)
Lemma child_ok_of_model : forall c0 progs sched st tr ti c o,
  crun (cinit c0 progs) sched = (st, tr) -> all_returned cop core st = true ->
  clevel c0 <= 2 -> (forall p l, In p progs -> In (CSetLevel l) p -> l <= 2) ->
  In (ti, c) (crun_children (cinit c0 progs) sched) -> expand o = probe c ->
  child_ok c0 progs ti o = true.
Proof.
  intros c0 progs sched st tr ti c o Hrun Hret Hc0 Hops Hin He.
  unfold crun_children in Hin. rewrite Hrun in Hin. cbn [snd] in Hin.
  destruct (run_vals_spec cop core fn (cpure core_with) cident cprog cfn cop_is_read
              cprog_shape cident_pure cread_pure c0 progs sched st tr Hrun) as (Hlen & _).
  fold (cinit c0 progs) in Hlen. fold (crun_vals (cinit c0 progs) sched) in Hlen.
  destruct (children_from_In _ _ _ _ Hin) as (j & t & fs & v & Hn & Hti & Hcv).
  cbn [app] in Hti.
  destruct (nth_error_combine _ _ _ _ _ Hn) as [Htr Hv].
  rewrite (map_fst_firstn_combine _ _ j (eq_sym Hlen)) in Hti.
  destruct (conc_child_sees_prefix c0 progs sched st tr j t fs Hrun Htr) as (seen & Hs & Habs & _).
  rewrite Hv in Hs. injection Hs as <-.
  pose proof (conc_child_program_order c0 progs sched st tr j t fs Hrun Hret Htr) as Hpo.
  destruct (conc_linearisable c0 progs sched st tr Hrun Hret) as (Hperm & _ & _).
  set (pre := firstn j tr) in *.
  rewrite fold_sapply in Habs.
  change (fst (abs c0)) with (cfields c0) in Habs. change (snd (abs c0)) with (clevel c0) in Habs.
  set (X := flat_map cop_fields (untag cop pre)) in *.
  set (lvl := lin_level (untag cop pre) (clevel c0)) in *.
  assert (Hprobe : expand o = sprobe (cfields c0 ++ X ++ fs, lvl)).
  { rewrite He, Hcv, probe_abs, abs_logger_with, Habs. unfold add_fields. cbn [fst snd].
    rewrite <- app_assoc. reflexivity. }
  (* the level is the initial one or one some SetLevel asked for *)
  assert (Hlvl_in : In lvl (clevel c0 :: set_levels (concat progs))).
  { destruct (lin_level_in (untag cop pre) (clevel c0)) as [E | Hi]; [left; symmetry; exact E|].
    right. apply set_levels_in. eapply Permutation_in; [exact Hperm|].
    unfold LogConc.untag in *. rewrite (nth_error_split tr j _ Htr), map_app. apply in_or_app. left. exact Hi. }
  assert (Hlvl_le : lvl <= 2).
  { destruct Hlvl_in as [<- | Hi]; [exact Hc0|].
    unfold set_levels in Hi. apply in_flat_map in Hi as (o' & Ho' & Hl).
    destruct o' as [? | l' | ?]; cbn in Hl; [destruct Hl | | destruct Hl]. destruct Hl as [<- | []].
    destruct (in_concat_prog _ _ Ho') as (p & Hp & Hop). eapply Hops; eassumption. }
  unfold child_ok. rewrite Hti. cbn [fst snd].
  rewrite Hpo. rewrite nth_error_app2 by lia. rewrite Nat.sub_diag. cbn [nth_error].
  rewrite Hprobe, sprobe_error_entry by exact Hlvl_le.
  rewrite skipn_firstn_mid, fields_eqb_refl. cbn [andb].
  rewrite firstn_app_len.
  apply andb_true_iff. split; [apply andb_true_iff; split|].
  - (* nothing that was not added, nothing more often than it was added *)
    apply sub_multiset_of_counts. intros x.
    rewrite <- (count_perm x _ _ (flat_map_perm cop_fields _ _ Hperm)).
    unfold X, pre. unfold LogConc.untag. rewrite (nth_error_split tr j _ Htr) at 2.
    rewrite map_app, flat_map_app', count_app. lia.
  - (* everything its own goroutine added before *)
    apply sub_multiset_of_counts. intros x. apply count_own_le.
  - apply existsb_exists. exists lvl. split; [exact Hlvl_in | apply probe_eqb_refl].
Qed.

Lemma children_ok_sound : forall c0 progs sched st tr (ch : list ((nat * nat) * cobs)),
  crun (cinit c0 progs) sched = (st, tr) -> all_returned cop core st = true ->
  clevel c0 <= 2 -> (forall p l, In p progs -> In (CSetLevel l) p -> l <= 2) ->
  Forall2 (fun a b => fst a = fst b /\ expand (snd a) = probe (snd b)) ch
          (crun_children (cinit c0 progs) sched) ->
  children_ok c0 progs ch = true.
Proof.
  intros c0 progs sched st tr ch Hrun Hret Hc0 Hops HF. unfold children_ok.
  assert (G : forall l, (forall b, In b l -> In b (crun_children (cinit c0 progs) sched)) ->
              forall ch', Forall2 (fun a b => fst a = fst b /\ expand (snd a) = probe (snd b)) ch' l ->
              forallb (fun x => child_ok c0 progs (fst x) (snd x)) ch' = true).
  { intros l Hl ch' H. induction H as [|a b ch' l' (Ea & Eb) H IH]; cbn; [reflexivity|].
    rewrite IH by (intros b' Hb'; apply Hl; right; exact Hb').
    rewrite andb_true_r. destruct b as [ti c]. cbn in Ea, Eb. rewrite Ea.
    apply (child_ok_of_model c0 progs sched st tr ti c (snd a) Hrun Hret Hc0 Hops);
      [apply Hl; left; reflexivity | exact Eb]. }
  apply (G _ (fun b Hb => Hb) ch HF).
Qed.

(* ---------------- final_ok_tail is implied by the theorems ---------------- *)
Lemma lin_level_app : forall a b l0, lin_level (a ++ b) l0 = lin_level b (lin_level a l0).
Proof. intros a b l0. unfold lin_level. apply fold_left_app. Qed.

Lemma skipn_firstn_mid' : forall (i x f : list N),
  firstn (length (i ++ x ++ f) - length i - length f) (skipn (length i) (i ++ x ++ f)) = x.
Proof.
  intros i x f. rewrite skipn_app_len. rewrite !app_length.
  replace (length i + (length x + length f) - length i - length f)%nat with (length x) by lia.
  apply firstn_app_len.
Qed.

(* s1: the parallel part (only goroutines of progs, all of which have returned after it);
   s2: the rest (only the tail goroutine has anything left to do) *)
Lemma final_ok_tail_sound : forall c0 progs tail s1 s2 st1 tr1 st2 tr2 final,
  crun (cinit c0 (progs ++ [tail])) s1 = (st1, tr1) -> crun st1 s2 = (st2, tr2) ->
  (forall t, In t s1 -> (t < length progs)%nat) ->
  (forall t, (t < length progs)%nat -> cops_of t st1 = []) ->
  all_returned cop core st2 = true ->
  clevel c0 <= 2 -> (forall p l, In p (progs ++ [tail]) -> In (CSetLevel l) p -> l <= 2) ->
  expand final = probe (snd (m_cell st2)) ->
  final_ok_tail c0 progs tail final = true.
Proof.
  intros c0 progs tail s1 s2 st1 tr1 st2 tr2 final H1 H2 Hs1 Hdone Hret Hc0 Hops He.
  destruct (run_tail cop core fn (cpure core_with) cident cprog cfn cop_is_read
              cprog_shape cident_pure cread_pure c0 progs tail s1 s2 st1 tr1 st2 tr2 H1 H2 Hs1 Hdone Hret)
    as (_ & Hp & Ho & Hcell).
  change (apply_op cop core fn (cpure core_with) cfn) with capply in Hcell.
  assert (Habs : abs (snd (m_cell st2)) = fold_left sapply (untag cop tr1 ++ tail) (abs c0)).
  { rewrite Hcell. apply abs_fold_capply. }
  rewrite fold_sapply in Habs.
  change (fst (abs c0)) with (cfields c0) in Habs. change (snd (abs c0)) with (clevel c0) in Habs.
  rewrite flat_map_app', lin_level_app in Habs.
  set (X1 := flat_map cop_fields (untag cop tr1)) in *.
  set (l1 := lin_level (untag cop tr1) (clevel c0)) in *.
  set (lf := lin_level tail l1) in *.
  assert (Hl1in : In l1 (final_levels c0 progs)) by (apply lin_level_admitted; assumption).
  assert (Hl1le : l1 <= 2).
  { eapply final_levels_bound; [exact Hc0 | | exact Hl1in].
    intros p l Hp' Hl. apply (Hops p l); [apply in_or_app; left; exact Hp' | exact Hl]. }
  assert (Hlf : lf = match last_level tail None with Some l => l | None => l1 end).
  { unfold lf. pose proof (lin_level_last tail None l1) as E. cbn in E. symmetry. exact E. }
  assert (Hlfle : lf <= 2).
  { rewrite Hlf. destruct (last_level tail None) as [l|] eqn:El; [|exact Hl1le].
    destruct (last_level_in _ _ _ El) as [? | Hi]; [discriminate|].
    apply (Hops tail l); [apply in_or_app; right; left; reflexivity | exact Hi]. }
  unfold final_ok_tail. rewrite He, probe_abs, Habs.
  rewrite sprobe_error_entry by exact Hlfle.
  rewrite skipn_firstn_mid', fields_eqb_refl. cbn [andb].
  apply andb_true_iff. split; [apply andb_true_iff; split|].
  - apply perm_eqb_complete. apply flat_map_perm. exact Hp.
  - apply forallb_forall. intros p Hpin. destruct (In_nth _ _ [] Hpin) as (t & _ & <-).
    rewrite <- (Ho t). apply subseq_ops_of.
  - apply existsb_exists. exists lf. split; [|apply probe_eqb_refl].
    rewrite Hlf. destruct (last_level tail None); [left; reflexivity | exact Hl1in].
Qed.

